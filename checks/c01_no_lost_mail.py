"""C01 -- accepted mail is never lost: every recipient reaches a final disposition.

Real Queue + real backend under QueueLab. Oracle: per-recipient disposition ledger built
offline from the probe's own log (what the relay probe reported per recipient, backoff
exhaustion events, bounces handed to the bounce queue, final storage contents after every
timer has been run down):
  delivered | permanently failed / exhausted and (null sender | bounced | bounce suppressed
  by a factory returning None) | still stored AND still scheduled.
Violations: lost, dropped-from-stored-message, stranded (stored but never retried again),
failed-not-bounced.
"""
import random

from vf import queuelab as L
from vf import qlchecks as C

PROPERTY = 'C01'
LEVEL = 'exploration'
LEVEL_TEXT = ('Real slimta Queue on dict, disk (pyaio), redis (redis-py vs in-process RESP3 server) and cloud '
              '(object-store double, strict and lenient, with/without message queue) driven through seeded '
              'histories mixing whole-message and per-recipient (mapping and sequence) successes, transient and '
              'permanent failures and unexpected exceptions, with backoff tables that end in exhaustion, 1..4 '
              'recipients, 1..3 concurrent messages, empty senders, bounded/unbounded pools and gated storage '
              'calls; the disposition ledger is checked once every timer has been run down (bounded progress). '
              'A second stratum runs the real SMTP and LMTP relays (with their connection pools) against a scripted '
              'next hop, and the real pipe relay (per-recipient or not) running a real delivery program with planned '
              'exit status / output / signal death / overrun of the shared timeout, behind the probe (HTTP relay '
              'outcomes are judged by C11). Held = held on the '
              'histories reported.')
LEVEL_NOTE = ('Trusted: virtual clock shim, scripted relay probe (it is the witness of what the relay reported), '
              'backend doubles (MiniRedis, MemObjectStore), quiescence detection. Liveness is restated as bounded '
              'progress: backoff tables end with None, so after all timers ran nothing may be outstanding.')
TECHNIQUE = 'runtime monitoring: conservation ledger (accepted = delivered + bounced + dropped-null-sender + outstanding-and-scheduled) over recorded relay/storage/bounce events'
RULE = ('case = one seeded history (config + PRNG seed). non-trivial = history with >= 1 non-success outcome and >= 2 '
        'attempts of one message; distinct by (backend, per-message outcome-sequence shape, pool config)')
ASSUMPTIONS = ['the relay probe\'s per-recipient report is what "reported delivered by the relay" means',
               'a bounce factory returning None is a documented way to suppress a bounce and counts as reported']
REQUIRED_HITS = ['attempt-outcomes-observed', 'histories-judged', 'recipients-ledgered', 'real-relay-histories']
SHARDS = {'quick': 12, 'thorough': 16}
BUDGET = {'quick': 70, 'thorough': 800}

BACKENDS = C.BACKENDS_ALL


def gen_cases(tier, seed, shard, nshards):
    rnd = random.Random('c01-%d-%d' % (seed, shard))
    plan = C.backend_plan(9000 if tier == 'quick' else 250000, BACKENDS)
    for be in BACKENDS:
        for i in range(max(1, plan[be] // nshards)):
            cfg = {'backend': be,
                   'profile': rnd.choice([['ok', 'temp', 'perm', 'map', 'seq', 'exc', 'reply'],
                                          ['map', 'seq', 'temp', 'exc'], ['temp', 'temp', 'exc', 'perm'],
                                          ['map', 'map', 'seq', 'ok']]),
                   'rcpt_profile': rnd.choice([['ok', 'reply', 'temp', 'temp', 'perm'], ['temp', 'perm'],
                                               ['ok', 'temp']]),
                   'backoffs': rnd.choice([[None], [0, None], [0, 0, 0, None], [4, 4, None], [1, 3, 9, 27, None],
                                           [0, 5, 0, 5, None]]),
                   'rcpts': (1, 4), 'nmsg': rnd.randint(1, 3), 'null_sender_p': 0.2,
                   'store_pool': rnd.choice([None, None, None, 1, 2]),
                   'relay_pool': rnd.choice([None, None, None, 1, 2]),
                   'gate_p': rnd.choice([0.0, 0.3]), 'flush_p': rnd.choice([0, 0, 0.15]),
                   'bounce_none_p': rnd.choice([0, 0, 0.3]),
                   'prepop': rnd.choice([0, 0, 1]), 'steps': rnd.choice([20, 35])}
            yield {'cfg': cfg, 'seed': rnd.randrange(1 << 40)}
    # real relay kinds (SMTP / LMTP clients with their connection pool) behind the probe,
    # talking to the scripted next hop: what the Queue acts on is what the real relay reported
    nreal = (180 if tier == 'quick' else 9000) // nshards
    for i in range(max(1, nreal)):
        cfg = {'backend': rnd.choice(['dict', 'dict', 'disk', 'cloud', 'redis']),
               'real_relay': rnd.choice(['smtp', 'lmtp', 'pipe', 'pipe', 'pipe-one']),
               'backoffs': rnd.choice([[0, None], [0, 3, None], [2, 2, 2, None]]),
               'rcpts': (1, 4), 'nmsg': rnd.randint(1, 3), 'null_sender_p': 0.2,
               'relay_idle': rnd.choice([None, 0.5]), 'relay_pool_size': rnd.choice([None, 1, 2]),
               'pipe_slow_p': rnd.choice([0.05, 0.15, 0.3]),
               'steps': 20}
        if cfg['real_relay'] == 'pipe-one':
            cfg['rcpts'] = (1, 1)      # documented use: behind a recipient-splitting policy
        yield {'cfg': cfg, 'seed': rnd.randrange(1 << 40)}


def _hits(lab, H, R):
    if lab.cfg.get('real_relay'):
        R.hit('real-relay-histories')
        R.count('real-relay/' + lab.cfg['real_relay'])
    R.hit('recipients-ledgered', sum(len(i['rc']) for i in H.accepted.values()))
    R.count('bounces-enqueued', sum(1 for e in lab.events if e[1] == 'bounce_enqueued'))
    R.count('exhaustions', sum(1 for e in lab.events if e[1] == 'backoff' and e[4] is None))


def _nontrivial(lab, H):
    per = {}
    bad = False
    for e in lab.events:
        if e[1] == 'attempt_end':
            per[e[2]] = per.get(e[2], 0) + 1
            if any(c != 'D' for c, _ in e[5].values()):
                bad = True
    if bad and any(v >= 2 for v in per.values()):
        return C.shape_of(lab)
    return None


def _classify(lab, H, kind, m, d):
    be = lab.cfg.get('backend')
    crash = L.crash_tag(lab)
    if m is not None and C.outran_enqueue(lab, H, m):
        return 'self-announcement-outran-enqueue/%s' % be
    if C.pool_cycle_deadlock(lab):
        return 'store-pool<->relay-pool-cycle-deadlock'
    last = None
    for e in lab.events:
        if e[1] == 'attempt_end' and e[2] == m:
            last = e[4]
    sp = lab.cfg.get('store_pool') is not None
    rp = lab.cfg.get('relay_pool') is not None
    return '%s/%s/%s/last-outcome=%s/%s' % (kind, be, crash, last,
                                            'pools:%s%s' % ('S' if sp else '-', 'R' if rp else '-'))


def run_case(case, R):
    C.run_lab_case(case, R, L.judge_c01, _classify, _nontrivial, _hits)


def shard_cleanup():
    C.cleanup()
