"""C01 -- accepted mail is never lost: every recipient reaches a final disposition.

Real Queue + real backend under QueueLab. Oracle: per-recipient disposition ledger built
offline from the probe's own log (what the relay probe reported per recipient, backoff
exhaustion events, bounces handed to the bounce queue, final storage contents after every
timer has been run down):
  delivered | permanently failed / exhausted and (null sender | bounced | bounce suppressed
  by a factory returning None) | still stored AND still scheduled.
Violations: lost, dropped-from-stored-message, stranded (stored but never retried again),
failed-not-bounced.
"""
import random

from vf import queuelab as L
from vf import qlchecks as C

PROPERTY = 'C01'
LEVEL = 'exploration'
LEVEL_TEXT = ('Real slimta Queue on dict, disk (pyaio), redis (redis-py vs in-process RESP3 server) and cloud '
              '(object-store double, strict and lenient, with/without message queue) driven through seeded '
              'histories mixing whole-message and per-recipient (mapping and sequence) successes, transient and '
              'permanent failures and unexpected exceptions, with backoff tables that end in exhaustion, 1..4 '
              'recipients, 1..3 concurrent messages, empty senders, bounded/unbounded pools and gated storage '
              'calls; the disposition ledger is checked once every timer has been run down (bounded progress). '
              'A second stratum runs the real SMTP and LMTP relays (with their connection pools) against a scripted '
              'next hop, the real HTTP relay (with its pool, connection reuse) against a scripted HTTP next hop '
              '(2xx, 3xx/4xx/5xx with and without X-Smtp-Reply, dropped and refused connections), and the real pipe '
              'relay (per-recipient or not) and its Dovecot-LDA / maildrop specialisations running a real delivery '
              'program with planned exit status / output / signal death / overrun of the shared timeout, behind the '
              'probe. Backoff tables include fractional, negative and very large waits. Held = held on the '
              'histories reported.')
LEVEL_NOTE = ('Trusted: virtual clock shim, scripted relay probe (it is the witness of what the relay reported), '
              'backend doubles (MiniRedis, MemObjectStore), quiescence detection. Liveness is restated as bounded '
              'progress: backoff tables end with None, so after all timers ran nothing may be outstanding.')
TECHNIQUE = 'runtime monitoring: conservation ledger (accepted = delivered + bounced + dropped-null-sender + outstanding-and-scheduled) over recorded relay/storage/bounce events'
RULE = ('case = one seeded history (config + PRNG seed). non-trivial = history with >= 1 non-success outcome and >= 2 '
        'attempts of one message; distinct by (backend, per-message outcome-sequence shape, pool config)')
ASSUMPTIONS = ['the relay probe\'s per-recipient report is what "reported delivered by the relay" means',
               'a bounce factory returning None is a documented way to suppress a bounce and counts as reported']
REQUIRED_HITS = ['attempt-outcomes-observed', 'histories-judged', 'recipients-ledgered', 'big-envelope-retry-attempts', 'real-relay-histories',
                 'real-relay-http-failures-consumed', 'real-relay-http-deliveries', 'unreported-recipients-ledgered']
SHARDS = {'quick': 12, 'thorough': 16}
BUDGET = {'quick': 70, 'thorough': 800}

BACKENDS = C.BACKENDS_ALL


def gen_cases(tier, seed, shard, nshards):
    rnd = random.Random('c01-%d-%d' % (seed, shard))
    plan = C.backend_plan(18000 if tier == 'quick' else 250000, BACKENDS)
    # the small deciding strata come first: a budget cut on a loaded machine must not starve them
    # per-recipient results that say nothing about some recipient (mapping without its key, sequence shorter
    # than the recipient list): such a recipient is neither delivered nor failed -- it is still outstanding
    for be in BACKENDS:
        for i in range(max(1, (plan[be] // 6) // nshards)):
            cfg = {'backend': be, 'stratum': 'unreported', 'profile': ['map', 'seq', 'map', 'seq', 'temp'],
                   'rcpt_profile': rnd.choice([['ok', 'reply', 'temp', 'perm'], ['ok', 'perm'], ['ok', 'temp']]),
                   'seq_len_p': 0.5, 'map_omit_p': 0.5,
                   'backoffs': rnd.choice([[0, None], [0, 0, 0, None], [4, 4, None]]),
                   'rcpts': (2, 4), 'nmsg': rnd.randint(1, 2), 'null_sender_p': 0.2,
                   'store_pool': rnd.choice([None, None, 2]), 'relay_pool': rnd.choice([None, None, 2]),
                   'gate_p': rnd.choice([0.0, 0.3]), 'steps': 20}
            yield {'cfg': cfg, 'seed': rnd.randrange(1 << 40)}
    # real relay kinds (SMTP / LMTP clients with their connection pool) behind the probe,
    # talking to the scripted next hop: what the Queue acts on is what the real relay reported
    nreal = (264 if tier == 'quick' else 12000) // nshards
    kinds = ['smtp', 'lmtp', 'http', 'pipe', 'http', 'pipe-one', 'smtp', 'lmtp', 'http', 'dovecot', 'maildrop']
    for i in range(max(1, nreal)):
        cfg = {'backend': rnd.choice(['dict', 'dict', 'disk', 'cloud', 'redis']),
               'real_relay': kinds[(i + shard) % len(kinds)],
               'backoffs': rnd.choice([[0, None], [0, 3, None], [2, 2, 2, None]]),
               'rcpts': (1, 4), 'nmsg': rnd.randint(1, 3), 'null_sender_p': 0.2,
               'relay_idle': rnd.choice([None, 0.5]), 'relay_pool_size': rnd.choice([None, 1, 2]),
               'pipe_slow_p': rnd.choice([0.05, 0.15, 0.3]),
               'steps': 20}
        if cfg['real_relay'] in ('pipe-one', 'maildrop'):
            cfg['rcpts'] = (1, 1)      # documented use: behind a recipient-splitting policy
        yield {'cfg': cfg, 'seed': rnd.randrange(1 << 40)}
    # ---- bulk: scripted relay, seeded histories
    for be in BACKENDS:
        for i in range(max(1, plan[be] // nshards)):
            cfg = {'backend': be,
                   'profile': rnd.choice([['ok', 'temp', 'perm', 'map', 'seq', 'exc', 'reply'],
                                          ['map', 'seq', 'temp', 'exc'], ['temp', 'temp', 'exc', 'perm'],
                                          ['map', 'map', 'seq', 'ok']]),
                   'rcpt_profile': rnd.choice([['ok', 'reply', 'temp', 'temp', 'perm'], ['temp', 'perm'],
                                               ['ok', 'temp']]),
                   'backoffs': rnd.choice([[None], [0, None], [0, 0, 0, None], [4, 4, None], [1, 3, 9, 27, None],
                                           [0, 5, 0, 5, None],
                                           # "all backoff functions": fractional, negative, huge waits
                                           [0.25, 1.0 / 3, None], [-3, -0.5, None], [1e9, 2 ** 40, None],
                                           'default']),        # Queue(backoff=None): the library's own policy
                   'rcpts': (1, 4), 'nmsg': rnd.randint(1, 3), 'null_sender_p': 0.2,
                   'store_pool': rnd.choice([None, None, None, 1, 2]),
                   'relay_pool': rnd.choice([None, None, None, 1, 2]),
                   'gate_p': rnd.choice([0.0, 0.3]), 'flush_p': rnd.choice([0, 0, 0.15]),
                   'bounce_none_p': rnd.choice([0, 0, 0.3]),
                   'pool_objects': rnd.random() < 0.25,
                   'prepop': rnd.choice([0, 0, 1]), 'steps': rnd.choice([20, 35])}
            if rnd.random() < 0.12:
                cfg['body_kb'] = rnd.choice([20, 40, 70])     # larger than one AIO chunk / socket read
            yield {'cfg': cfg, 'seed': rnd.randrange(1 << 40)}


def _hits(lab, H, R):
    if lab.cfg.get('real_relay'):
        R.hit('real-relay-histories')
        R.count('real-relay/' + lab.cfg['real_relay'])
        if lab.cfg['real_relay'] == 'http':
            # whole-message failures the real HTTP relay raised and the Queue had to act on
            R.hit('real-relay-http-failures-consumed',
                  sum(1 for e in lab.events if e[1] == 'attempt_end' and e[4] in ('temp', 'perm')))
            # (required: if the scripted next hop were unreachable every attempt would 'fail' and the stratum
            # would silently degenerate)
            R.hit('real-relay-http-deliveries', sum(1 for e in lab.events if e[1] == 'attempt_end' and e[4] == 'ok'))
    R.hit('unreported-recipients-ledgered', sum(1 for e in lab.events if e[1] == 'attempt_end'
                                                for c, _ in e[5].values() if c == 'A'))
    R.hit('recipients-ledgered', sum(len(i['rc']) for i in H.accepted.values()))
    if lab.cfg.get('body_kb'):
        # envelopes larger than one storage chunk that were read back for a later attempt
        R.hit('big-envelope-retry-attempts', sum(1 for e in lab.events if e[1] == 'attempt_start' and e[4] >= 1))
    R.count('bounces-enqueued', sum(1 for e in lab.events if e[1] == 'bounce_enqueued'))
    R.count('exhaustions', sum(1 for e in lab.events if e[1] == 'backoff' and e[4] is None))


def _nontrivial(lab, H):
    per = {}
    bad = False
    for e in lab.events:
        if e[1] == 'attempt_end':
            per[e[2]] = per.get(e[2], 0) + 1
            if any(c != 'D' for c, _ in e[5].values()):
                bad = True
    if bad and any(v >= 2 for v in per.values()):
        return C.shape_of(lab)
    return None


def _classify(lab, H, kind, m, d):
    be = lab.cfg.get('backend')
    crash = L.crash_tag(lab)
    if m is not None and C.outran_enqueue(lab, H, m):
        return 'self-announcement-outran-enqueue/%s' % be
    if C.pool_cycle_deadlock(lab):
        return 'store-pool<->relay-pool-cycle-deadlock'
    last = None
    last_status = None
    for e in lab.events:
        if e[1] == 'attempt_end' and e[2] == m:
            last = e[4]
            if d.get('recipient') in e[5]:
                last_status = e[5][d['recipient']][0]
    if kind == 'lost' and last_status == 'A':
        # the last per-recipient result that covered the recipient's attempt said nothing about it; the queue
        # did not keep it as outstanding (message removed at once, or when the deferred ones were exhausted)
        return 'lost/recipient-not-mentioned-by-per-recipient-result-not-kept-outstanding'
    sp = lab.cfg.get('store_pool') is not None
    rp = lab.cfg.get('relay_pool') is not None
    return '%s/%s/%s/last-outcome=%s/%s' % (kind, be, crash, last,
                                            'pools:%s%s' % ('S' if sp else '-', 'R' if rp else '-'))


def run_case(case, R):
    C.run_lab_case(case, R, L.judge_c01, _classify, _nontrivial, _hits)


def shard_cleanup():
    C.cleanup()
