"""C02 -- an edge acknowledges a message only after custody of every recipient is taken.

The real SmtpEdge / WsgiEdge run in front of a real slimta.queue.Queue (real policy chain, StoreProbe
around a real DictStorage that injects a fault on the k-th write) or a real ProxyQueue (scripted Relay).

Oracle = invariant at a hook.  At the very instant the edge EMITS its final answer -- the first byte of
the reply to end-of-DATA is handed to socket.sendall(), resp. start_response(status) is called -- the
harness synchronously takes a snapshot:
    produced   envelopes that left the policy chain (a recording no-op QueuePolicy at the end of the chain)
    writes     every store.write() call so far: recipients, state in {pending, parked, ok, failed:<type>}
    relay      (ProxyQueue) attempt started / finished, per-recipient outcome
Events that refute:
    2xx while a write is pending/parked or an envelope produced by the policies was not yet handed to write
    2xx although a write failed / the relay failed for some accepted recipient
    2xx although some accepted (possibly forwarded) recipient is in no successfully written envelope
    a failed write whose client gets no 4xx/5xx reply (non-QueueError exceptions may also just close)
    SMTP: sole failure is a QueueError carrying .reply, client sees another code
    slow write: any end-of-DATA reply / HTTP status emitted while the only outstanding write is still parked
The real-socket transports additionally take the same snapshot when the client RECEIVES the reply.
"""
import io
import re
import struct
import base64
import random
import collections

import gevent
from gevent.event import Event
from gevent import socket as gsocket

import slimta.edge.smtp as _edge_smtp
import slimta.edge.wsgi as _edge_wsgi
from slimta.edge.smtp import SmtpEdge
from slimta.edge.wsgi import WsgiEdge
from slimta.queue import Queue, QueueError, QueueStorage
from slimta.queue.dict import DictStorage
from slimta.queue.proxy import ProxyQueue
from slimta.policy import QueuePolicy
from slimta.policy.split import RecipientSplit, RecipientDomainSplit
from slimta.policy.forward import Forward
from slimta.policy.headers import AddDateHeader
from slimta.relay import Relay, TransientRelayError, PermanentRelayError
from slimta.smtp.reply import Reply

from vf.sock import ScriptSocket

PROPERTY = 'C02'
LEVEL = 'fault_enumeration'
LEVEL_TEXT = ('Real SmtpEdge / WsgiEdge in front of a real Queue (policy chains none, RecipientSplit, '
              'RecipientDomainSplit, Forward+RecipientSplit, AddDateHeader+RecipientSplit; store_pool None/1/2) '
              'over a fault-injecting StoreProbe(DictStorage), or in front of a real ProxyQueue with a scripted '
              'Relay. Fully enumerated: every recipient layout (1..3 recipients quick, 1..4 thorough, every '
              'set partition into <= 3 domains) x every failing write position (none, 1..n_produced, and every '
              'pair with mixed reply shapes) x every failure shape (QueueError, QueueError+451, QueueError+552, '
              'RuntimeError, write parked then ok, write parked then failing) x synchronous / yielding write x '
              'transport (SMTP on ScriptSocket, WSGI app call; thorough adds SMTP over a socketpair and WSGI '
              'through gevent.pywsgi on loopback); ProxyQueue: every relay result shape x failing recipient '
              'position x parked/not. The custody invariant is evaluated synchronously at the instant the '
              'reply is handed to sendall() / start_response(). Held = no enumerated fault was acknowledged '
              'with 2xx and no 2xx preceded custody, for these bounds; not a proof for other storages.')
LEVEL_NOTE = ('Trusted: StoreProbe (40 lines), ScriptRelay (25 lines), the recording end-of-chain policy, the '
              'rule "first sendall after the body was fed is the end-of-DATA reply" (replies are flushed per '
              'command), the start_response wrapper, and the harness-side Forward mapping (one regex).')
TECHNIQUE = ('runtime monitoring: invariant evaluated at the reply-emission hook (socket.sendall / '
             'start_response) under exhaustive storage/relay fault enumeration')
RULE = ('case = transport x queue kind x (Queue: policy chain x recipient layout (restricted-growth string '
        'over <= 3 domains) x store_pool x write yields {0, seeded 1..3} x fault map {write index -> shape}: '
        'no fault, every single (index, shape), every index pair x 4 shape pairs | ProxyQueue: n recipients x '
        'relay result {None, Reply 250, raise Transient, raise Permanent, raise RuntimeError, mapping / '
        'sequence: all ok, one 4xx at j, one 5xx at j, all failed} x relay parked or not). Enumeration is '
        'complete for these bounds; the seed only chooses message text and the number of yields. '
        'non-trivial & distinct = distinct (transport, queue kind, chain, layout, pool, yields>0, fault map) '
        'with >= 2 produced envelopes and no fault at write 1, or distinct (transport, n, result shape, j, '
        'parked) with a per-recipient relay result whose failing position j > 1')
ASSUMPTIONS = [
    'custody of an envelope == StoreProbe.write() returned an id and the wrapped real DictStorage holds that '
    'id; a write that raised, or has not returned, is not custody',
    'the envelopes "the policies produced" are those seen by a recording no-op QueuePolicy appended as last '
    'element of the chain (each final envelope passes it exactly once); without policies: the one envelope',
    'SMTP replies are flushed per command, so the first sendall() after the harness fed body + end-of-data '
    'line carries the first byte of the end-of-DATA reply (checked: preceding reply was 354)',
    'PtrLookup is replaced by an inert stand-in in slimta.edge.smtp / slimta.edge.wsgi (no resolver threads); '
    'the queue is not started and has no relay (store only), so nothing but enqueue touches the store',
    'ProxyQueue: "relayed successfully for every accepted recipient" == the attempt returned None / a Reply, '
    'or a mapping / sequence whose every value is None or a Reply',
]
REQUIRED_HITS = ['reply-emission-hook', '2xx-with-full-custody', 'failed-write-refused',
                 'queue-error-reply-code-passed-on', 'parked-write-looked-for-premature-reply',
                 'proxy-2xx-after-successful-relay', 'proxy-failed-relay-refused',
                 'fault-beyond-first-write-judged']
SHARDS = {'quick': 8, 'thorough': 16}
BUDGET = {'quick': 45, 'thorough': 600}
EXHAUSTIVE = {'quick': True, 'thorough': True}

WATCHDOG = 20.0     # generous real-time guard; firing only ever yields R.inconclusive

CHAINS = ['none', 'split', 'domsplit', 'forward+split', 'date+split', 'domsplit+split']
SHAPES = ['qerr', 'qerr451', 'qerr552', 'runtime', 'slow-ok', 'slow-fail']
PAIR_SHAPES = [('qerr451', 'qerr552'), ('qerr552', 'qerr451'), ('qerr', 'qerr552'), ('qerr552', 'runtime')]
TRANSPORTS = {'quick': ['smtp-script', 'wsgi-app'],
              'thorough': ['smtp-script', 'wsgi-app', 'smtp-socketpair', 'wsgi-server']}
NMAX = {'quick': 3, 'thorough': 4}
POOLS = [None, 1, 2]


# ---------------------------------------------------------------- workload

def layouts(nmax, maxdom=3):
    """Every restricted-growth string of length 1..nmax over <= maxdom blocks (= set partitions)."""
    out = []

    def rec(pref, used):
        if pref:
            out.append(tuple(pref))
        if len(pref) == nmax:
            return
        for d in range(min(used + 1, maxdom)):
            rec(pref + [d], max(used, d + 1))
    rec([], 0)
    return sorted(out, key=lambda t: (len(t), t))


def rcpts_of(layout):
    return ['r%d@d%d.test' % (i, d) for i, d in enumerate(layout)]


def n_produced(chain, layout):
    """Workload knowledge used only to bound the fault index k (the oracle counts with the recording policy)."""
    if chain == 'none':
        return 1
    if chain == 'domsplit':
        return len(set(layout))
    return len(layout)


def fault_maps(nprod):
    yield {}
    for k in range(1, nprod + 1):
        for shape in SHAPES:
            yield {str(k): shape}
    for k1 in range(1, nprod + 1):
        for k2 in range(k1 + 1, nprod + 1):
            for s1, s2 in PAIR_SHAPES:
                yield {str(k1): s1, str(k2): s2}


def relay_results(n):
    for whole in ('none', 'reply250', 'raiseT', 'raiseP', 'raiseRuntime'):
        yield {'form': 'whole', 'what': whole, 'fail': {}}
    for form in ('map', 'seq'):
        yield {'form': form, 'what': 'all-ok', 'fail': {}}
        for j in range(1, n + 1):
            yield {'form': form, 'what': 'one-4xx', 'fail': {str(j): '4xx'}}
            yield {'form': form, 'what': 'one-5xx', 'fail': {str(j): '5xx'}}
        yield {'form': form, 'what': 'all-failed',
               'fail': {str(j): ('4xx' if j % 2 else '5xx') for j in range(1, n + 1)}}


def all_cases(tier, seed):
    rnd = random.Random('c02-%d' % seed)
    tag = 'seed%d' % seed
    for transport in TRANSPORTS[tier]:
        for chain in CHAINS:
            for layout in layouts(NMAX[tier]):
                nprod = n_produced(chain, layout)
                for pool in POOLS:
                    for faults in fault_maps(nprod):
                        for yields in (0, rnd.randint(1, 3)):
                            yield {'transport': transport, 'queue': 'queue', 'chain': chain,
                                   'layout': list(layout), 'pool': pool, 'faults': faults,
                                   'yields': yields, 'tag': tag}
        for n in range(1, NMAX[tier] + 1):
            for res in relay_results(n):
                for parked in (False, True):
                    yield {'transport': transport, 'queue': 'proxy', 'n': n, 'relay': res,
                           'parked': parked, 'tag': tag}


def gen_cases(tier, seed, shard, nshards):
    for i, case in enumerate(all_cases(tier, seed)):
        if i % nshards == shard:
            yield case


# ---------------------------------------------------------------- probes (trusted base)

class FakePtr(object):
    def __init__(self, ip):
        pass

    def start(self):
        pass

    def finish(self, runtime=None):
        return None

    def kill(self, block=True):
        pass


_edge_smtp.PtrLookup = FakePtr
_edge_wsgi.PtrLookup = FakePtr


def _quiet_hub():
    hub = gevent.get_hub()
    hub.print_exception = lambda *a, **k: None     # injected faults die inside spawned write greenlets


class TapPolicy(QueuePolicy):
    """Last element of the chain: records every envelope that leaves the chain, changes nothing."""

    def __init__(self):
        self.seen = []

    def apply(self, envelope):
        self.seen.append(list(envelope.recipients))


def make_fault(shape):
    if shape == 'runtime':
        return RuntimeError('injected: storage backend blew up')
    e = QueueError('injected: write failed')
    if shape == 'qerr451':
        e.reply = Reply('451', '4.3.1 injected: mail system full')
    elif shape == 'qerr552':
        e.reply = Reply('552', '5.3.4 injected: message too big for system')
    return e


class StoreProbe(QueueStorage):
    """Real DictStorage behind a write() that yields, fails or parks on the k-th call and records it."""

    def __init__(self, faults, yields):
        super(StoreProbe, self).__init__()
        self.inner = DictStorage()
        self.faults = faults
        self.yields = yields
        self.writes = []
        self.parked = Event()
        self.release = Event()

    def write(self, envelope, timestamp):
        idx = len(self.writes) + 1
        rec = {'i': idx, 'rcpts': list(envelope.recipients), 'state': 'pending', 'id': None}
        self.writes.append(rec)
        try:
            for _ in range(self.yields):
                gevent.sleep(0)
            shape = self.faults.get(str(idx))
            if shape in ('slow-ok', 'slow-fail'):
                rec['state'] = 'parked'
                self.parked.set()
                self.release.wait()
                rec['state'] = 'pending'
                if shape == 'slow-fail':
                    raise make_fault('qerr')
            elif shape:
                raise make_fault(shape)
            id = self.inner.write(envelope, timestamp)
            rec['id'] = id
            rec['state'] = 'ok'
            return id
        except BaseException as exc:
            rec['state'] = 'failed:' + type(exc).__name__
            raise

    def get(self, id):
        return self.inner.get(id)

    def load(self):
        return self.inner.load()

    def remove(self, id):
        return self.inner.remove(id)

    def set_timestamp(self, id, timestamp):
        return self.inner.set_timestamp(id, timestamp)

    def increment_attempts(self, id):
        return self.inner.increment_attempts(id)

    def set_recipients_delivered(self, id, rcpt_indexes):
        return self.inner.set_recipients_delivered(id, rcpt_indexes)


class ScriptRelay(Relay):

    def __init__(self, spec, parked):
        super(ScriptRelay, self).__init__()
        self.spec = spec
        self.do_park = parked
        self.parked = Event()
        self.release = Event()
        self.started = 0
        self.finished = 0
        self.rcpts = []
        self.outcome = {}          # recipient -> True (relayed) / False (failed)

    def attempt(self, envelope, attempts):
        self.started += 1
        rc = list(envelope.recipients)
        self.rcpts.extend(rc)
        if self.do_park:
            self.parked.set()
            self.release.wait()
        form, what, fail = self.spec['form'], self.spec['what'], self.spec['fail']
        if form == 'whole':
            ok = what in ('none', 'reply250')
            for r in rc:
                self.outcome[r] = ok
            self.finished += 1
            if what == 'none':
                return None
            if what == 'reply250':
                return Reply('250', '2.0.0 relayed')
            if what == 'raiseT':
                raise TransientRelayError('injected: next hop busy')
            if what == 'raiseP':
                raise PermanentRelayError('injected: next hop refuses')
            raise RuntimeError('injected: relay blew up')
        vals = []
        for j, r in enumerate(rc, 1):
            f = fail.get(str(j))
            if f == '4xx':
                vals.append(TransientRelayError('injected: mailbox busy',
                                                Reply('450', '4.2.1 injected: mailbox busy')))
            elif f == '5xx':
                vals.append(PermanentRelayError('injected: no such user',
                                                Reply('550', '5.1.1 injected: no such user')))
            else:
                vals.append(None if j % 2 else Reply('250', '2.1.5 ok'))
            self.outcome[r] = f is None
        self.finished += 1
        if form == 'map':
            return dict(zip(rc, vals))
        return vals


# ---------------------------------------------------------------- one laboratory per case

FWD_PATTERN, FWD_REPL = r'@d0\.test$', '@moved.test'


class Lab(object):

    def __init__(self, case):
        self.case = case
        self.kind = case['queue']
        self.tap = None
        if self.kind == 'queue':
            self.rcpts = rcpts_of(case['layout'])
            self.store = StoreProbe(case['faults'], case['yields'])
            self.queue = Queue(self.store, relay=None, store_pool=case['pool'])
            chain = case['chain']
            if chain == 'split':
                self.queue.add_policy(RecipientSplit())
            elif chain == 'domsplit':
                self.queue.add_policy(RecipientDomainSplit())
            elif chain == 'forward+split':
                fw = Forward()
                fw.add_mapping(FWD_PATTERN, FWD_REPL)
                self.queue.add_policy(fw)
                self.queue.add_policy(RecipientSplit())
            elif chain == 'date+split':
                self.queue.add_policy(AddDateHeader())
                self.queue.add_policy(RecipientSplit())
            elif chain == 'domsplit+split':
                # two splitting policies: outputs of the first are split again (re-entrant
                # replacement in Queue._run_policies)
                self.queue.add_policy(RecipientDomainSplit())
                self.queue.add_policy(RecipientSplit())
            if chain != 'none':
                self.tap = TapPolicy()
                self.queue.add_policy(self.tap)
            self.slow = any(s.startswith('slow') for s in case['faults'].values())
            self.parked, self.release = self.store.parked, self.store.release
        else:
            self.rcpts = ['p%d@x%d.test' % (i, i) for i in range(case['n'])]
            self.relay = ScriptRelay(case['relay'], case['parked'])
            self.queue = ProxyQueue(self.relay)
            self.slow = case['parked']
            self.parked, self.release = self.relay.parked, self.relay.release
        self.sender = 'sender@origin.test'
        self.body = ('Subject: c02 %s\r\nFrom: sender@origin.test\r\n\r\ncustody probe\r\n' % case['tag']).encode()
        self.accepted = list(self.rcpts)       # narrowed by the SMTP transports to RCPTs answered 250
        self.snaps = []                        # snapshots: emission first, reception (real sockets) after

    def expected_final_rcpts(self):
        if self.kind == 'queue' and self.case['chain'] == 'forward+split':
            return [re.sub(FWD_PATTERN, FWD_REPL, r) for r in self.accepted]
        return list(self.accepted)

    def snapshot(self, code, where):
        s = {'where': where, 'code': code}
        if self.kind == 'queue':
            s['produced'] = (len(self.tap.seen) if self.tap is not None else 1)
            s['produced_rcpts'] = [list(x) for x in self.tap.seen] if self.tap is not None else None
            s['writes'] = []
            for w in self.store.writes:
                w = dict(w)
                if w['state'] == 'ok':
                    try:
                        env, _ = self.store.inner.get(w['id'])
                        w['stored_rcpts'] = list(env.recipients)
                    except KeyError:
                        w['state'] = 'ok-but-not-in-storage'
                s['writes'].append(w)
        else:
            s['relay'] = {'started': self.relay.started, 'finished': self.relay.finished,
                          'rcpts': list(self.relay.rcpts), 'outcome': dict(self.relay.outcome)}
        self.snaps.append(s)
        return s


def is2xx(code):
    return code is not None and code[:1] == '2'


def judge(lab, snap, edgekind, out):
    """Apply the custody invariant to one snapshot; append (mechanism, what) pairs / hit names to out."""
    code = snap['code']
    ok2 = is2xx(code)
    if lab.kind == 'queue':
        faults = lab.case['faults']
        writes = snap['writes']
        pending = [w for w in writes if w['state'] in ('pending', 'parked')]
        failed = [w for w in writes if w['state'].startswith('failed') or w['state'] == 'ok-but-not-in-storage']
        okw = [w for w in writes if w['state'] == 'ok']
        not_handed = max(snap['produced'], 1) - len(writes)
        if ok2:
            need = collections.Counter(lab.expected_final_rcpts())
            have = collections.Counter(r for w in okw for r in w['stored_rcpts'])
            missing = sorted((need - have).elements())
            if pending or not_handed > 0:
                out['viol'].append(('early-2xx-before-write-completed/' + edgekind,
                                    '%s emitted at %s while %d write(s) pending/parked and %d produced envelope(s) '
                                    'not yet handed to write' % (code, snap['where'], len(pending),
                                                                 max(not_handed, 0))))
            elif failed:
                only_qerr = all(w['state'] == 'failed:QueueError' for w in failed)
                if writes and writes[0]['state'] == 'ok' and only_qerr:
                    mech = edgekind + '/reply-from-first-result-only'
                else:
                    mech = 'unclassified/%s/2xx-although-write-failed' % edgekind
                out['viol'].append((mech, '%s emitted although write(s) %s of %d failed (%s); recipients %s '
                                    'are in no stored envelope'
                                    % (code, [w['i'] for w in failed], len(writes),
                                       ','.join(sorted(set(w['state'] for w in failed))),
                                       missing)))
            elif missing:
                out['viol'].append(('unclassified/%s/accepted-recipient-in-no-written-envelope' % edgekind,
                                    '%s emitted, all %d writes ok, but accepted recipients %s are in no stored '
                                    'envelope' % (code, len(writes), missing)))
            else:
                out['hits'].append('2xx-with-full-custody')
        else:
            if not faults:
                out['inconc'].append('no-fault case was not acknowledged (code %r)' % (code,))
            elif failed:
                out['hits'].append('failed-write-refused')
                if min(w['i'] for w in failed) > 1:
                    out['hits'].append('fault-beyond-first-write-judged')
                any_runtime = any(w['state'] != 'failed:QueueError' for w in failed)
                if code is None and not any_runtime:
                    out['viol'].append(('unclassified/%s/no-reply-after-failed-write' % edgekind,
                                        'write(s) %s failed with QueueError but the client got no reply at all'
                                        % [w['i'] for w in failed]))
                shapes = [faults.get(str(w['i'])) for w in failed]
                if (edgekind == 'smtp-edge' and len(faults) == 1 and len(failed) == 1
                        and shapes[0] in ('qerr451', 'qerr552') and snap['where'] == 'emission'):
                    want = shapes[0][-3:]
                    if code == want:
                        out['hits'].append('queue-error-reply-code-passed-on')
                    else:
                        out['viol'].append(('unclassified/smtp-edge/queue-error-reply-code-not-passed-on',
                                            'sole failure carried reply %s, client saw %s' % (want, code)))
        if ok2 and any(int(k) > 1 for k in faults) and '1' not in faults:
            out['hits'].append('fault-beyond-first-write-judged')
    else:
        rl = snap['relay']
        spec = lab.case['relay']
        bad = sorted(r for r in lab.accepted if rl['outcome'].get(r) is not True)
        if ok2:
            if rl['finished'] < 1:
                out['viol'].append(('early-2xx-before-relay-finished/' + edgekind,
                                    '%s emitted at %s while the relay attempt had %s'
                                    % (code, snap['where'], 'not finished' if rl['started'] else 'not started')))
            elif bad:
                if spec['form'] in ('map', 'seq'):
                    mech = 'proxy-queue/per-recipient-failure-reported-as-success'
                else:
                    mech = 'unclassified/proxy-queue/2xx-although-relay-raised'
                out['viol'].append((mech, '%s emitted although the relay (%s %s) failed for %s'
                                    % (code, spec['form'], spec['what'], bad)))
            else:
                out['hits'].append('proxy-2xx-after-successful-relay')
        else:
            if rl['finished'] and not bad:
                out['inconc'].append('successful relay was not acknowledged (code %r)' % (code,))
            elif bad:
                out['hits'].append('proxy-failed-relay-refused')
                if code is None and spec['what'] != 'raiseRuntime':
                    out['viol'].append(('unclassified/%s/no-reply-after-failed-relay' % edgekind,
                                        'relay failed for %s but the client got no reply at all' % bad))


def look_while_parked(lab, emitted, edgekind, out, extra_probe=None):
    """The slow write / relay is parked: give the edge every chance to answer early, then look."""
    got = lab.parked.wait(timeout=WATCHDOG)
    if not got:
        out['inconc'].append('watchdog: the slow write/relay was never reached')
        return
    gevent.idle()
    for _ in range(6):
        gevent.sleep(0)
    gevent.idle()
    early = emitted()
    if early is None and extra_probe is not None:
        early = extra_probe()
    out['hits'].append('parked-write-looked-for-premature-reply')
    if early is not None and not is2xx(early):
        # a premature 2xx has already been judged by the emission hook (pending > 0)
        out['viol'].append(('unclassified/%s/non-2xx-reply-while-sole-write-parked' % edgekind,
                            'reply %s emitted while the only outstanding write/relay was still parked' % early))


# ---------------------------------------------------------------- transports

ADDR = ('127.0.0.1', 4321)


def smtp_units(lab):
    u = [('ehlo', b'EHLO client.test\r\n'), ('mail', ('MAIL FROM:<%s>\r\n' % lab.sender).encode())]
    for r in lab.rcpts:
        u.append(('rcpt', ('RCPT TO:<%s>\r\n' % r).encode()))
    u.append(('data', b'DATA\r\n'))
    u.append(('body', lab.body + b'.\r\n'))
    u.append(('quit', b'QUIT\r\n'))
    return u


def run_smtp_script(lab, out):
    units = smtp_units(lab)
    st = {'i': 0, 'body_fed': False, 'eod': None, 'marks': [], 'setup_bad': None}

    def last_reply(ss):
        return ss.sent[-1] if ss.sent else b''

    def on_recv(ss):
        if ss.segments or st['i'] >= len(units):
            return
        kind, data = units[st['i']]
        st['marks'].append((kind, len(ss.sent)))
        if kind == 'body':
            if not last_reply(ss).startswith(b'354'):
                st['setup_bad'] = 'DATA not answered 354: %r' % last_reply(ss)[:40]
                st['i'] = len(units)
                return
            st['body_fed'] = True
        st['i'] += 1
        ss.feed(data)

    def on_send(ss, data):
        if st['body_fed'] and st['eod'] is None:
            st['eod'] = data[:3].decode('latin-1')
            judge(lab, lab.snapshot(st['eod'], 'emission'), 'smtp-edge', out)
            out['hits'].append('reply-emission-hook')

    sock = ScriptSocket([], eof=True, on_recv=on_recv, on_send=on_send, peer=ADDR)
    edge = SmtpEdge(None, lab.queue, hostname='edge.test')
    g = gevent.spawn(edge.handle, sock, ADDR)
    if lab.slow:
        look_while_parked(lab, lambda: st['eod'], 'smtp-edge', out)
        lab.release.set()
    if not g.join(timeout=WATCHDOG) and not g.dead:
        g.kill(block=False)
        out['inconc'].append('watchdog: SMTP session did not end')
        return
    out['end'] = type(g.exception).__name__ if g.exception is not None else 'returned'
    out['wire'] = b''.join(sock.sent)
    if st['setup_bad']:
        out['inconc'].append(st['setup_bad'])
        return
    # accepted recipients = RCPT units answered 250 (reply = what was sent between this feed and the next)
    acc, j = [], 0
    replies = []
    for idx in range(len(st['marks'])):
        a = st['marks'][idx][1]
        b = st['marks'][idx + 1][1] if idx + 1 < len(st['marks']) else len(sock.sent)
        replies.append((st['marks'][idx][0], b''.join(sock.sent[a:b])))
    for kind, rep in replies:
        if kind == 'rcpt':
            if rep.startswith(b'250'):
                acc.append(lab.rcpts[j])
            j += 1
        elif kind == 'mail' and not rep.startswith(b'250'):
            out['inconc'].append('MAIL refused: %r' % rep[:40])
    if acc != lab.rcpts:
        out['inconc'].append('not every RCPT was accepted: %r' % acc)
    if st['eod'] is None:
        # the connection ended without any end-of-DATA reply
        judge(lab, lab.snapshot(None, 'session-end-without-reply'), 'smtp-edge', out)


class TapSocket(object):
    """A real gevent socket whose sendall()/send() tell the harness first."""

    def __init__(self, sock, on_send):
        self._s = sock
        self._on_send = on_send

    def sendall(self, data, *flags):
        self._on_send(bytes(data))
        return self._s.sendall(data, *flags)

    def send(self, data, *flags):
        self._on_send(bytes(data))
        return self._s.send(data, *flags)

    def __getattr__(self, name):
        return getattr(self._s, name)


class SmtpClient(object):

    def __init__(self, sock):
        self.s = sock
        self.buf = b''

    def reply(self):
        lines = []
        while True:
            while b'\n' not in self.buf:
                d = self.s.recv(4096)
                if not d:
                    return None
                self.buf += d
            ln, self.buf = self.buf.split(b'\n', 1)
            lines.append(ln)
            if ln[3:4] != b'-':
                return b'\n'.join(lines)

    def readable_now(self):
        self.s.settimeout(0.0)
        try:
            d = self.s.recv(4096)
            self.buf += d
            return d[:3].decode('latin-1') if d else None
        except (BlockingIOError, gsocket.timeout, OSError):
            return None
        finally:
            self.s.settimeout(None)


def run_smtp_socketpair(lab, out):
    a, b = gsocket.socketpair()
    st = {'body_sent': False, 'eod': None}

    def on_send(data):
        if st['body_sent'] and st['eod'] is None:
            st['eod'] = data[:3].decode('latin-1')
            judge(lab, lab.snapshot(st['eod'], 'emission'), 'smtp-edge', out)
            out['hits'].append('reply-emission-hook')

    edge = SmtpEdge(None, lab.queue, hostname='edge.test')
    g = gevent.spawn(edge.handle, TapSocket(a, on_send), ADDR)
    cl = SmtpClient(b)
    wd = gevent.Timeout(WATCHDOG)
    wd.start()
    try:
        rep = cl.reply()
        if rep is None or not rep.startswith(b'220'):
            out['inconc'].append('no banner: %r' % (rep,))
            return
        got = None
        for kind, data in smtp_units(lab):
            if kind == 'body':
                st['body_sent'] = True
            try:
                b.sendall(data)
            except OSError:
                if kind != 'quit':          # after a 421 the server has gone; QUIT then hits a closed pipe
                    out['inconc'].append('connection gone before %s could be sent' % kind)
                break
            if kind == 'body' and lab.slow:
                look_while_parked(lab, lambda: st['eod'], 'smtp-edge', out, extra_probe=cl.readable_now)
                lab.release.set()
            rep = cl.reply()
            if kind == 'body':
                got = rep[:3].decode('latin-1') if rep else None
                snap = lab.snapshot(got, 'reception')
                out['hits'].append('reply-reception-snapshot')
                if st['eod'] is None or got != st['eod']:
                    judge(lab, snap, 'smtp-edge', out)
                else:
                    sub = {'viol': [], 'hits': [], 'inconc': []}
                    judge(lab, snap, 'smtp-edge', sub)
                    out['viol'].extend(sub['viol'])
                if rep is None:
                    break
            elif rep is None:
                out['inconc'].append('connection closed after %s' % kind)
                break
            elif kind in ('mail', 'rcpt') and not rep.startswith(b'250'):
                out['inconc'].append('%s refused: %r' % (kind, rep[:40]))
                break
            elif kind == 'data' and not rep.startswith(b'354'):
                out['inconc'].append('DATA not answered 354: %r' % rep[:40])
                break
        g.join()
        out['end'] = type(g.exception).__name__ if g.exception is not None else 'returned'
    except gevent.Timeout as t:
        if t is not wd:
            raise
        out['inconc'].append('watchdog: SMTP socketpair session stalled')
        lab.release.set()
        g.kill(block=False)
    finally:
        wd.close()
        for s in (a, b):
            try:
                s.close()
            except Exception:
                pass


def wsgi_environ(lab):
    b64 = lambda s: base64.b64encode(s.encode()).decode()      # noqa: E731
    return {'REQUEST_METHOD': 'POST', 'PATH_INFO': '/', 'CONTENT_TYPE': 'message/rfc822',
            'CONTENT_LENGTH': str(len(lab.body)), 'wsgi.input': io.BytesIO(lab.body),
            'wsgi.url_scheme': 'http', 'REMOTE_ADDR': '127.0.0.1', 'HTTP_X_EHLO': 'client.test',
            'HTTP_X_ENVELOPE_SENDER': b64(lab.sender),
            'HTTP_X_ENVELOPE_RECIPIENT': ', '.join(b64(r) for r in lab.rcpts)}


def run_wsgi_app(lab, out):
    st = {'status': None, 'headers': None}

    def start_response(status, headers, exc_info=None):
        if st['status'] is None:
            st['status'] = status[:3]
            st['headers'] = list(headers)
            judge(lab, lab.snapshot(st['status'], 'emission'), 'wsgi-edge', out)
            out['hits'].append('reply-emission-hook')

    edge = WsgiEdge(lab.queue, hostname='edge.test')
    g = gevent.spawn(edge, wsgi_environ(lab), start_response)
    if lab.slow:
        look_while_parked(lab, lambda: st['status'], 'wsgi-edge', out)
        lab.release.set()
    if not g.join(timeout=WATCHDOG) and not g.dead:
        g.kill(block=False)
        out['inconc'].append('watchdog: WSGI call did not return')
        return
    out['end'] = type(g.exception).__name__ if g.exception is not None else 'returned'
    out['wire'] = repr((st['status'], st['headers']))
    if st['status'] is None:
        judge(lab, lab.snapshot(None, 'call-ended-without-response'), 'wsgi-edge', out)


class _NullLog(object):
    def write(self, *a):
        pass

    def flush(self):
        pass


class TapWsgiEdge(WsgiEdge):
    """WsgiEdge whose start_response is observed by the harness at call time."""
    tap = None

    def __call__(self, environ, start_response):
        tap = self.tap

        def tapped(status, headers, *a, **k):
            tap(status, headers)
            return start_response(status, headers, *a, **k)
        return super(TapWsgiEdge, self).__call__(environ, tapped)


_SRV = {}


def wsgi_server():
    """One real gevent.pywsgi server per worker process, built by WsgiEdge.build_server(); the queue and the
    start_response tap of its application object are swapped per case.  (One listener and RST-closing client
    sockets: tens of thousands of cases must not exhaust the ephemeral ports with TIME_WAIT entries.)"""
    if 'srv' not in _SRV:
        edge = TapWsgiEdge(None, hostname='edge.test')
        srv = edge.build_server(('127.0.0.1', 0))
        srv.log = _NullLog()
        srv.error_log = _NullLog()
        srv.start()
        _SRV['edge'], _SRV['srv'] = edge, srv
    return _SRV['edge'], _SRV['srv']


def shard_cleanup():
    srv = _SRV.pop('srv', None)
    _SRV.clear()
    if srv is not None:
        srv.stop(timeout=1)


def run_wsgi_server(lab, out):
    st = {'status': None}

    def tap(status, headers):
        if st['status'] is None:
            st['status'] = status[:3]
            judge(lab, lab.snapshot(st['status'], 'emission'), 'wsgi-edge', out)
            out['hits'].append('reply-emission-hook')

    edge, srv = wsgi_server()
    edge.queue = lab.queue
    edge.tap = tap
    wd = gevent.Timeout(WATCHDOG)
    wd.start()
    c = None
    try:
        c = gsocket.create_connection(('127.0.0.1', srv.server_port))
        c.setsockopt(gsocket.SOL_SOCKET, gsocket.SO_LINGER, struct.pack('ii', 1, 0))   # close() sends RST
        env = wsgi_environ(lab)
        req = ('POST / HTTP/1.1\r\nHost: edge.test\r\nConnection: close\r\nContent-Type: message/rfc822\r\n'
               'X-Ehlo: client.test\r\nX-Envelope-Sender: %s\r\nX-Envelope-Recipient: %s\r\n'
               'Content-Length: %d\r\n\r\n' % (env['HTTP_X_ENVELOPE_SENDER'], env['HTTP_X_ENVELOPE_RECIPIENT'],
                                               len(lab.body))).encode() + lab.body
        c.sendall(req)
        cl = SmtpClient(c)
        if lab.slow:
            def probe():
                d = cl.readable_now()
                return None if d is None else 'HTTP-bytes'
            look_while_parked(lab, lambda: st['status'], 'wsgi-edge', out, extra_probe=probe)
            lab.release.set()
        while b'\r\n' not in cl.buf:
            d = c.recv(4096)
            if not d:
                break
            cl.buf += d
        m = re.match(br'HTTP/1\.[01] (\d{3})', cl.buf)
        got = m.group(1).decode() if m else None
        snap = lab.snapshot(got, 'reception')
        out['hits'].append('reply-reception-snapshot')
        out['wire'] = cl.buf[:200]
        sub = {'viol': [], 'hits': [], 'inconc': []}
        judge(lab, snap, 'wsgi-edge', sub)
        if st['status'] is None or got != st['status']:
            for kx in sub:
                out[kx].extend(sub[kx])
        else:
            out['viol'].extend(sub['viol'])
        while True:
            d = c.recv(4096)
            if not d:
                break
        out['end'] = 'returned'
    except gevent.Timeout as t:
        if t is not wd:
            raise
        out['inconc'].append('watchdog: HTTP exchange stalled')
        lab.release.set()
    finally:
        wd.close()
        if c is not None:
            c.close()


RUNNERS = {'smtp-script': run_smtp_script, 'smtp-socketpair': run_smtp_socketpair,
           'wsgi-app': run_wsgi_app, 'wsgi-server': run_wsgi_server}


# ---------------------------------------------------------------- the check

def run_case(case, R):
    _quiet_hub()
    lab = Lab(case)
    out = {'viol': [], 'hits': [], 'inconc': [], 'end': None, 'wire': None}
    R.eval()
    RUNNERS[case['transport']](lab, out)

    for h in out['hits']:
        R.hit(h)
    for reason in out['inconc']:
        R.inconclusive(reason)
    R.count('cases/' + case['transport'] + '/' + case['queue'])
    R.observe('session-end', (case['transport'], out['end']))
    emitted = lab.snaps[0]['code'] if lab.snaps else None
    R.observe('final-reply-code', (case['transport'], emitted))

    if case['queue'] == 'queue':
        faults = case['faults']
        nprod = lab.snaps[0]['produced'] if lab.snaps else 0
        R.observe('chain-x-layout-x-produced', (case['chain'], tuple(case['layout']), nprod))
        R.observe('fault-map', tuple(sorted(faults.items())))
        if faults and nprod >= 2 and '1' not in faults:
            R.nontrivial((case['transport'], 'queue', case['chain'], tuple(case['layout']), case['pool'],
                          case['yields'] > 0, tuple(sorted(faults.items()))))
        fired = set(str(w['i']) for w in lab.store.writes)
        if any(k not in fired for k in faults) and emitted is not None and is2xx(emitted) and not out['viol']:
            R.inconclusive('fault index beyond the writes that happened')
        if len(lab.snaps) and case['chain'] != 'none' and nprod != n_produced(case['chain'], case['layout']) \
                and not out['viol']:
            R.inconclusive('policy chain produced %d envelopes, workload expected %d'
                           % (nprod, n_produced(case['chain'], case['layout'])))
    else:
        spec = case['relay']
        R.observe('relay-result', (case['n'], spec['form'], spec['what'], tuple(sorted(spec['fail'].items())),
                                   case['parked']))
        if spec['form'] in ('map', 'seq') and spec['fail'] and '1' not in spec['fail']:
            R.nontrivial((case['transport'], 'proxy', case['n'], spec['form'], spec['what'],
                          tuple(sorted(spec['fail'].items())), case['parked']))

    seen = set()
    for mech, what in out['viol']:
        if mech in seen:
            continue
        seen.add(mech)
        R.count('violations/%s/%s' % (case['transport'], mech))
        R.violation(mech, '[%s] %s' % (case['transport'], what),
                    {'snapshots': lab.snaps, 'accepted': lab.accepted,
                     'expected_final_recipients': lab.expected_final_rcpts(),
                     'session_end': out['end'], 'wire': out['wire']})
    if not out['viol'] and lab.snaps and len(R.samples) < R.MAX_SAMPLES and \
            (case['queue'] == 'proxy' or (case['faults'] and '1' not in case['faults'])):
        R.sample({'case': case, 'snapshots': lab.snaps, 'wire': out['wire']})
