"""C02 -- an edge acknowledges a message only after custody of every recipient is taken.

The real SmtpEdge / WsgiEdge run in front of a real slimta.queue.Queue (real policy chain, StoreProbe
around a real DictStorage that injects a fault on the k-th write) or a real ProxyQueue (scripted Relay).

Oracle = invariant at a hook.  At the very instant the edge EMITS its final answer -- the first byte of
the reply to end-of-DATA is handed to socket.sendall(), resp. start_response(status) is called -- the
harness synchronously takes a snapshot:
    produced   envelopes that left the policy chain (a recording no-op QueuePolicy at the end of the chain)
    writes     every store.write() call so far: recipients, state in {pending, parked, ok, failed:<type>}
    relay      (ProxyQueue) attempt started / finished, per-recipient outcome
Events that refute:
    2xx while a write is pending/parked or an envelope produced by the policies was not yet handed to write
    2xx although a write failed / the relay failed for some accepted recipient
    2xx although some accepted (possibly forwarded) recipient is in no successfully written envelope
    a failed write whose client gets no 4xx/5xx reply (non-QueueError exceptions may also just close)
    SMTP: sole failure is a QueueError carrying .reply, client sees another code
    slow write: any end-of-DATA reply / HTTP status emitted while the only outstanding write is still parked
    a final answer that is neither 2xx nor 4xx/5xx
Mechanisms carry the stratum (@later-message, @validator-class, @queue-with-relay) when the witness is not a
plain single message on a receive-only queue.
The real-socket transports additionally take the same snapshot when the client RECEIVES the reply.

Audit extensions (strata on top of the enumeration above):
    sessions   two messages per SMTP session / two HTTP requests per connection, each judged on its own writes;
               SMTP fed stepwise, RFC 2920 style (commands pipelined), with the next transaction glued behind
               the end-of-data line, or as one single segment; HTTP keep-alive and HTTP pipelining.  The
               end-of-DATA reply is found by counting replies on the wire (ReplyTracker), not by feed timing.
    rejected   a validator refuses one RCPT: custody is owed to the accepted recipients only
    shapes     write dies with gevent.Timeout / GreenletExit (BaseException, not Exception), QueueError + 421,
               a SlimtaError of another family than QueueError (ConnectionLost)
    policies   a queue policy raises (before the split, or on the k-th envelope after it)
    relay      the Queue has a relay (attempts are spawned from enqueue), bounded or unbounded relay pool
    proxy      relay policies that raise, gevent.Timeout, non-dict Mapping / tuple results, every failing subset
    rcpt-2xx   a validator answers RCPT with 251 / 252 / a multi-line 250 / 250 with other text, alone and mixed
               with plain 250: every recipient answered 2xx at RCPT is an accepted recipient
    near-dup   recipients differing only in the case of the local part / of the domain, exact duplicates (RCPT
               repeated: the unchanged tree keeps both copies), trailing dot, plus-tag -- custody is owed to
               every accepted RCPT, as often as it was accepted (multiset comparison); both edges
    wire       the real-socket transports run in the quick tier too; a failure must be answered 4xx/5xx
"""
import io
import re
import json
import itertools
import struct
import base64
import random
import collections
import collections.abc

import gevent
from gevent.event import Event
from gevent import socket as gsocket

import slimta.edge.smtp as _edge_smtp
import slimta.edge.wsgi as _edge_wsgi
from slimta.edge.smtp import SmtpEdge, SmtpValidators
from slimta.edge.wsgi import WsgiEdge
from slimta.queue import Queue, QueueError, QueueStorage
from slimta.queue.dict import DictStorage
from slimta.queue.proxy import ProxyQueue
from slimta.policy import QueuePolicy, RelayPolicy
from slimta.policy.split import RecipientSplit, RecipientDomainSplit
from slimta.policy.forward import Forward
from slimta.policy.headers import AddDateHeader
from slimta.relay import Relay, TransientRelayError, PermanentRelayError
from slimta.smtp.reply import Reply

from vf.sock import ScriptSocket

PROPERTY = 'C02'
LEVEL = 'fault_enumeration'
LEVEL_TEXT = ('Real SmtpEdge / WsgiEdge in front of a real Queue (policy chains none, RecipientSplit, '
              'RecipientDomainSplit, Forward+RecipientSplit, AddDateHeader+RecipientSplit, domain split + '
              'recipient split; store_pool None/1/2; with and without a relay / bounded relay pool) '
              'over a fault-injecting StoreProbe(DictStorage), or in front of a real ProxyQueue with a scripted '
              'Relay. Fully enumerated: every recipient layout (1..3 recipients quick, 1..4 thorough, every '
              'set partition into <= 3 domains) x every failing write position (none, 1..n_produced, and every '
              'pair with mixed reply shapes) x every failure shape (QueueError, QueueError+451/552/421, '
              'RuntimeError, a library exception that is not a QueueError (ConnectionLost), gevent.Timeout, GreenletExit, write parked then ok, write parked then failing) x '
              'synchronous / yielding write x transport (SMTP on ScriptSocket, SMTP over a socketpair, WSGI app '
              'call, WSGI through gevent.pywsgi on loopback -- all four in both tiers); a queue policy raising '
              'before the split or on the k-th envelope after it; ProxyQueue: every relay result shape (None, '
              'Reply, raise Transient/Permanent/RuntimeError/Timeout, relay policy raising, dict / non-dict '
              'Mapping / list / tuple with every non-empty failing subset) x parked/not. Two-message sessions '
              '(SMTP stepwise / commands pipelined / next transaction glued behind end-of-data / whole session '
              'in one segment; HTTP keep-alive / pipelined requests; optional validator-rejected RCPT): first '
              'message from 6 outcomes, second message over the full fault enumeration. The custody invariant '
              'is evaluated synchronously at the instant the reply is handed to sendall() / start_response(). '
              'Held = no enumerated fault was acknowledged with 2xx, every failure was answered 4xx/5xx (or the '
              'connection closed for non-QueueError exceptions) and no 2xx preceded custody, for these bounds; '
              'not a proof for other storages.')
LEVEL_NOTE = ('Trusted: StoreProbe (45 lines), ScriptRelay (40 lines), the recording end-of-chain policy, the '
              'raising policy, ReplyTracker (SMTP reply framing on the wire: reply k of the session answers '
              'command k, checked through the 354 before each end-of-DATA reply), the rule "first sendall after '
              'the body was fed is the end-of-DATA reply" for single-message stepwise cases, the start_response '
              'wrapper, and the harness-side Forward mapping (one regex).')
TECHNIQUE = ('runtime monitoring: invariant evaluated at the reply-emission hook (socket.sendall / '
             'start_response) under exhaustive storage/relay fault enumeration')
RULE = ('case = transport x queue kind x (Queue: policy chain x recipient layout (restricted-growth string '
        'over <= 3 domains) x store_pool x write yields {0, seeded 1..3} x fault map {write index -> shape}: '
        'no fault, every single (index, shape), every index pair x 4 shape pairs; plus relay present x relay '
        'pool; plus raising policy position | ProxyQueue: n recipients x relay result {None, Reply 250, raise '
        'Transient / Permanent / RuntimeError / Timeout, relay policy raising, dict / Mapping / list / tuple: '
        'all ok, every non-empty failing subset} x relay parked or not | session: feed mode x first message '
        '(6 outcomes) x second message (layout x fault map, or relay result) x rejected RCPT position). '
        'Enumeration is complete for these bounds; the seed only chooses message text and the number of yields. '
        'non-trivial & distinct = distinct (transport, queue kind, chain, layout, pool, yields>0, fault map, '
        'relay mode) with >= 2 produced envelopes and no fault at write 1, or distinct (transport, n, result '
        'shape, failing set, parked) with a per-recipient relay result whose first failing position j > 1, or '
        'a session whose second message is non-trivial by the same rule')
ASSUMPTIONS = [
    'custody of an envelope == StoreProbe.write() returned an id and the wrapped real DictStorage holds that '
    'id; a write that raised, or has not returned, is not custody',
    'the envelopes "the policies produced" are those seen by a recording no-op QueuePolicy appended as last '
    'element of the chain (each final envelope passes it exactly once); without policies: the one envelope',
    'SMTP replies are flushed per command, so the first sendall() after the harness fed body + end-of-data '
    'line carries the first byte of the end-of-DATA reply (checked: preceding reply was 354); in sessions the '
    'k-th reply on the wire answers the k-th command (checked: the reply before each end-of-DATA reply is 354)',
    'PtrLookup is replaced by an inert stand-in in slimta.edge.smtp / slimta.edge.wsgi (no resolver threads); '
    'the queue is not started; when it has a relay, the relay fails transiently and the backoff is one hour, '
    'so nothing removes a written envelope from the store during the case',
    'ProxyQueue: "relayed successfully for every accepted recipient" == the attempt returned None / a Reply, '
    'or a mapping / sequence whose every value is None or a Reply',
    'the writes of a message in a session are the store.write() calls that start after the previous '
    'message\'s final answer was emitted (the edge handles one message at a time on a connection)',
]
REQUIRED_HITS = ['reply-emission-hook', '2xx-with-full-custody', 'failed-write-refused',
                 'queue-error-reply-code-passed-on', 'parked-write-looked-for-premature-reply',
                 'proxy-2xx-after-successful-relay', 'proxy-failed-relay-refused',
                 'fault-beyond-first-write-judged',
                 'reply-reception-snapshot', 'failure-answered-4xx-5xx',
                 'base-exception-write-failure-refused', 'raising-policy-refused',
                 'queue-with-relay-failed-write-refused', 'queue-with-relay-2xx-with-full-custody',
                 'proxy-non-dict-container-judged', 'proxy-relay-policy-failure-refused',
                 'session-second-message-judged', 'session-second-message-failed-write-refused',
                 'pipelined-eod-reply-judged', 'rejected-rcpt-message-judged',
                 'http-second-request-judged', 'rcpt-answered-other-2xx-judged',
                 'near-duplicate-recipients-judged']
SHARDS = {'quick': 8, 'thorough': 16}
BUDGET = {'quick': 60, 'thorough': 600}
EXHAUSTIVE = {'quick': True, 'thorough': True}

WATCHDOG = 20.0     # generous real-time guard; firing only ever yields R.inconclusive

CHAINS = ['none', 'split', 'domsplit', 'forward+split', 'date+split', 'domsplit+split']
SHAPES = ['qerr', 'qerr451', 'qerr552', 'qerr421', 'runtime', 'liberr', 'timeout', 'killed', 'slow-ok', 'slow-fail']
REPLY_OF = {'qerr451': '451', 'qerr552': '552', 'qerr421': '421'}
PAIR_SHAPES = [('qerr451', 'qerr552'), ('qerr552', 'qerr451'), ('qerr', 'qerr552'), ('qerr552', 'runtime')]
TRANSPORTS = {'quick': ['smtp-script', 'wsgi-app', 'smtp-socketpair', 'wsgi-server'],
              'thorough': ['smtp-script', 'wsgi-app', 'smtp-socketpair', 'wsgi-server']}
NMAX = {'quick': 3, 'thorough': 4}
POOLS = [None, 1, 2]
RELAY_MODES = ['failing', 'failing-pool1']         # Queue with a relay (legacy cases: no relay)
RELAY_CHAINS = ['none', 'split', 'domsplit+split']
BOOM_CHAINS = ['split', 'domsplit', 'domsplit+split']
FEEDS = {'smtp-script': ['step', 'pipe-cmds', 'pipe-tail', 'pipe-all'],
         'smtp-socketpair': ['step', 'pipe-all'],
         'wsgi-app': ['step'],
         'wsgi-server': ['step', 'pipe-all']}
SESSION_CHAINS = ['split', 'domsplit+split', 'forward+split']
SESSION_POOLS = [None, 1]
NEAR_DUPLICATES = [
    ('case-local', ['Sales@d0.test', 'sales@d0.test']),
    ('case-local-3', ['Sales@d0.test', 'other@d1.test', 'sales@d0.test', 'SALES@d0.test']),
    ('case-domain', ['info@D0.test', 'info@d0.test']),
    ('case-both', ['Info@D0.Test', 'info@d0.test']),
    ('duplicate', ['dup@d0.test', 'dup@d0.test']),
    ('duplicate-3', ['dup@d0.test', 'other@d1.test', 'dup@d0.test', 'dup@d0.test']),
    ('trailing-dot', ['dot@d0.test', 'dot@d0.test.']),
    ('plus-tag', ['user@d0.test', 'user+tag@d0.test', 'user+Tag@d0.test']),
]
RCPT_KINDS = ['250', '251', '252', '250ml', '250txt']


# ---------------------------------------------------------------- workload

def layouts(nmax, maxdom=3):
    """Every restricted-growth string of length 1..nmax over <= maxdom blocks (= set partitions)."""
    out = []

    def rec(pref, used):
        if pref:
            out.append(tuple(pref))
        if len(pref) == nmax:
            return
        for d in range(min(used + 1, maxdom)):
            rec(pref + [d], max(used, d + 1))
    rec([], 0)
    return sorted(out, key=lambda t: (len(t), t))


def n_produced(chain, layout):
    """Workload knowledge used only to bound the fault index k (the oracle counts with the recording policy)."""
    if chain == 'none':
        return 1
    if chain == 'domsplit':
        return len(set(layout))
    return len(layout)


def fault_maps(nprod, pairs=True):
    yield {}
    for k in range(1, nprod + 1):
        for shape in SHAPES:
            yield {str(k): shape}
    if not pairs:
        return
    for k1 in range(1, nprod + 1):
        for k2 in range(k1 + 1, nprod + 1):
            for s1, s2 in PAIR_SHAPES:
                yield {str(k1): s1, str(k2): s2}


def fail_subsets(n):
    """Every non-empty set of failing recipient positions, with the kinds it is tried with."""
    for mask in range(1, 1 << n):
        pos = [j for j in range(1, n + 1) if mask >> (j - 1) & 1]
        if len(pos) == 1:
            yield 'one-4xx', {str(pos[0]): '4xx'}
            yield 'one-5xx', {str(pos[0]): '5xx'}
        elif len(pos) == n:
            yield 'all-failed', {str(j): ('4xx' if j % 2 else '5xx') for j in pos}
        else:
            yield 'some-failed', {str(j): ('5xx' if i % 2 else '4xx') for i, j in enumerate(pos)}


def relay_results(n):
    for whole in ('none', 'reply250', 'raiseT', 'raiseP', 'raiseRuntime', 'raiseTimeout',
                  'policyT', 'policyP', 'policyRuntime'):
        yield {'form': 'whole', 'what': whole, 'fail': {}}
    for form in ('map', 'seq', 'mapping', 'tuple'):
        yield {'form': form, 'what': 'all-ok', 'fail': {}}
        for what, fail in fail_subsets(n):
            yield {'form': form, 'what': what, 'fail': fail}


def rcpt_kind_vectors(nmax):
    """Every assignment of an RCPT answer kind to 1..nmax recipients."""
    return [v for n in range(1, nmax + 1) for v in itertools.product(RCPT_KINDS, repeat=n)]


def first_messages_queue():
    """The six outcomes of the first message of a session (the session must survive it)."""
    return [{'layout': [0], 'faults': {}},
            {'layout': [0, 1], 'faults': {}},
            {'layout': [0, 1], 'faults': {'2': 'qerr552'}},
            {'layout': [0, 1], 'faults': {'1': 'qerr451'}},
            {'layout': [0, 1], 'faults': {'1': 'slow-ok'}},
            {'layout': [0, 1], 'faults': {'2': 'slow-fail'}}]


def first_messages_proxy():
    return [{'n': 1, 'relay': {'form': 'whole', 'what': 'none', 'fail': {}}, 'parked': False},
            {'n': 2, 'relay': {'form': 'whole', 'what': 'raiseT', 'fail': {}}, 'parked': False},
            {'n': 2, 'relay': {'form': 'map', 'what': 'one-5xx', 'fail': {'2': '5xx'}}, 'parked': False},
            {'n': 2, 'relay': {'form': 'seq', 'what': 'all-ok', 'fail': {}}, 'parked': True}]


def all_cases(tier, seed):
    rnd = random.Random('c02-%d' % seed)
    tag = 'seed%d' % seed
    nmax = NMAX[tier]
    full = tier == 'thorough'
    for transport in TRANSPORTS[tier]:
        smtp = transport.startswith('smtp')
        real = transport in ('smtp-socketpair', 'wsgi-server')
        # --- single message, receive-only Queue: the full enumeration
        for chain in CHAINS:
            for layout in layouts(nmax):
                nprod = n_produced(chain, layout)
                for pool in POOLS:
                    for faults in fault_maps(nprod):
                        for yields in (0, rnd.randint(1, 3)):
                            if yields and real and not full:
                                continue        # quick: the yielding write only on the scripted transports
                            yield {'transport': transport, 'queue': 'queue', 'chain': chain,
                                   'layout': list(layout), 'pool': pool, 'faults': faults,
                                   'yields': yields, 'tag': tag}
        # --- Queue with a relay: enqueue also spawns the first delivery attempt of every written envelope
        for relay in RELAY_MODES:
            for chain in RELAY_CHAINS:
                for layout in layouts(nmax):
                    nprod = n_produced(chain, layout)
                    for pool in (None, 1):
                        for faults in fault_maps(nprod, pairs=full):
                            yield {'transport': transport, 'queue': 'queue', 'chain': chain,
                                   'layout': list(layout), 'pool': pool, 'faults': faults,
                                   'yields': 0, 'relay': relay, 'tag': tag}
        # --- a queue policy raises: before the split, or on the k-th envelope after it
        for chain in BOOM_CHAINS:
            for layout in layouts(nmax):
                nprod = n_produced(chain, layout)
                booms = [{'at': 'pre', 'k': 1, 'exc': e} for e in ('runtime', 'qerr')]
                booms += [{'at': 'post', 'k': k, 'exc': e} for k in range(1, nprod + 1)
                          for e in ('runtime', 'qerr', 'timeout')]
                for boom in booms:
                    for pool in (None, 2):
                        yield {'transport': transport, 'queue': 'queue', 'chain': chain,
                               'layout': list(layout), 'pool': pool, 'faults': {}, 'yields': 0,
                               'boom': boom, 'tag': tag}
        # --- recipients that a careless normalisation would merge
        for name, rcpts in NEAR_DUPLICATES:
            for chain in ('none', 'split', 'domsplit', 'domsplit+split'):
                for pool in (None, 2):
                    for faults in ({}, {'1': 'qerr552'}):
                        yield {'transport': transport, 'queue': 'queue', 'chain': chain, 'layout': [0] * len(rcpts),
                               'rcpts': list(rcpts), 'neardup': name, 'pool': pool, 'faults': faults,
                               'yields': 0, 'tag': tag}
        # --- ProxyQueue
        for n in range(1, nmax + 1):
            for res in relay_results(n):
                for parked in (False, True):
                    yield {'transport': transport, 'queue': 'proxy', 'n': n, 'relay': res,
                           'parked': parked, 'tag': tag}
        # --- two messages per session / connection
        second_layouts = [(0, 1), (0, 0, 1)] + ([(0, 1, 2, 0)] if full else [])
        for feed in FEEDS[transport]:
            for chain in (SESSION_CHAINS if full else SESSION_CHAINS[:2]):
                for pool in (SESSION_POOLS if full else SESSION_POOLS[:1]):
                    for m1 in first_messages_queue():
                        for l2 in second_layouts:
                            rejects = [None]
                            if smtp and (full or feed in ('step', 'pipe-all')):
                                rejects += [0, len(l2)]
                            for reject in rejects:
                                for f2 in fault_maps(n_produced(chain, l2), pairs=full):
                                    m2 = {'layout': list(l2), 'faults': f2}
                                    if reject is not None:
                                        m2['reject'] = reject
                                    yield {'transport': transport, 'queue': 'session', 'qkind': 'queue',
                                           'feed': feed, 'chain': chain, 'pool': pool, 'yields': 0,
                                           'msgs': [dict(m1), m2], 'tag': tag}
            if smtp and feed in ('step', 'pipe-cmds'):
                # --- RCPT answered with a 2xx other than the plain 250 (alone / mixed with plain 250)
                for kinds in rcpt_kind_vectors(3 if full else 2):
                    if all(k == '250' for k in kinds):
                        continue
                    for chain in ('none', 'split'):
                        nprod = n_produced(chain, kinds)
                        for f in ({}, {str(nprod): 'qerr552'}):
                            yield {'transport': transport, 'queue': 'session', 'qkind': 'queue', 'feed': feed,
                                   'chain': chain, 'pool': None, 'yields': 0,
                                   'msgs': [{'layout': list(range(len(kinds))), 'faults': f,
                                             'rcpt_kinds': list(kinds)}], 'tag': tag}
            for m1 in (first_messages_proxy() if full else first_messages_proxy()[1::2]):
                for n in range(1, 4):
                    for res in relay_results(n):
                        for parked in (False, True):
                            yield {'transport': transport, 'queue': 'session', 'qkind': 'proxy', 'feed': feed,
                                   'msgs': [dict(m1), {'n': n, 'relay': res, 'parked': parked}], 'tag': tag}


def gen_cases(tier, seed, shard, nshards):
    for i, case in enumerate(all_cases(tier, seed)):
        if i % nshards == shard:
            yield case


# ---------------------------------------------------------------- probes (trusted base)

class FakePtr(object):
    def __init__(self, ip):
        pass

    def start(self):
        pass

    def finish(self, runtime=None):
        return None

    def kill(self, block=True):
        pass


_edge_smtp.PtrLookup = FakePtr
_edge_wsgi.PtrLookup = FakePtr


def _quiet_hub():
    hub = gevent.get_hub()
    hub.print_exception = lambda *a, **k: None     # injected faults die inside spawned write greenlets


class Plan(object):
    """What the probes do while one message is being handled."""

    def __init__(self, faults=None, spec=None, park=False, boom=None):
        self.faults = faults or {}
        self.spec = spec
        self.park = park
        self.boom = boom
        self.parked = Event()
        self.release = Event()
        self.slow = park or any(s.startswith('slow') for s in self.faults.values())


class TapPolicy(QueuePolicy):
    """Last element of the chain: records every envelope that leaves the chain, changes nothing."""

    def __init__(self):
        self.seen = []

    def apply(self, envelope):
        self.seen.append(list(envelope.recipients))


class BoomPolicy(QueuePolicy):
    """Raises on the k-th envelope it is applied to while the current message's plan says so."""

    def __init__(self, lab, at):
        self.lab = lab
        self.at = at
        self.calls = 0

    def apply(self, envelope):
        boom = self.lab.cur.boom
        if not boom or boom['at'] != self.at:
            return
        self.calls += 1
        if self.calls == boom['k']:
            self.lab.boomed.append(list(envelope.recipients))
            raise make_fault({'runtime': 'runtime', 'qerr': 'qerr552', 'timeout': 'timeout'}[boom['exc']],
                             'queue policy')


def make_fault(shape, what='storage backend'):
    if shape == 'runtime':
        return RuntimeError('injected: %s blew up' % what)
    if shape == 'liberr':
        # one of the library's own exceptions that is not a QueueError (a storage backend speaking SMTP/HTTP to its
        # server may let one out): for the edge it is a failed write like any other (seed C02k)
        from slimta.smtp import ConnectionLost
        return ConnectionLost()
    if shape == 'timeout':
        return gevent.Timeout(None, 'injected: %s timed out' % what)
    if shape == 'killed':
        return gevent.GreenletExit('injected: %s greenlet killed' % what)
    e = QueueError('injected: write failed')
    if shape == 'qerr451':
        e.reply = Reply('451', '4.3.1 injected: mail system full')
    elif shape == 'qerr552':
        e.reply = Reply('552', '5.3.4 injected: message too big for system')
    elif shape == 'qerr421':
        e.reply = Reply('421', '4.3.2 injected: system not accepting network messages')
    return e


class StoreProbe(QueueStorage):
    """Real DictStorage behind a write() that yields, fails or parks on the k-th call and records it."""

    def __init__(self, lab, yields):
        super(StoreProbe, self).__init__()
        self.inner = DictStorage()
        self.lab = lab
        self.yields = yields
        self.writes = []

    def write(self, envelope, timestamp):
        plan = self.lab.cur
        idx = len(self.writes) + 1 - self.lab.wbase          # 1-based within the current message
        rec = {'i': idx, 'rcpts': list(envelope.recipients), 'state': 'pending', 'id': None}
        self.writes.append(rec)
        try:
            for _ in range(self.yields):
                gevent.sleep(0)
            shape = plan.faults.get(str(idx))
            if shape in ('slow-ok', 'slow-fail'):
                rec['state'] = 'parked'
                plan.parked.set()
                plan.release.wait()
                rec['state'] = 'pending'
                if shape == 'slow-fail':
                    raise make_fault('qerr')
            elif shape:
                raise make_fault(shape)
            id = self.inner.write(envelope, timestamp)
            rec['id'] = id
            rec['state'] = 'ok'
            return id
        except BaseException as exc:
            rec['state'] = 'failed:' + type(exc).__name__
            raise

    def get(self, id):
        return self.inner.get(id)

    def load(self):
        return self.inner.load()

    def remove(self, id):
        return self.inner.remove(id)

    def set_timestamp(self, id, timestamp):
        return self.inner.set_timestamp(id, timestamp)

    def increment_attempts(self, id):
        return self.inner.increment_attempts(id)

    def set_recipients_delivered(self, id, rcpt_indexes):
        return self.inner.set_recipients_delivered(id, rcpt_indexes)


class FailingRelay(Relay):
    """Relay of a Queue that is not the subject: every attempt fails transiently (the envelope stays stored)."""

    def __init__(self):
        super(FailingRelay, self).__init__()
        self.attempts = 0

    def attempt(self, envelope, attempts):
        self.attempts += 1
        raise TransientRelayError('injected: next hop is down')


class PlainMapping(collections.abc.Mapping):
    """A Mapping that is not a dict."""

    def __init__(self, pairs):
        self._d = dict(pairs)

    def __getitem__(self, k):
        return self._d[k]

    def __iter__(self):
        return iter(self._d)

    def __len__(self):
        return len(self._d)


class RaisingRelayPolicy(RelayPolicy):

    def __init__(self, lab):
        self.lab = lab

    def apply(self, envelope):
        spec = self.lab.cur.spec
        if not spec or not spec['what'].startswith('policy'):
            return
        plan = self.lab.cur
        att = {'rcpts': list(envelope.recipients), 'finished': False,
               'outcome': {r: False for r in envelope.recipients}}
        self.lab.relay.attempts.append(att)
        if plan.park:
            plan.parked.set()
            plan.release.wait()
        att['finished'] = True
        if spec['what'] == 'policyT':
            raise TransientRelayError('injected: relay policy defers')
        if spec['what'] == 'policyP':
            raise PermanentRelayError('injected: relay policy refuses')
        raise RuntimeError('injected: relay policy blew up')


class ScriptRelay(Relay):

    def __init__(self, lab):
        super(ScriptRelay, self).__init__()
        self.lab = lab
        self.attempts = []         # one record per attempt: rcpts, finished, outcome {rcpt: True/False}

    def attempt(self, envelope, attempts):
        plan = self.lab.cur
        spec = plan.spec
        rc = list(envelope.recipients)
        att = {'rcpts': rc, 'finished': False, 'outcome': {}}
        self.attempts.append(att)
        if plan.park:
            plan.parked.set()
            plan.release.wait()
        form, what, fail = spec['form'], spec['what'], spec['fail']
        if form == 'whole':
            ok = what in ('none', 'reply250')
            for r in rc:
                att['outcome'][r] = ok
            att['finished'] = True
            if what == 'none':
                return None
            if what == 'reply250':
                return Reply('250', '2.0.0 relayed')
            if what == 'raiseT':
                raise TransientRelayError('injected: next hop busy')
            if what == 'raiseP':
                raise PermanentRelayError('injected: next hop refuses')
            if what == 'raiseTimeout':
                raise gevent.Timeout(None, 'injected: relay timed out')
            raise RuntimeError('injected: relay blew up')
        vals = []
        for j, r in enumerate(rc, 1):
            f = fail.get(str(j))
            if f == '4xx':
                vals.append(TransientRelayError('injected: mailbox busy',
                                                Reply('450', '4.2.1 injected: mailbox busy')))
            elif f == '5xx':
                vals.append(PermanentRelayError('injected: no such user',
                                                Reply('550', '5.1.1 injected: no such user')))
            else:
                vals.append(None if j % 2 else Reply('250', '2.1.5 ok'))
            att['outcome'][r] = f is None
        att['finished'] = True
        if form == 'map':
            return dict(zip(rc, vals))
        if form == 'mapping':
            return PlainMapping(zip(rc, vals))
        if form == 'tuple':
            return tuple(vals)
        return vals


class RejectingValidators(SmtpValidators):
    """Refuses every recipient in the domain reject.test, leaves everything else alone."""

    def handle_rcpt(self, reply, recipient, params):
        if recipient.endswith('@reject.test'):
            reply.code = '550'
            reply.message = '5.1.1 injected: no such user here'


class RcptCodeValidators(SmtpValidators):
    """Answers RCPT as the local part asks: k251..., k252..., k250ml... (two lines), k250txt... (other text)."""

    def handle_rcpt(self, reply, recipient, params):
        if recipient.startswith('k251'):
            reply.code, reply.message = '251', '2.1.5 User not local; will forward to <elsewhere@other.test>'
        elif recipient.startswith('k252'):
            reply.code, reply.message = '252', '2.1.5 Cannot verify the user, but will take the message'
        elif recipient.startswith('k250ml'):
            reply.message = '2.1.5 Recipient ok\r\n2.1.5 mailbox is almost full'
        elif recipient.startswith('k250txt'):
            reply.message = '2.1.5 fine by me'


# ---------------------------------------------------------------- one laboratory per case

FWD_PATTERN, FWD_REPL = r'@d0\.test$', '@moved.test'
NEUTRAL = Plan()


class Msg(object):
    """One message of the case: what is offered, what the probes do meanwhile, and its slice of the records."""

    def __init__(self, idx, spec, kind, session, tag):
        self.idx = idx
        pre = ('m%d' % idx) if session else ''
        if kind == 'queue':
            kinds = spec.get('rcpt_kinds') or [''] * len(spec['layout'])
            self.rcpts = ['%s%sr%d@d%d.test' % ('k' + k if k else '', pre, i, d)
                          for k, (i, d) in zip(kinds, enumerate(spec['layout']))]
            self.plan = Plan(faults=spec['faults'], boom=spec.get('boom'))
        else:
            self.rcpts = ['%sp%d@x%d.test' % (pre, i, i) for i in range(spec['n'])]
            self.plan = Plan(spec=spec['relay'], park=spec['parked'])
        if spec.get('rcpts'):
            self.rcpts = list(spec['rcpts'])
        self.neardup = spec.get('neardup')
        self.offered = list(self.rcpts)
        self.rcpt_kinds = spec.get('rcpt_kinds')
        self.rcpt_codes = {}                   # address -> code of its RCPT reply (session transports)
        self.reject = spec.get('reject')
        if self.reject is not None:
            self.offered.insert(self.reject, 'nobody%d@reject.test' % idx)
        self.accepted = list(self.rcpts)       # replaced by the RCPTs really answered 250 (session transports)
        self.sender = 'sender%s@origin.test' % pre
        self.body = ('Subject: c02 %s %s\r\nFrom: %s\r\n\r\ncustody probe\r\n' % (tag, pre, self.sender)).encode()
        self.base = None                       # {'w': .., 'p': .., 'a': ..}: start of this message's records
        self.end = None
        self.emitted = None                    # code of the final answer as emitted
        self.data_code = None


class Lab(object):

    def __init__(self, case):
        self.case = case
        self.session = case['queue'] == 'session'
        self.kind = case['qkind'] if self.session else case['queue']
        self.tap = None
        self.boomed = []
        self.cur = NEUTRAL
        self.wbase = 0
        self.marked = -1
        specs = case['msgs'] if self.session else [case]
        self.msgs = [Msg(i, sp, self.kind, self.session, case['tag']) for i, sp in enumerate(specs)]
        if self.kind == 'queue':
            self.store = StoreProbe(self, case['yields'])
            relay_mode = case.get('relay')
            kw = {}
            self.qrelay = None
            if relay_mode:
                self.qrelay = FailingRelay()
                kw = {'relay': self.qrelay, 'backoff': lambda envelope, attempts: 3600.0,
                      'relay_pool': 1 if relay_mode == 'failing-pool1' else None}
            self.queue = Queue(self.store, store_pool=case['pool'], **kw)
            chain = case['chain']
            with_boom = any(m.plan.boom for m in self.msgs)
            self.boom_policies = []
            if with_boom:
                self.boom_policies.append(BoomPolicy(self, 'pre'))
                self.queue.add_policy(self.boom_policies[-1])
            if chain == 'split':
                self.queue.add_policy(RecipientSplit())
            elif chain == 'domsplit':
                self.queue.add_policy(RecipientDomainSplit())
            elif chain == 'forward+split':
                fw = Forward()
                fw.add_mapping(FWD_PATTERN, FWD_REPL)
                self.queue.add_policy(fw)
                self.queue.add_policy(RecipientSplit())
            elif chain == 'date+split':
                self.queue.add_policy(AddDateHeader())
                self.queue.add_policy(RecipientSplit())
            elif chain == 'domsplit+split':
                # two splitting policies: outputs of the first are split again (re-entrant
                # replacement in Queue._run_policies)
                self.queue.add_policy(RecipientDomainSplit())
                self.queue.add_policy(RecipientSplit())
            if with_boom:
                self.boom_policies.append(BoomPolicy(self, 'post'))
                self.queue.add_policy(self.boom_policies[-1])
            if chain != 'none':
                self.tap = TapPolicy()
                self.queue.add_policy(self.tap)
        else:
            self.relay = ScriptRelay(self)
            self.relay.add_policy(RaisingRelayPolicy(self))
            self.queue = ProxyQueue(self.relay)
        self.snaps = []                        # snapshots: emission first, reception (real sockets) after
        self.validators = None
        if case['transport'].startswith('smtp') and any(m.reject is not None for m in self.msgs):
            self.validators = RejectingValidators
        if any(m.rcpt_kinds for m in self.msgs):
            self.validators = RcptCodeValidators
        self.mark(0)

    # single-message views used by the single-message transports
    rcpts = property(lambda self: self.msgs[0].offered)
    accepted = property(lambda self: self.msgs[0].accepted)
    sender = property(lambda self: self.msgs[0].sender)
    body = property(lambda self: self.msgs[0].body)
    slow = property(lambda self: self.msgs[0].plan.slow)
    parked = property(lambda self: self.msgs[0].plan.parked)
    release = property(lambda self: self.msgs[0].plan.release)

    def _position(self):
        if self.kind == 'queue':
            return {'w': len(self.store.writes), 'p': len(self.tap.seen) if self.tap is not None else 0}
        return {'a': len(self.relay.attempts)}

    def mark(self, m):
        """Message m starts now: everything the probes record from here on belongs to it."""
        if m <= self.marked:
            return
        self.marked = m
        pos = self._position()
        if 0 < m <= len(self.msgs):
            self.msgs[m - 1].end = pos
        if m < len(self.msgs):
            self.msgs[m].base = pos
            self.cur = self.msgs[m].plan
        else:
            self.cur = NEUTRAL
        self.wbase = pos.get('w', 0)
        if self.kind == 'queue':
            for b in self.boom_policies:
                b.calls = 0

    def release_all(self):
        for m in self.msgs:
            m.plan.release.set()

    def expected_final_rcpts(self, msg):
        if self.kind == 'queue' and self.case['chain'] == 'forward+split':
            return [re.sub(FWD_PATTERN, FWD_REPL, r) for r in msg.accepted]
        return list(msg.accepted)

    def snapshot(self, code, where, m=0):
        msg = self.msgs[m]
        s = {'where': where, 'code': code, 'm': m}
        base, end = msg.base or {}, msg.end or {}
        if self.kind == 'queue':
            seen = self.tap.seen[base.get('p', 0):end.get('p')] if self.tap is not None else None
            s['produced'] = len(seen) if seen is not None else 1
            s['produced_rcpts'] = [list(x) for x in seen] if seen is not None else None
            s['writes'] = []
            for w in self.store.writes[base.get('w', 0):end.get('w')]:
                w = dict(w)
                if w['state'] == 'ok':
                    try:
                        env, _ = self.store.inner.get(w['id'])
                        w['stored_rcpts'] = list(env.recipients)
                    except KeyError:
                        w['state'] = 'ok-but-not-in-storage'
                s['writes'].append(w)
            if msg.plan.boom:
                s['policy_raised_on'] = [list(x) for x in self.boomed]
        else:
            atts = self.relay.attempts[base.get('a', 0):end.get('a')]
            outcome = {}
            for a in atts:
                outcome.update(a['outcome'])
            s['relay'] = {'started': len(atts), 'finished': sum(1 for a in atts if a['finished']),
                          'rcpts': [r for a in atts for r in a['rcpts']], 'outcome': outcome}
        self.snaps.append(s)
        return s


def is2xx(code):
    return code is not None and code[:1] == '2'


def judge(lab, snap, edgekind, out):
    """Apply the custody invariant to one snapshot; append (mechanism, what) pairs / hit names to out."""
    code = snap['code']
    ok2 = is2xx(code)
    msg = lab.msgs[snap['m']]
    second = lab.session and snap['m'] > 0
    hits = out['hits']
    nviol = len(out['viol'])
    try:
        _judge(lab, snap, edgekind, out, code, ok2, msg, second, hits)
    finally:
        # the stratum is part of the mechanism: a defect of later messages / of a configuration must not hide
        # behind (or be hidden by) one that shows on every single message
        suffix = ''
        if second:
            suffix += '@later-message'
        if lab.validators is not None:
            suffix += '@validator-class'
        if lab.kind == 'queue' and lab.case.get('relay'):
            suffix += '@queue-with-relay'
        if suffix:
            out['viol'][nviol:] = [(mech + suffix, what) for mech, what in out['viol'][nviol:]]


def _judge(lab, snap, edgekind, out, code, ok2, msg, second, hits):
    if second:
        hits.append('session-second-message-judged')
        if edgekind == 'wsgi-edge':
            hits.append('http-second-request-judged')
    if lab.session and lab.case['feed'] != 'step' and edgekind == 'smtp-edge':
        hits.append('pipelined-eod-reply-judged')
    if msg.reject is not None:
        hits.append('rejected-rcpt-message-judged')
    if msg.rcpt_kinds:
        hits.append('rcpt-answered-other-2xx-judged')
    if msg.neardup:
        hits.append('near-duplicate-recipients-judged')
    if code is not None and code[:1] not in '245':
        out['viol'].append(('unclassified/%s/final-answer-neither-2xx-nor-4xx-5xx' % edgekind,
                            'the final answer to the message was %r' % code))
    if lab.kind == 'queue':
        faults = msg.plan.faults
        boom = msg.plan.boom if lab.boomed else None
        if msg.plan.boom and not lab.boomed:
            out['inconc'].append('the raising policy was never reached')
        with_relay = bool(lab.case.get('relay'))
        writes = snap['writes']
        pending = [w for w in writes if w['state'] in ('pending', 'parked')]
        failed = [w for w in writes if w['state'].startswith('failed') or w['state'] == 'ok-but-not-in-storage']
        okw = [w for w in writes if w['state'] == 'ok']
        not_handed = max(snap['produced'], 1) - len(writes)
        if ok2:
            need = collections.Counter(lab.expected_final_rcpts(msg))
            have = collections.Counter(r for w in okw for r in w['stored_rcpts'])
            missing = sorted((need - have).elements())
            if pending or not_handed > 0:
                out['viol'].append(('early-2xx-before-write-completed/' + edgekind,
                                    '%s emitted at %s while %d write(s) pending/parked and %d produced envelope(s) '
                                    'not yet handed to write' % (code, snap['where'], len(pending),
                                                                 max(not_handed, 0))))
            elif failed:
                only_qerr = all(w['state'] == 'failed:QueueError' for w in failed)
                base_exc = all(w['state'] in ('failed:Timeout', 'failed:GreenletExit') for w in failed)
                if writes and writes[0]['state'] == 'ok' and only_qerr:
                    mech = edgekind + '/reply-from-first-result-only'
                elif base_exc:
                    mech = edgekind + '/2xx-although-write-died-with-base-exception'
                else:
                    mech = 'unclassified/%s/2xx-although-write-failed' % edgekind
                out['viol'].append((mech, '%s emitted although write(s) %s of %d failed (%s); recipients %s '
                                    'are in no stored envelope'
                                    % (code, [w['i'] for w in failed], len(writes),
                                       ','.join(sorted(set(w['state'] for w in failed))),
                                       missing)))
            elif missing:
                other2xx = [r for r in missing if msg.rcpt_codes.get(r, '250') != '250']
                if msg.neardup:
                    mech = '%s/near-duplicate-recipient-dropped/%s' % (edgekind, msg.neardup.rstrip('-3'))
                elif other2xx and len(other2xx) == len(missing):
                    # two stages: next to a 250-recipient the transaction reaches DATA anyway; without one
                    # it is the DATA gate that must not open for recipients the envelope does not hold
                    some250 = any(c == '250' for c in msg.rcpt_codes.values())
                    mech = edgekind + ('/recipient-answered-2xx-other-than-250-dropped-next-to-250-recipient'
                                       if some250 else '/message-taken-although-no-recipient-is-in-the-envelope')
                elif boom:
                    mech = edgekind + '/2xx-although-policy-raised-and-recipient-unwritten'
                else:
                    mech = 'unclassified/%s/accepted-recipient-in-no-written-envelope' % edgekind
                out['viol'].append((mech, '%s emitted, all %d writes ok, but accepted recipients %s are in no stored '
                                    'envelope' % (code, len(writes), missing)))
            else:
                hits.append('2xx-with-full-custody')
                if with_relay:
                    hits.append('queue-with-relay-2xx-with-full-custody')
        else:
            if code is not None and code[:1] in '45' and (boom or failed):
                hits.append('failure-answered-4xx-5xx')
            if boom:
                hits.append('raising-policy-refused')      # any exception out of enqueue(): reply or close
            elif not faults:
                out['inconc'].append('no-fault case was not acknowledged (code %r)' % (code,))
            elif failed:
                hits.append('failed-write-refused')
                if second:
                    hits.append('session-second-message-failed-write-refused')
                if with_relay:
                    hits.append('queue-with-relay-failed-write-refused')
                if any(w['state'] in ('failed:Timeout', 'failed:GreenletExit') for w in failed):
                    hits.append('base-exception-write-failure-refused')
                if min(w['i'] for w in failed) > 1:
                    hits.append('fault-beyond-first-write-judged')
                any_runtime = any(w['state'] != 'failed:QueueError' for w in failed)
                if code is None and not any_runtime:
                    out['viol'].append(('unclassified/%s/no-reply-after-failed-write' % edgekind,
                                        'write(s) %s failed with QueueError but the client got no reply at all'
                                        % [w['i'] for w in failed]))
                shapes = [faults.get(str(w['i'])) for w in failed]
                if (edgekind == 'smtp-edge' and len(faults) == 1 and len(failed) == 1
                        and shapes[0] in REPLY_OF and snap['where'] == 'emission'):
                    want = REPLY_OF[shapes[0]]
                    if code == want:
                        hits.append('queue-error-reply-code-passed-on')
                    else:
                        out['viol'].append(('unclassified/smtp-edge/queue-error-reply-code-not-passed-on',
                                            'sole failure carried reply %s, client saw %s' % (want, code)))
        if ok2 and any(int(k) > 1 for k in faults) and '1' not in faults:
            hits.append('fault-beyond-first-write-judged')
    else:
        rl = snap['relay']
        spec = msg.plan.spec
        bad = sorted(r for r in msg.accepted if rl['outcome'].get(r) is not True)
        if spec['form'] in ('mapping', 'tuple'):
            hits.append('proxy-non-dict-container-judged')
        if ok2:
            if rl['finished'] < 1 or rl['finished'] < rl['started']:
                out['viol'].append(('early-2xx-before-relay-finished/' + edgekind,
                                    '%s emitted at %s while the relay attempt had %s'
                                    % (code, snap['where'], 'not finished' if rl['started'] else 'not started')))
            elif bad:
                if spec['form'] != 'whole':
                    mech = 'proxy-queue/per-recipient-failure-reported-as-success'
                elif spec['what'].startswith('policy'):
                    mech = 'proxy-queue/2xx-although-relay-policy-raised'
                else:
                    mech = 'unclassified/proxy-queue/2xx-although-relay-raised'
                out['viol'].append((mech, '%s emitted although the relay (%s %s) failed for %s'
                                    % (code, spec['form'], spec['what'], bad)))
            else:
                hits.append('proxy-2xx-after-successful-relay')
        else:
            if rl['finished'] and not bad:
                out['inconc'].append('successful relay was not acknowledged (code %r)' % (code,))
            elif bad:
                hits.append('proxy-failed-relay-refused')
                if code is not None and code[:1] in '45':
                    hits.append('failure-answered-4xx-5xx')
                if spec['what'].startswith('policy'):
                    hits.append('proxy-relay-policy-failure-refused')
                if second:
                    hits.append('session-second-message-failed-write-refused')
                if code is None and spec['what'] not in ('raiseRuntime', 'raiseTimeout', 'policyRuntime'):
                    out['viol'].append(('unclassified/%s/no-reply-after-failed-relay' % edgekind,
                                        'relay failed for %s but the client got no reply at all' % bad))


def look_while_parked(plan, emitted, edgekind, out, extra_probe=None, ended=None):
    """The slow write / relay is parked: give the edge every chance to answer early, then look.
    plan: anything with .parked (Lab of a single-message case, or the Plan of one message)."""
    if ended is not None:
        gevent.wait([plan.parked, ended], count=1, timeout=WATCHDOG)
        got = plan.parked.is_set()
        if not got and ended.ready():
            out['inconc'].append('the connection ended before the slow write/relay was reached')
            return
    else:
        got = plan.parked.wait(timeout=WATCHDOG)
    if not got:
        out['inconc'].append('watchdog: the slow write/relay was never reached')
        return
    gevent.idle()
    for _ in range(6):
        gevent.sleep(0)
    gevent.idle()
    early = emitted()
    if early is None and extra_probe is not None:
        early = extra_probe()
    out['hits'].append('parked-write-looked-for-premature-reply')
    if early is not None and not is2xx(early):
        # a premature 2xx has already been judged by the emission hook (pending > 0)
        out['viol'].append(('unclassified/%s/non-2xx-reply-while-sole-write-parked' % edgekind,
                            'reply %s emitted while the only outstanding write/relay was still parked' % early))


def code_of(data):
    """Reply code at the start of a sendall payload (the timeout reply is preceded by an empty line)."""
    return bytes(data).lstrip(b'\r\n')[:3].decode('latin-1')


# ---------------------------------------------------------------- transports: one message

ADDR = ('127.0.0.1', 4321)


def smtp_units(lab):
    u = [('ehlo', b'EHLO client.test\r\n'), ('mail', ('MAIL FROM:<%s>\r\n' % lab.sender).encode())]
    for r in lab.rcpts:
        u.append(('rcpt', ('RCPT TO:<%s>\r\n' % r).encode()))
    u.append(('data', b'DATA\r\n'))
    u.append(('body', lab.body + b'.\r\n'))
    u.append(('quit', b'QUIT\r\n'))
    return u


def run_smtp_script(lab, out):
    units = smtp_units(lab)
    st = {'i': 0, 'body_fed': False, 'eod': None, 'marks': [], 'setup_bad': None}

    def last_reply(ss):
        return ss.sent[-1] if ss.sent else b''

    def on_recv(ss):
        if ss.segments or st['i'] >= len(units):
            return
        kind, data = units[st['i']]
        st['marks'].append((kind, len(ss.sent)))
        if kind == 'body':
            if not last_reply(ss).startswith(b'354'):
                st['setup_bad'] = 'DATA not answered 354: %r' % last_reply(ss)[:40]
                st['i'] = len(units)
                return
            st['body_fed'] = True
        st['i'] += 1
        ss.feed(data)

    def on_send(ss, data):
        if st['body_fed'] and st['eod'] is None:
            st['eod'] = code_of(data)
            judge(lab, lab.snapshot(st['eod'], 'emission'), 'smtp-edge', out)
            out['hits'].append('reply-emission-hook')

    sock = ScriptSocket([], eof=True, on_recv=on_recv, on_send=on_send, peer=ADDR)
    edge = SmtpEdge(None, lab.queue, hostname='edge.test')
    g = gevent.spawn(edge.handle, sock, ADDR)
    if lab.slow:
        look_while_parked(lab, lambda: st['eod'], 'smtp-edge', out)
        lab.release.set()
    if not g.join(timeout=WATCHDOG) and not g.dead:
        g.kill(block=False)
        out['inconc'].append('watchdog: SMTP session did not end')
        return
    out['end'] = type(g.exception).__name__ if g.exception is not None else 'returned'
    out['wire'] = b''.join(sock.sent)
    if st['setup_bad']:
        out['inconc'].append(st['setup_bad'])
        return
    # accepted recipients = RCPT units answered 250 (reply = what was sent between this feed and the next)
    acc, j = [], 0
    replies = []
    for idx in range(len(st['marks'])):
        a = st['marks'][idx][1]
        b = st['marks'][idx + 1][1] if idx + 1 < len(st['marks']) else len(sock.sent)
        replies.append((st['marks'][idx][0], b''.join(sock.sent[a:b])))
    for kind, rep in replies:
        if kind == 'rcpt':
            if rep.startswith(b'250'):
                acc.append(lab.rcpts[j])
            j += 1
        elif kind == 'mail' and not rep.startswith(b'250'):
            out['inconc'].append('MAIL refused: %r' % rep[:40])
    if acc != lab.rcpts:
        out['inconc'].append('not every RCPT was accepted: %r' % acc)
    if st['eod'] is None:
        # the connection ended without any end-of-DATA reply
        judge(lab, lab.snapshot(None, 'session-end-without-reply'), 'smtp-edge', out)


class TapSocket(object):
    """A real gevent socket whose sendall()/send() tell the harness first."""

    def __init__(self, sock, on_send):
        self._s = sock
        self._on_send = on_send

    def sendall(self, data, *flags):
        self._on_send(bytes(data))
        return self._s.sendall(data, *flags)

    def send(self, data, *flags):
        self._on_send(bytes(data))
        return self._s.send(data, *flags)

    def __getattr__(self, name):
        return getattr(self._s, name)


class SmtpClient(object):

    def __init__(self, sock):
        self.s = sock
        self.buf = b''

    def reply(self):
        lines = []
        while True:
            while b'\n' not in self.buf:
                d = self.s.recv(4096)
                if not d:
                    return None
                self.buf += d
            ln, self.buf = self.buf.split(b'\n', 1)
            if not lines and ln.strip() == b'':
                continue                    # the timeout reply is preceded by an empty line
            lines.append(ln)
            if ln[3:4] != b'-':
                return b'\n'.join(lines)

    def readable_now(self):
        self.s.settimeout(0.0)
        try:
            d = self.s.recv(4096)
            self.buf += d
            return code_of(d) if d else None
        except (BlockingIOError, gsocket.timeout, OSError):
            return None
        finally:
            self.s.settimeout(None)


def run_smtp_socketpair(lab, out):
    a, b = gsocket.socketpair()
    st = {'body_sent': False, 'eod': None}

    def on_send(data):
        if st['body_sent'] and st['eod'] is None:
            st['eod'] = code_of(data)
            judge(lab, lab.snapshot(st['eod'], 'emission'), 'smtp-edge', out)
            out['hits'].append('reply-emission-hook')

    edge = SmtpEdge(None, lab.queue, hostname='edge.test')
    g = gevent.spawn(edge.handle, TapSocket(a, on_send), ADDR)
    cl = SmtpClient(b)
    wd = gevent.Timeout(WATCHDOG)
    wd.start()
    try:
        rep = cl.reply()
        if rep is None or not rep.startswith(b'220'):
            out['inconc'].append('no banner: %r' % (rep,))
            return
        got = None
        for kind, data in smtp_units(lab):
            if kind == 'body':
                st['body_sent'] = True
            try:
                b.sendall(data)
            except OSError:
                if kind != 'quit':          # after a 421 the server has gone; QUIT then hits a closed pipe
                    out['inconc'].append('connection gone before %s could be sent' % kind)
                break
            if kind == 'body' and lab.slow:
                look_while_parked(lab, lambda: st['eod'], 'smtp-edge', out, extra_probe=cl.readable_now)
                lab.release.set()
            rep = cl.reply()
            if kind == 'body':
                got = rep[:3].decode('latin-1') if rep else None
                snap = lab.snapshot(got, 'reception')
                out['hits'].append('reply-reception-snapshot')
                if st['eod'] is None or got != st['eod']:
                    judge(lab, snap, 'smtp-edge', out)
                else:
                    sub = {'viol': [], 'hits': [], 'inconc': []}
                    judge(lab, snap, 'smtp-edge', sub)
                    out['viol'].extend(sub['viol'])
                if rep is None:
                    break
            elif rep is None:
                out['inconc'].append('connection closed after %s' % kind)
                break
            elif kind in ('mail', 'rcpt') and not rep.startswith(b'250'):
                out['inconc'].append('%s refused: %r' % (kind, rep[:40]))
                break
            elif kind == 'data' and not rep.startswith(b'354'):
                out['inconc'].append('DATA not answered 354: %r' % rep[:40])
                break
        g.join()
        out['end'] = type(g.exception).__name__ if g.exception is not None else 'returned'
    except gevent.Timeout as t:
        if t is not wd:
            raise
        out['inconc'].append('watchdog: SMTP socketpair session stalled')
        lab.release_all()
        g.kill(block=False)
    finally:
        wd.close()
        for s in (a, b):
            try:
                s.close()
            except Exception:
                pass


def wsgi_environ(msg):
    b64 = lambda s: base64.b64encode(s.encode()).decode()      # noqa: E731
    return {'REQUEST_METHOD': 'POST', 'PATH_INFO': '/', 'CONTENT_TYPE': 'message/rfc822',
            'CONTENT_LENGTH': str(len(msg.body)), 'wsgi.input': io.BytesIO(msg.body),
            'wsgi.url_scheme': 'http', 'REMOTE_ADDR': '127.0.0.1', 'HTTP_X_EHLO': 'client.test',
            'HTTP_X_ENVELOPE_SENDER': b64(msg.sender),
            'HTTP_X_ENVELOPE_RECIPIENT': ', '.join(b64(r) for r in msg.rcpts)}


def run_wsgi_app(lab, out):
    """The application object is called once per message (two calls in a session)."""
    edge = WsgiEdge(lab.queue, hostname='edge.test')
    wire = []
    for msg in lab.msgs:
        st = {'status': None, 'headers': None}
        lab.mark(msg.idx)

        def start_response(status, headers, exc_info=None, st=st, msg=msg):
            if st['status'] is None:
                st['status'] = msg.emitted = status[:3]
                st['headers'] = list(headers)
                judge(lab, lab.snapshot(st['status'], 'emission', msg.idx), 'wsgi-edge', out)
                out['hits'].append('reply-emission-hook')
                lab.mark(msg.idx + 1)

        g = gevent.spawn(edge, wsgi_environ(msg), start_response)
        if msg.plan.slow:
            look_while_parked(msg.plan, lambda: st['status'], 'wsgi-edge', out)
            msg.plan.release.set()
        if not g.join(timeout=WATCHDOG) and not g.dead:
            g.kill(block=False)
            lab.release_all()
            out['inconc'].append('watchdog: WSGI call did not return')
            return
        out['end'] = type(g.exception).__name__ if g.exception is not None else 'returned'
        wire.append((st['status'], st['headers']))
        out['wire'] = repr(wire)
        if st['status'] is None:
            judge(lab, lab.snapshot(None, 'call-ended-without-response', msg.idx), 'wsgi-edge', out)
            lab.mark(msg.idx + 1)


class _NullLog(object):
    def write(self, *a):
        pass

    def flush(self):
        pass


class TapWsgiEdge(WsgiEdge):
    """WsgiEdge whose start_response is observed by the harness at call time."""
    tap = None

    def __call__(self, environ, start_response):
        tap = self.tap

        def tapped(status, headers, *a, **k):
            tap(status, headers)
            return start_response(status, headers, *a, **k)
        return super(TapWsgiEdge, self).__call__(environ, tapped)


_SRV = {}


def wsgi_server():
    """One real gevent.pywsgi server per worker process, built by WsgiEdge.build_server(); the queue and the
    start_response tap of its application object are swapped per case.  (One listener and RST-closing client
    sockets: tens of thousands of cases must not exhaust the ephemeral ports with TIME_WAIT entries.)"""
    if 'srv' not in _SRV:
        edge = TapWsgiEdge(None, hostname='edge.test')
        srv = edge.build_server(('127.0.0.1', 0))
        srv.log = _NullLog()
        srv.error_log = _NullLog()
        srv.start()
        _SRV['edge'], _SRV['srv'] = edge, srv
    return _SRV['edge'], _SRV['srv']


def shard_cleanup():
    srv = _SRV.pop('srv', None)
    _SRV.clear()
    if srv is not None:
        srv.stop(timeout=1)


def http_request(msg, close):
    env = wsgi_environ(msg)
    return ('POST / HTTP/1.1\r\nHost: edge.test\r\n%sContent-Type: message/rfc822\r\n'
            'X-Ehlo: client.test\r\nX-Envelope-Sender: %s\r\nX-Envelope-Recipient: %s\r\n'
            'Content-Length: %d\r\n\r\n' % ('Connection: close\r\n' if close else '',
                                            env['HTTP_X_ENVELOPE_SENDER'], env['HTTP_X_ENVELOPE_RECIPIENT'],
                                            len(msg.body))).encode() + msg.body


STATUS_LINE = re.compile(br'(?m)^HTTP/1\.[01] (\d{3})')


def run_wsgi_server(lab, out):
    """One connection to a real gevent.pywsgi server; one request per message: keep-alive one after the
    other ('step') or all requests in one segment ('pipe-all')."""
    st = {'k': 0}
    feed = lab.case.get('feed', 'step')

    def tap(status, headers):
        k = st['k']
        st['k'] += 1
        if k < len(lab.msgs):
            msg = lab.msgs[k]
            msg.emitted = status[:3]
            judge(lab, lab.snapshot(msg.emitted, 'emission', k), 'wsgi-edge', out)
            out['hits'].append('reply-emission-hook')
            lab.mark(k + 1)

    edge, srv = wsgi_server()
    edge.queue = lab.queue
    edge.tap = tap
    wd = gevent.Timeout(WATCHDOG)
    wd.start()
    c = None
    try:
        c = gsocket.create_connection(('127.0.0.1', srv.server_port))
        c.setsockopt(gsocket.SOL_SOCKET, gsocket.SO_LINGER, struct.pack('ii', 1, 0))   # close() sends RST
        cl = SmtpClient(c)
        last = len(lab.msgs) - 1
        if feed == 'pipe-all':
            c.sendall(b''.join(http_request(m, m.idx == last) for m in lab.msgs))
        eof = False
        for msg in lab.msgs:
            if feed != 'pipe-all':
                c.sendall(http_request(msg, msg.idx == last))
            if msg.plan.slow:
                def probe(msg=msg):
                    cl.readable_now()
                    return 'HTTP-bytes' if len(STATUS_LINE.findall(cl.buf)) > msg.idx else None
                look_while_parked(msg.plan, lambda: msg.emitted, 'wsgi-edge', out, extra_probe=probe)
                msg.plan.release.set()
            # read up to the status line of this message's response; after the last request, up to EOF
            while not eof and (msg.idx == last or len(STATUS_LINE.findall(cl.buf)) <= msg.idx):
                d = c.recv(4096)
                if not d:
                    eof = True
                else:
                    cl.buf += d
            codes = STATUS_LINE.findall(cl.buf)
            got = codes[msg.idx].decode() if len(codes) > msg.idx else None
            snap = lab.snapshot(got, 'reception', msg.idx)
            out['hits'].append('reply-reception-snapshot')
            sub = {'viol': [], 'hits': [], 'inconc': []}
            judge(lab, snap, 'wsgi-edge', sub)
            if msg.emitted is None or got != msg.emitted:
                for kx in sub:
                    out[kx].extend(sub[kx])
            else:
                out['viol'].extend(sub['viol'])
            if got is None:
                lab.mark(msg.idx + 1)
                if msg.idx != last:
                    out['inconc'].append('the connection ended before request %d was answered' % (msg.idx + 1))
                break
        out['wire'] = cl.buf[:400]
        out['end'] = 'returned'
    except gevent.Timeout as t:
        if t is not wd:
            raise
        out['inconc'].append('watchdog: HTTP exchange stalled')
        lab.release_all()
    finally:
        wd.close()
        if c is not None:
            c.close()


# ---------------------------------------------------------------- transports: SMTP sessions

class ReplyTracker(object):
    """SMTP reply framing over the bytes handed to sendall(): tells which replies START in a payload."""

    def __init__(self):
        self.k = -1                 # index of the last reply that started
        self.in_reply = False       # between the first line of a multi-line reply and its last line
        self.line = b''             # current incomplete line
        self.codes = []

    def feed(self, data):
        started = []
        for ch in bytes(data):
            c = bytes((ch,))
            if not self.line and not self.in_reply and c in b'\r\n':
                continue            # empty line in front of a reply (the timeout reply has one)
            if not self.line and not self.in_reply:
                self.k += 1
                self.codes.append(b'')
                started.append(self.k)
            self.line += c
            if len(self.line) <= 3 and not self.in_reply:
                self.codes[self.k] = self.line[:3]
            if c == b'\n':
                self.in_reply = self.line[3:4] == b'-'
                self.line = b''
        return [(k, self.codes[k].decode('latin-1')) for k in started]


def session_units(lab):
    u = [('ehlo', None, b'EHLO client.test\r\n')]
    for m in lab.msgs:
        u.append(('mail', m.idx, ('MAIL FROM:<%s>\r\n' % m.sender).encode()))
        for r in m.offered:
            u.append(('rcpt', m.idx, ('RCPT TO:<%s>\r\n' % r).encode()))
        u.append(('data', m.idx, b'DATA\r\n'))
        u.append(('body', m.idx, m.body + b'.\r\n'))
    u.append(('quit', None, b'QUIT\r\n'))
    return u


def feed_groups(units, feed):
    """Which units travel together in one segment."""
    if feed == 'step':
        return [[u] for u in units]
    if feed == 'pipe-all':
        return [list(units)]
    groups, cur = [], []
    if feed == 'pipe-cmds':          # RFC 2920: MAIL, RCPT.., DATA in one go; the message on its own; QUIT alone
        for u in units:
            if u[0] == 'body':
                groups.append(cur)
                groups.append([u])
                cur = []
            else:
                cur.append(u)
        groups.append(cur)
    else:                            # 'pipe-tail': the next transaction up to DATA (or QUIT) glued behind the body
        for u in units:
            if u[0] == 'body':
                cur = [u]
                groups.append(cur)
            elif cur and cur[0][0] == 'body':
                cur.append(u)
                if u[0] == 'data':
                    cur = []
            else:
                groups.append([u])
    return [g for g in groups if g]


class SessionMonitor(object):
    """Follows the replies of one SMTP session on the sending side and judges every end-of-DATA reply at the
    instant its first byte is handed to sendall()."""

    def __init__(self, lab, out):
        self.lab = lab
        self.out = out
        self.roles = [('banner', None)] + [('eod' if k == 'body' else k, m) for k, m, _ in session_units(lab)]
        self.tracker = ReplyTracker()
        self.rcpt_seen = collections.Counter()
        self.actual = collections.defaultdict(list)
        self.setup_bad = None

    def on_send(self, data):
        for k, code in self.tracker.feed(data):
            if k >= len(self.roles):
                self.setup_bad = self.setup_bad or 'more replies than commands: %r' % bytes(data)[:40]
                continue
            role, m = self.roles[k]
            if self.setup_bad:
                continue
            if len(code) < 3:
                self.setup_bad = 'reply code split over two sendall() calls'
            elif role in ('banner', 'ehlo', 'mail') and code[:1] != '2':
                self.setup_bad = '%s refused: %s' % (role, code)
            elif role == 'rcpt':
                msg = self.lab.msgs[m]
                addr = msg.offered[self.rcpt_seen[m]]
                self.rcpt_seen[m] += 1
                msg.rcpt_codes[addr] = code
                if code[:1] == '2':             # a recipient answered 2xx was accepted in the client's eyes
                    self.actual[m].append(addr)
            elif role == 'data':
                self.lab.msgs[m].data_code = code
                if code != '354' and self.lab.msgs[m].rcpt_kinds and k + 1 < len(self.roles):
                    del self.roles[k + 1]       # the harness does not send the content then
                elif code != '354':
                    self.setup_bad = 'DATA of message %d not answered 354: %s' % (m + 1, code)
            elif role == 'eod':
                msg = self.lab.msgs[m]
                if self.actual[m] != msg.rcpts:
                    self.out['inconc'].append('message %d: accepted recipients %r, workload expected %r'
                                              % (m + 1, self.actual[m], msg.rcpts))
                msg.accepted = list(self.actual[m])
                msg.emitted = code
                judge(self.lab, self.lab.snapshot(code, 'emission', m), 'smtp-edge', self.out)
                self.out['hits'].append('reply-emission-hook')
                self.lab.mark(m + 1)

    def finish(self):
        """The session is over: messages whose content was asked for but never answered, or never reached."""
        if self.setup_bad:
            self.out['inconc'].append(self.setup_bad)
            return
        for msg in self.lab.msgs:
            if msg.emitted is not None:
                continue
            if msg.data_code == '354':
                msg.accepted = list(self.actual[msg.idx])
                judge(self.lab, self.lab.snapshot(None, 'session-end-without-reply', msg.idx), 'smtp-edge', self.out)
                self.lab.mark(msg.idx + 1)
            elif msg.rcpt_kinds and msg.data_code is not None:
                # DATA refused: the message was not taken and nothing was acknowledged
                self.out['hits'].append('data-refused-so-nothing-acknowledged')
            else:
                self.out['inconc'].append('message %d of the session was never reached' % (msg.idx + 1))


def run_smtp_session_script(lab, out):
    groups = feed_groups(session_units(lab), lab.case['feed'])
    mon = SessionMonitor(lab, out)
    st = {'i': 0}

    def on_recv(ss):
        if ss.segments or st['i'] >= len(groups):
            return
        group = groups[st['i']]
        st['i'] += 1
        if group[0][0] == 'body' and lab.msgs[group[0][1]].data_code not in (None, '354'):
            return on_recv(ss)              # DATA was refused: no content is sent
        ss.feed(b''.join(u[2] for u in group))

    sock = ScriptSocket([], eof=True, on_recv=on_recv, on_send=lambda ss, data: mon.on_send(data), peer=ADDR)
    edge = SmtpEdge(None, lab.queue, hostname='edge.test', validator_class=lab.validators)
    g = gevent.spawn(edge.handle, sock, ADDR)
    for msg in lab.msgs:
        if msg.plan.slow:
            look_while_parked(msg.plan, lambda: msg.emitted, 'smtp-edge', out, ended=g)
            msg.plan.release.set()
    if not g.join(timeout=WATCHDOG) and not g.dead:
        g.kill(block=False)
        lab.release_all()
        out['inconc'].append('watchdog: SMTP session did not end')
        return
    out['end'] = type(g.exception).__name__ if g.exception is not None else 'returned'
    out['wire'] = b''.join(sock.sent)
    mon.finish()


def run_smtp_session_socketpair(lab, out):
    a, b = gsocket.socketpair()
    groups = feed_groups(session_units(lab), lab.case['feed'])
    mon = SessionMonitor(lab, out)
    edge = SmtpEdge(None, lab.queue, hostname='edge.test', validator_class=lab.validators)
    g = gevent.spawn(edge.handle, TapSocket(a, mon.on_send), ADDR)
    cl = SmtpClient(b)
    wd = gevent.Timeout(WATCHDOG)
    wd.start()
    wire = []
    try:
        rep = cl.reply()
        wire.append(rep)
        gone = rep is None
        for group in groups:
            if gone:
                break
            if group[0][0] == 'body' and lab.msgs[group[0][1]].data_code not in (None, '354'):
                continue                    # DATA was refused: no content is sent
            try:
                b.sendall(b''.join(u[2] for u in group))
            except OSError:
                break
            for kind, m, _ in group:
                msg = lab.msgs[m] if m is not None else None
                if kind == 'body' and msg.plan.slow:
                    look_while_parked(msg.plan, lambda: msg.emitted, 'smtp-edge', out,
                                      extra_probe=None if len(group) > 1 else cl.readable_now, ended=g)
                    msg.plan.release.set()
                rep = cl.reply()
                wire.append(rep)
                if kind == 'body':
                    got = rep[:3].decode('latin-1') if rep else None
                    snap = lab.snapshot(got, 'reception', m)
                    out['hits'].append('reply-reception-snapshot')
                    sub = {'viol': [], 'hits': [], 'inconc': []}
                    judge(lab, snap, 'smtp-edge', sub)
                    if msg.emitted is None or got != msg.emitted:
                        for kx in sub:
                            out[kx].extend(sub[kx])
                    else:
                        out['viol'].extend(sub['viol'])
                if rep is None:
                    gone = True
                    break
        for s in (b,):
            try:
                s.shutdown(gsocket.SHUT_WR)
            except OSError:
                pass
        g.join()
        out['end'] = type(g.exception).__name__ if g.exception is not None else 'returned'
        out['wire'] = b'\n'.join(r for r in wire if r)
        mon.finish()
    except gevent.Timeout as t:
        if t is not wd:
            raise
        out['inconc'].append('watchdog: SMTP socketpair session stalled')
        lab.release_all()
        g.kill(block=False)
    finally:
        wd.close()
        for s in (a, b):
            try:
                s.close()
            except Exception:
                pass


RUNNERS = {'smtp-script': run_smtp_script, 'smtp-socketpair': run_smtp_socketpair,
           'wsgi-app': run_wsgi_app, 'wsgi-server': run_wsgi_server}
SESSION_RUNNERS = {'smtp-script': run_smtp_session_script, 'smtp-socketpair': run_smtp_session_socketpair,
                   'wsgi-app': run_wsgi_app, 'wsgi-server': run_wsgi_server}


# ---------------------------------------------------------------- the check

def nontrivial_queue(nprod, faults):
    return bool(faults) and nprod >= 2 and '1' not in faults


def nontrivial_proxy(spec):
    return spec['form'] != 'whole' and bool(spec['fail']) and '1' not in spec['fail']


def run_case(case, R):
    _quiet_hub()
    lab = Lab(case)
    out = {'viol': [], 'hits': [], 'inconc': [], 'end': None, 'wire': None}
    R.eval()
    session = case['queue'] == 'session'
    (SESSION_RUNNERS if session else RUNNERS)[case['transport']](lab, out)
    lab.release_all()
    if lab.kind == 'queue' and case.get('relay'):
        for _ in range(4):              # let the spawned first delivery attempts (which fail) settle
            gevent.idle()
        R.observe('relay-attempts-spawned', min(lab.qrelay.attempts, 4))

    for h in out['hits']:
        R.hit(h)
    for reason in out['inconc']:
        R.inconclusive(reason)
    stratum = case['queue'] if not session else 'session-%s-%s' % (case['qkind'], case['feed'])
    if lab.kind == 'queue' and case.get('relay'):
        stratum += '+relay'
    if case.get('boom'):
        stratum += '+raising-policy'
    R.count('cases/' + case['transport'] + '/' + stratum)
    R.observe('session-end', (case['transport'], out['end']))
    by_msg = {}
    for s in lab.snaps:
        by_msg.setdefault(s['m'], s)
    for m, s in sorted(by_msg.items()):
        R.observe('final-reply-code', (case['transport'], m, s['code']))
    last = lab.msgs[-1]
    first_snap = by_msg.get(last.idx)

    if lab.kind == 'queue':
        faults = last.plan.faults
        nprod = first_snap['produced'] if first_snap else 0
        layout = tuple(case['msgs'][-1]['layout'] if session else case['layout'])
        R.observe('chain-x-layout-x-produced', (case['chain'], layout, nprod))
        R.observe('fault-map', tuple(sorted(faults.items())))
        if case.get('boom'):
            R.observe('raising-policy', (case['chain'], layout, tuple(sorted(case['boom'].items()))))
        if nontrivial_queue(nprod, faults):
            key = (case['transport'], 'queue', case['chain'], layout, case['pool'],
                   case['yields'] > 0, tuple(sorted(faults.items())))
            if case.get('relay'):
                key += (case['relay'],)
            if session:
                key += (case['feed'], json.dumps(case['msgs'][0], sort_keys=True), last.reject)
            R.nontrivial(key)
        emitted = first_snap['code'] if first_snap else None
        if first_snap is not None:
            fired = set(str(w['i']) for w in first_snap['writes'])
            if any(k not in fired for k in faults) and is2xx(emitted) and not out['viol']:
                R.inconclusive('fault index beyond the writes that happened')
            want = n_produced(case['chain'], layout)
            if case['chain'] != 'none' and not case.get('boom') and not case.get('rcpts') and nprod != want \
                    and not out['viol']:
                R.inconclusive('policy chain produced %d envelopes, workload expected %d' % (nprod, want))
    else:
        spec = last.plan.spec
        n = len(last.rcpts)
        R.observe('relay-result', (n, spec['form'], spec['what'], tuple(sorted(spec['fail'].items())),
                                   last.plan.park))
        if nontrivial_proxy(spec):
            key = (case['transport'], 'proxy', n, spec['form'], spec['what'],
                   tuple(sorted(spec['fail'].items())), last.plan.park)
            if session:
                key += (case['feed'], json.dumps(case['msgs'][0], sort_keys=True))
            R.nontrivial(key)

    seen = set()
    for mech, what in out['viol']:
        if mech in seen:
            continue
        seen.add(mech)
        R.count('violations/%s/%s' % (case['transport'], mech))
        R.violation(mech, '[%s%s] %s' % (case['transport'], '/' + case['feed'] if session else '', what),
                    {'snapshots': lab.snaps, 'accepted': [m.accepted for m in lab.msgs],
                     'expected_final_recipients': [lab.expected_final_rcpts(m) for m in lab.msgs],
                     'session_end': out['end'], 'wire': out['wire']})
    if not out['viol'] and lab.snaps and len(R.samples) < R.MAX_SAMPLES and \
            (lab.kind == 'proxy' or (last.plan.faults and '1' not in last.plan.faults)):
        R.sample({'case': case, 'snapshots': lab.snaps, 'wire': out['wire']})
