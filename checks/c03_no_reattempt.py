"""C03 -- settled recipients are never attempted again; one attempt in flight per message.

Real Queue + real backend under QueueLab (virtual clock, gated scripted relay, gates on
yielding storage calls).  Oracle: offline scan per message marker over attempt_start /
attempt_end events: the settled set accumulates only from outcomes the relay probe itself
handed to the Queue; a later attempt offering a settled recipient = 'resend'; two open
attempt intervals of one marker = 'overlap'.  Sequence results are positional (a recipient past the
end of a short sequence is unreported, hence not settled); an address listed twice is settled by the
result reported for that address.
"""
import random
import itertools

from vf import queuelab as L
from vf import qlchecks as C

PROPERTY = 'C03'
LEVEL = 'exploration'
LEVEL_TEXT = ('Real slimta Queue on all four storage backends (dict, disk+pyaio, redis via redis-py against an '
              'in-process RESP3 server, cloud over an object-store double) driven through multi-round '
              'partial-delivery histories: exhaustive over which positions settle in round 1 and round 2 for '
              '2..4 recipients (map and sequence results, sequences one short of / longer than the recipient '
              'list), over three settling rounds for 3..5 recipients, with a recipient address given twice, plus '
              'seeded schedules with backoff 0, bounded pools, '
              'flush, duplicate wait() announcements and start() racing enqueue. Held = no resend/overlap in the '
              'histories and interleavings reported in the evidence; not a proof over all schedules.')
LEVEL_NOTE = ('Trusted: virtual clock shim for slimta.queue (time + timed Event.wait), scripted relay probe, '
              'MiniRedis / MemObjectStore doubles, quiescence detection (gevent.idle + in-progress counters). '
              'Gates are placed only at entry/exit of storage calls of backends that really yield.')
TECHNIQUE = 'runtime monitoring: recorded attempt history per message checked by an ordering oracle (settled-set, interval overlap) under a controlled schedule'
RULE = ('case = one seeded history (config + PRNG seed => decision list). Exhaustive stratum: n in 2..4 recipients, '
        'every assignment of {delivered, transient, permanent} to positions in round 1 (>=1 transient, >=1 settled) '
        'and round 2, on every backend, map (both key orders) and seq result shapes incl. sequences one short of / '
        'longer than the recipient list; three-round scripts for 3..5 recipients (sampled in quick); duplicate-address '
        'scripts. Random stratum: seeded schedules. '
        'non-trivial = history with >= 2 partial rounds of one message or a duplicate announcement of a known id; '
        'distinct by (backend, per-message outcome-shape, pool config)')
ASSUMPTIONS = ['two Queue objects over one storage (two processes) are outside C03',
               'replay of a history on disk/redis backends may order real I/O completions differently']
REQUIRED_HITS = ['attempt-outcomes-observed', 'histories-judged', 'second-round-attempts', 'real-relay-histories',
                 'real-relay-final-failures-observed',
                 'third-marking-round-attempts', 'short-sequence-partial-rounds', 'long-sequence-partial-rounds',
                 'duplicate-address-partial-rounds']
SHARDS = {'quick': 12, 'thorough': 16}
BUDGET = {'quick': 75, 'thorough': 800}

BACKENDS = C.BACKENDS_ALL


def _round_patterns(k):
    for pat in itertools.product('DTP', repeat=k):
        if 'T' in pat and (k == 1 or any(c != 'T' for c in pat)):
            yield pat


def exhaustive_scripts(nmax):
    for n in range(2, nmax + 1):
        for r1 in _round_patterns(n):
            k = r1.count('T')
            if k == n:
                continue
            for r2 in _round_patterns(k):
                yield n, [list(r1), list(r2)]


def three_round_scripts():
    """3..5 recipients, three rounds in each of which something settles and something is deferred."""
    for n in (3, 4, 5):
        for r1 in _round_patterns(n):
            k1 = r1.count('T')
            if k1 < 2 or k1 == n:
                continue
            for r2 in _round_patterns(k1):
                k2 = r2.count('T')
                if k2 < 1 or k2 == k1:
                    continue
                for r3 in itertools.product('DTP', repeat=k2):
                    yield n, [list(r1), list(r2), list(r3)]


def duplicate_scripts():
    """2..3 distinct addresses + one of them given twice (n+1 positions), two rounds."""
    for n in (2, 3):
        for r1 in _round_patterns(n + 1):
            for r2 in (['D'] * (n + 1), ['T'] + ['D'] * n, ['P'] * (n + 1)):
                yield n, [list(r1), list(r2)]


def gen_cases(tier, seed, shard, nshards):
    idx = 0
    nmax = 4
    thin2 = itertools.count()
    for n, script in exhaustive_scripts(nmax):
        for be in BACKENDS:
            # quick: thin the expensive backends
            if tier == 'quick' and be == 'redis' and (idx * 7 + n) % 4:
                idx += 1
                continue
            if tier == 'quick' and be == 'disk' and (idx * 5 + n) % 2:
                idx += 1
                continue
            for shape in ('map', 'seq', 'map-rev', 'seq-short', 'seq-long'):
                idx += 1
                if idx % nshards != shard:
                    continue
                if tier == 'quick' and be in ('redis', 'disk') and shape.startswith('seq-') and next(thin2) % 6:
                    continue
                cfg = {'backend': be, 'script': {'m0': script}, 'script_shape': shape, 'rcpts': (n, n),
                       'nmsg': 1, 'backoffs': [0, 0, 0, None], 'steps': 14, 'null_sender_p': 0.0,
                       'gate_p': 0.35 if (idx // 3) % 2 else 0.0, 'stratum': 'exh'}
                yield {'cfg': cfg, 'seed': seed * 1000003 + idx}
    thin = random.Random('c03-thin-%d' % seed)
    # the same address twice in the recipient list (RCPT TO repeated; no edge de-duplicates)
    for n, script in duplicate_scripts():
        for be in BACKENDS:
            if tier == 'quick' and be in ('redis', 'disk') and thin.random() < 0.9:
                continue
            for shape in ('map', 'map-rev'):
                idx += 1
                if idx % nshards != shard:
                    continue
                cfg = {'backend': be, 'script': {'m0': script}, 'script_shape': shape, 'rcpts': (n, n),
                       'dup_rcpts': 1 + idx % 5, 'nmsg': 1, 'backoffs': [0, 0, 0, None], 'steps': 14,
                       'null_sender_p': 0.0, 'gate_p': 0.0, 'stratum': 'dup'}
                yield {'cfg': cfg, 'seed': seed * 1000003 + idx}
    # three settling rounds (the marks of round 3 are relative to a list reduced twice)
    for n, script in three_round_scripts():
        for be in BACKENDS:
            keep = {'redis': 0.004, 'disk': 0.01}.get(be, 0.06) if tier == 'quick' else \
                {'redis': 0.03, 'disk': 0.1}.get(be, 1.0)
            shape = thin.choice(['map', 'seq', 'map-rev', 'seq-long'])
            if thin.random() >= keep:
                continue
            idx += 1
            if idx % nshards != shard:
                continue
            cfg = {'backend': be, 'script': {'m0': script}, 'script_shape': shape, 'rcpts': (n, n),
                   'nmsg': 1, 'backoffs': [0, 0, 0, 0, None], 'steps': 18, 'null_sender_p': 0.0,
                   'gate_p': 0.35 if idx % 2 else 0.0, 'stratum': 'exh3'}
            yield {'cfg': cfg, 'seed': seed * 1000003 + idx}
    rnd = random.Random('c03-%d-%d' % (seed, shard))
    plan = C.backend_plan(4000 if tier == 'quick' else 120000, BACKENDS)
    for be in BACKENDS:
        for i in range(max(1, plan[be] // nshards)):
            cfg = {'backend': be, 'stratum': 'rand',
                   'profile': rnd.choice([['map', 'map', 'seq', 'temp'], ['map', 'seq', 'ok', 'temp', 'exc'],
                                          ['map', 'map', 'perm']]),
                   'rcpt_profile': rnd.choice([['ok', 'temp', 'temp', 'perm'], ['ok', 'reply', 'temp'],
                                               ['temp', 'temp', 'perm', 'ok']]),
                   'backoffs': rnd.choice([[0, 0, 0, 0, None], [0, 5, 0, None], [5, 5, 5, None], [0, 0, None]]),
                   'rcpts': (2, 5), 'nmsg': rnd.randint(1, 3),
                   'store_pool': rnd.choice([None, None, 1, 2, 3]), 'relay_pool': rnd.choice([None, None, 1, 2]),
                   'gate_p': rnd.choice([0.0, 0.25, 0.5]), 'flush_p': rnd.choice([0, 0, 0.2]),
                   'seq_len_p': rnd.choice([0, 0.4]), 'pool_objects': rnd.random() < 0.25,
                   'synth_wait': rnd.random() < 0.6, 'announce_p': 0.4,
                   'prepop': rnd.choice([0, 0, 1, 2]), 'race_start': rnd.random() < 0.3,
                   'steps': rnd.choice([25, 40])}
            yield {'cfg': cfg, 'seed': rnd.randrange(1 << 40)}


    # ---- the real SMTP / LMTP / HTTP relays (with their connection pools) behind the probe, against scripted next
    # hops: what the Queue must not re-attempt is what the *real* relay classes reported as final (their own
    # exception hierarchy decides which branch of the Queue handles a failure)
    nreal = (150 if tier == 'quick' else 6000) // nshards
    for i in range(max(1, nreal)):
        cfg = {'backend': rnd.choice(['dict', 'dict', 'disk', 'cloud', 'redis']), 'stratum': 'real',
               'real_relay': rnd.choice(['smtp', 'lmtp', 'http']),
               'backoffs': rnd.choice([[0, 0, None], [0, 3, 0, None], [2, 2, 2, None]]),
               'rcpts': (1, 4), 'nmsg': rnd.randint(1, 3), 'null_sender_p': 0.2,
               'down_profile': ['ok', 'mail5', 'mail5', 'mail4', 'rcptmix', 'rcptmix', 'data5', 'data4', 'eod5', 'eod4',
                                'eodmix', 'close'],
               'relay_idle': rnd.choice([None, 0.5]), 'relay_pool_size': rnd.choice([None, 1, 2]), 'steps': 24}
        yield {'cfg': cfg, 'seed': rnd.randrange(1 << 40)}


def _hits(lab, H, R):
    per = {}
    for e in lab.events:
        if e[1] == 'attempt_start':
            per[e[2]] = per.get(e[2], 0) + 1
    R.hit('second-round-attempts', sum(1 for v in per.values() if v >= 2))
    if lab.cfg.get('real_relay'):
        R.hit('real-relay-histories')
        R.hit('real-relay-final-failures-observed', sum(1 for e in lab.events if e[1] == 'attempt_end'
                                                        for c, _ in e[5].values() if c == 'P'))
    # attempts that follow >= 2 delivered-marking calls of their message
    marks = {}
    third = short = long_ = dup = 0
    for e in lab.events:
        if e[1] == 'store' and e[2] == 'set_recipients_delivered':
            marks[H.sid(e[3])] = marks.get(H.sid(e[3]), 0) + 1
        elif e[1] == 'attempt_start' and H.m2id.get(e[2]) is not None and marks.get(H.sid(H.m2id[e[2]]), 0) >= 2:
            third += 1
        elif e[1] == 'attempt_end' and e[4] in ('seq', 'map'):
            cl = [c for c, _ in e[5].values()]
            if 'T' in cl or 'A' in cl:
                if e[4] == 'seq' and 'A' in cl:
                    short += 1
                if e[4] == 'seq' and len(e) > 7 and e[7] > 0:
                    long_ += 1
                if len(set(e[3])) < len(e[3]):
                    dup += 1
    R.hit('third-marking-round-attempts', third)
    R.hit('short-sequence-partial-rounds', short)
    R.hit('long-sequence-partial-rounds', long_)
    R.hit('duplicate-address-partial-rounds', dup)
    R.count('wait-announcements-consumed', sum(1 for e in lab.events if e[1] == 'store' and e[2] == 'wait'))


def _nontrivial(lab, H):
    partial = {}
    for e in lab.events:
        if e[1] == 'attempt_end' and e[4] in ('map', 'seq'):
            cl = set(c for c, _ in e[5].values())
            if 'T' in cl and len(cl) > 1:
                partial[e[2]] = partial.get(e[2], 0) + 1
    dup = any(e[1] == 'announce' and e[4] == 'dup' for e in lab.events)
    if any(v >= 2 for v in partial.values()) or dup:
        return (C.shape_of(lab), dup)
    return None


def _classify(lab, H, kind, m, d):
    be = lab.cfg.get('backend')
    crash = L.crash_tag(lab)
    if kind in ('resend', 'overlap') and C.outran_enqueue(lab, H, m):
        return '%s/%s/self-announcement-outran-enqueue' % (kind, be)
    if kind == 'resend' and all(d['attempt'][3].count(r) < _offered_before(lab, m, d['attempt'], r)
                                for r in d['recipients']):
        # every re-offered settled recipient is an address the message listed more than once and is now
        # offered fewer times than before: one position of it was marked, the other(s) were not
        return 'resend/duplicate-address-in-recipient-list-marked-once'
    if kind == 'resend':
        seq = lab.events.index(d['attempt'])
        nmark = C.marking_rounds_before(lab, H, m, seq)
        # was a delivered-marking call for this message still unfinished when the attempt's get() ran?
        pending = _mark_pending_at(lab, H, m, seq)
        prev = None
        for e in lab.events[:seq]:
            if e[1] == 'attempt_end' and e[2] == m:
                prev = e
        odd_len = prev is not None and prev[4] == 'seq' and \
            ((len(prev) > 7 and prev[7] > 0) or any(c == 'A' for c, _ in prev[5].values()))
        if crash != 'no-crash':
            why = crash
        elif odd_len:
            why = 'after-sequence-result-of-other-length-than-recipient-list'
        elif pending:
            why = 'marks-persisted-after-requeue'
        elif nmark >= 2:
            why = 'after-%s-marking-rounds(index-translation)' % ('2+')
        else:
            why = 'after-%d-marking-rounds' % nmark
        dupann = any(e[1] == 'store' and e[2] == 'wait' for e in lab.events[:seq])
        return 'resend/%s/%s%s' % (be, why, '/wait-announcement' if dupann and why.startswith('after-0') else '')
    if kind == 'overlap':
        ann = any(e[1] == 'store' and e[2] == 'wait' for e in lab.events)
        return 'overlap/%s/%s%s' % (be, crash, '/wait-announcement' if ann else '')
    return 'unclassified/%s/%s' % (kind, be)


def _offered_before(lab, m, attempt, r):
    """How many times address r appeared in the widest earlier attempt of message m."""
    n = 0
    for e in lab.events:
        if e is attempt:
            break
        if e[1] == 'attempt_start' and e[2] == m:
            n = max(n, e[3].count(r))
    return n


def _mark_pending_at(lab, H, m, seq):
    """True if the get() that fed this attempt returned before the marks of the previous
    attempt_end of the same message had been written."""
    id = H.sid(H.m2id.get(m))
    last_end = None
    for s in range(seq - 1, -1, -1):
        e = lab.events[s]
        if e[1] == 'attempt_end' and e[2] == m:
            last_end = s
            break
    if last_end is None:
        return False
    get_seq = None
    for s in range(seq - 1, last_end, -1):
        e = lab.events[s]
        if e[1] == 'store' and e[2] == 'get' and H.sid(e[3]) == id:
            get_seq = s
            break
    if get_seq is None:
        return False
    for s in range(last_end, get_seq):
        e = lab.events[s]
        if e[1] == 'store' and e[2] == 'set_recipients_delivered' and H.sid(e[3]) == id:
            return False
    return True


def run_case(case, R):
    C.run_lab_case(case, R, L.judge_c03, _classify, _nontrivial, _hits)


def shard_cleanup():
    C.cleanup()
