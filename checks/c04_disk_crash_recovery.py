"""C04 -- a crash at any point never loses an acknowledged message (disk queue).

Events that refute: a directory tree, reachable by killing the process between two
file-system effects of a DiskStorage operation, from which a FRESH DiskStorage / Queue
 * raises out of load(), or
 * does not list an acknowledged, not-yet-removed message, or
 * returns it with another sender / content / outstanding recipients / attempt count /
   retry timestamp than the acknowledged operations (+ optionally the one in flight) say, or
 * does not attempt it (with exactly those recipients) once a fresh Queue runs over it.

How crash states are produced: ONE un-killed run of the history executes the real
DiskStorage; the harness substitutes the module-level names the module performs its
file-system effects through (slimta.diskstorage.mkstemp, .aio_write, .os -> proxy whose
rename/remove/unlink/open-for-write are wrapped, .uuid -> deterministic stand-in) and
captures the complete contents of the three directories before and after every effect.
The process has no other durable state, so "killed before/after effect k" == "that tree".
The equivalence is cross-checked by really killing a child process (os._exit(137) inside
the k-th wrapper) and comparing the surviving tree file-for-file with capture k.

Recovery (fresh DiskStorage, fresh real slimta.queue.Queue with a recording Relay) runs
on a materialised copy of every distinct (tree, expectation) pair.
"""
if __name__ == '__main__':          # child mode of the real-kill cross-check
    import os as _os
    import sys as _sys
    _sys.path.insert(0, _os.path.dirname(_os.path.dirname(_os.path.abspath(__file__))))
    import warnings as _w
    _w.simplefilter('ignore')
    from vf import core as _core
    _core.setup_repo()

import os
import sys
import json
import pickle
import random
import shutil
import hashlib
import tempfile
import subprocess

import gevent
from gevent.event import Event

import slimta.diskstorage as D
import slimta.queue as Q
from slimta.queue import Queue, QueueStorage
from slimta.relay import Relay
from slimta.envelope import Envelope

from vf import core

PROPERTY = 'C04'
LEVEL = 'fault_enumeration'
LEVEL_TEXT = ('Real DiskStorage executes generated operation histories (1-3 messages, 4-12 operations, '
              'sequential and one-greenlet-per-message overlapping); the directory tree is captured before and '
              'after EVERY file-system effect (temp-file creation, each AIO chunk, rename, unlink) and at every '
              'operation boundary; every distinct (tree, acknowledged-state) pair is recovered by a fresh '
              'DiskStorage and a fresh real Queue (default pools on every state; store_pool 1 and 2, relay_pool 1, backlog-due-after-scan on every '
              'distinct env+meta content) and judged against the fold of the acknowledged operations. '
              'A sample of crash points is cross-checked with a really killed child process. Held = no '
              'enumerated crash state of the generated histories lost or corrupted an acknowledged message; '
              'not a proof for other histories, and silent about power loss.')
LEVEL_NOTE = ('Trusted: the tree capture/materialise pair (30 lines), the per-message store model (fold of '
              'acknowledged ops, 25 lines), the recording Relay and the quiescence rule of the fresh Queue. '
              'os.close changes no directory state and is therefore not a separate crash point. Recovery runs '
              'with the default AioFile.chunk_size (a fresh process would), the history with a lowered one.')
TECHNIQUE = ('runtime monitoring with exhaustive crash-point enumeration: snapshot-at-every-fs-effect, '
             'recovery oracle over fresh DiskStorage + Queue, real-kill (os._exit) equivalence cross-check')
RULE = ('case = one history: 1-3 messages x 4-12 operations from {write, increment_attempts, set_timestamp, '
        'set_recipients_delivered (once per message, proper subset of indexes), remove}, chunk size in '
        '{16,64,256}, mode sequential | overlapping greenlets (one per message, seeded yields), optional forced '
        'uuid collision with an existing id, write/retry timestamps all equal | ascending | descending per message '
        '(all in the past, so (timestamp, id) order of the restart backlog varies); every capture point of the history is one crash state, every '
        'distinct (tree bytes, expectation) is one evaluation (recovery). non-trivial & distinct = distinct '
        '(mode, operation, effect kind, target dir, before/after, ordinal of the effect inside the operation, '
        'number of acknowledged live messages) whose crash point lies strictly inside a multi-effect operation '
        '(>=1 effect done, >=1 still to come) while >=1 acknowledged live message is on disk')
ASSUMPTIONS = [
    'process death only: kernel buffers survive (the code never fsyncs; power loss / page-cache loss is out of reach)',
    'the only durable state of DiskStorage is the content of env_dir, meta_dir, tmp_dir (checked by the real-kill '
    'cross-check: surviving tree == capture k, tmp files compared by content)',
    'every durable effect of the module goes through mkstemp, aio_write, os.rename, os.remove/unlink or a writing '
    'os.open as looked up in slimta.diskstorage; an effect performed through another name would show up as a '
    'real-kill mismatch, not be silently missed',
    'operations on ONE message are never concurrent with each other (one greenlet per message); concurrent '
    'read-modify-write of one meta file is another property',
    'overlapping mode depends on AIO completion timing, so its interleavings are seeded but not bit-reproducible; '
    'the real-kill cross-check therefore samples sequential histories only',
    'a message whose write() had not returned, and a message whose remove() was in flight, need not be recoverable; '
    'messages whose remove() returned are not required to be absent (repeated delivery is allowed)',
    'timestamps are written in the past so a fresh Queue finds everything due at once (no virtual clock needed)',
    'fresh-Queue configurations: (store_pool, relay_pool) in {(None,None),(1,None),(2,None)} with a relay that '
    'records and holds the attempt, (None,1) with a relay that reports delivery, and store_pool None/1 with the '
    'whole backlog coming due right after the start-up scan (harness clock substituted for slimta.queue.time, '
    'scheduler woken through Queue.wake); both pools bounded is not '
    'run (known pool cycle, another property); a greenlet crash inside the fresh Queue is recorded in the '
    'witness and is a violation only through the attempts it prevents',
]
REQUIRED_HITS = ['recovery-judged', 'queue-attempts-judged', 'real-kill-compared']
SHARDS = {'quick': 8, 'thorough': 16}
BUDGET = {'quick': 50, 'thorough': 700}

NHIST = {'quick': 32, 'thorough': 608}
NKILLS = {'quick': 2, 'thorough': 4}
PY = '/venv/bin/python'
DIRS = ('env', 'meta', 'tmp')

_own_scratch = []
_crashes = []            # greenlet crashes reported by the hub (kept out of stderr)


def _hub_hook(context, type_, value, tb):
    _crashes.append('%s in %s' % (getattr(type_, '__name__', type_), core.short(repr(context), 120)))
    del _crashes[:-50]


def scratch_base():
    b = os.environ.get('VERIF_SCRATCH')
    if b and os.path.isdir(b):
        return b
    if not _own_scratch:
        _own_scratch.append(tempfile.mkdtemp(prefix='c04-own-'))
    return _own_scratch[0]


def shard_cleanup():
    while _own_scratch:
        shutil.rmtree(_own_scratch.pop(), ignore_errors=True)


# --------------------------------------------------------------------------- cases

def make_case(rnd, h, tier):
    nmsg = rnd.choice([1, 2, 2, 3, 3])
    msgs = []
    for i in range(nmsg):
        nr = rnd.randint(2, 4)
        blen = rnd.choice([0, 30, 120, 400, 1100])
        body = bytes(rnd.choice(b'abcdefgh \r\n\xe9\xff.') for _ in range(blen))
        msgs.append({'sender': 's%d.%d@from.example' % (h, i),
                     'rcpts': ['r%d.%d.%d@to.example' % (h, i, j) for j in range(nr)],
                     'body': body, 'subject': 'history %d message %d' % (h, i)})
    ops, written, gone, marked, nxt = [], [], set(), set(), 0
    target = rnd.randint(4, 12)
    tscheme = rnd.choice(['equal', 'equal', 'asc', 'desc'])
    while len(ops) < target:
        live = [m for m in written if m not in gone]
        ch = []
        if nxt < nmsg:
            ch += ['write'] * (2 if live else 1)
        if live:
            ch += ['inc', 'inc', 'ts', 'mark']
            if len(ops) >= 3 or len(live) > 1 or nxt < nmsg:
                ch += ['remove']
        if not ch:
            break
        kind = rnd.choice(ch)
        y = rnd.choice([0, 0, 1, 2, 5])
        if kind == 'write':
            ops.append([nxt, 'write', {'equal': 1.0, 'asc': 1.0 + nxt, 'desc': 9.0 - nxt}[tscheme], y])
            written.append(nxt)
            nxt += 1
            continue
        m = rnd.choice(live)
        if kind == 'inc':
            ops.append([m, 'inc', None, y])
        elif kind == 'ts':
            # past timestamps, equal to / below / above the other messages' ones
            ops.append([m, 'ts', rnd.choice([0.5, 1.0, 5.0, 2.0 + len(ops), 20.5 + len(ops)]), y])
        elif kind == 'mark':
            if m in marked:
                continue
            marked.add(m)
            n = len(msgs[m]['rcpts'])
            idx = sorted(rnd.sample(range(n), rnd.randint(1, n - 1)))
            if rnd.random() < 0.3:
                idx.reverse()
            ops.append([m, 'mark', idx, y])
        else:
            ops.append([m, 'remove', None, y])
            gone.add(m)
    mode = 'seq' if h % 2 == 0 else 'conc'
    return {'h': h, 'mode': mode, 'chunk': rnd.choice([16, 64, 64, 256]), 'msgs': msgs, 'ops': ops,
            'collide': rnd.random() < 0.35,
            'kills': sorted(rnd.random() for _ in range(NKILLS[tier])) if mode == 'seq' else []}


def gen_cases(tier, seed, shard, nshards):
    for h in range(NHIST[tier]):
        if h % nshards != shard:
            continue
        yield make_case(random.Random('c04-%d-%d' % (seed, h)), h, tier)


def build_envelope(m):
    e = Envelope(m['sender'], list(m['rcpts']))
    e.parse(b'From: <' + m['sender'].encode() + b'>\r\nSubject: ' + m['subject'].encode() +
            b'\r\nX-Pad: ' + b'p' * 20 + b'\r\n\r\n' + m['body'])
    e.client = {'ip': '192.0.2.7', 'name': 'client.example', 'protocol': 'ESMTP'}
    e.receiver = 'mx.example'
    e.timestamp = 1234567.0
    return e


def flat(env):
    h, b = env.flatten()
    return bytes(h) + bytes(b)


# --------------------------------------------------------------------------- tree capture

def read_tree(root):
    t = {}
    for d in DIRS:
        dd = {}
        p = os.path.join(root, d)
        for fn in sorted(os.listdir(p)):
            try:
                with open(os.path.join(p, fn), 'rb') as f:
                    dd[fn] = f.read()
            except (FileNotFoundError, IsADirectoryError):
                pass
        t[d] = dd
    return t


def write_tree(tree, root):
    for d in DIRS:
        os.makedirs(os.path.join(root, d))
        for fn, data in tree[d].items():
            with open(os.path.join(root, d, fn), 'wb') as f:
                f.write(data)


def tree_hash(tree):
    h = hashlib.blake2b(digest_size=12)
    for d in DIRS:
        for fn in sorted(tree[d]):
            h.update(('%s/%s:%d:' % (d, fn, len(tree[d][fn]))).encode())
            h.update(tree[d][fn])
    return h.hexdigest()


def tree_summary(tree):
    out = {}
    for d in DIRS:
        out[d] = {fn: (len(v) if d != 'meta' else {'len': len(v), 'bytes': v}) for fn, v in tree[d].items()}
    return out


def trees_equal(a, b):
    """names + bytes for env/meta; tmp files (random names) by content multiset."""
    diffs = []
    for d in ('env', 'meta'):
        if a[d] != b[d]:
            diffs.append('%s: snapshot %s vs killed %s' % (
                d, {k: len(v) for k, v in a[d].items()}, {k: len(v) for k, v in b[d].items()}))
    if sorted(a['tmp'].values()) != sorted(b['tmp'].values()):
        diffs.append('tmp: snapshot sizes %s vs killed sizes %s' % (
            sorted(len(v) for v in a['tmp'].values()), sorted(len(v) for v in b['tmp'].values())))
    return diffs


# --------------------------------------------------------------------------- instrumentation

class OpCtx(object):
    def __init__(self, seq, m, kind, arg):
        self.seq, self.m, self.kind, self.arg = seq, m, kind, arg
        self.effects = 0          # durable effects completed so far
        self.total = None         # known once the op returned


class Tracer(object):
    """Numbers the capture points; parent mode captures the tree at each, child mode kills at one."""

    def __init__(self, root, expect_fn=None, kill_at=None):
        self.root = root
        self.expect_fn = expect_fn
        self.kill_at = kill_at
        self.n = 0
        self.snaps = []
        self.ctx = {}

    def current(self):
        return self.ctx.get(gevent.getcurrent())

    def boundary(self, phase, effect, target):
        k = self.n
        self.n += 1
        if self.kill_at is not None:
            if k == self.kill_at:
                os._exit(137)
            return
        op = self.current()
        self.snaps.append({'k': k, 'tree': read_tree(self.root), 'phase': phase, 'effect': effect,
                           'target': target, 'op': op, 'done': op.effects if op else 0,
                           'expect': self.expect_fn()})

    def effect_done(self, op):
        if op is not None:
            op.effects += 1


class FakeUuid(object):
    """Deterministic stand-in for the uuid module (same ids in the parent and the killed child);
    can force one collision with an id whose write was already acknowledged."""

    class _U(object):
        def __init__(self, hex_):
            self.hex = hex_

    def __init__(self, tag, collide):
        self.tag, self.n, self.collide = tag, 0, collide
        self.acked_ids = []
        self.collisions = 0

    def uuid4(self):
        if self.collide and self.acked_ids and self.collisions == 0:
            self.collisions += 1
            return self._U(self.acked_ids[-1])
        self.n += 1
        return self._U(hashlib.md5(('%s-%d' % (self.tag, self.n)).encode()).hexdigest())


def _target_of(root, path):
    try:
        rel = os.path.relpath(os.path.abspath(path), root)
    except ValueError:
        return 'other'
    top = rel.split(os.sep)[0]
    return top if top in DIRS else 'other'


class OsProxy(object):
    """Stands in for the name `os` inside slimta.diskstorage only."""

    def __init__(self, tracer):
        self._t = tracer

    def __getattr__(self, name):
        return getattr(os, name)

    def rename(self, a, b):
        t, op = self._t, self._t.current()
        tgt = _target_of(t.root, b)
        t.boundary('before', 'rename', tgt)
        r = os.rename(a, b)
        t.effect_done(op)
        t.boundary('after', 'rename', tgt)
        return r

    replace = rename

    def remove(self, p):
        t, op = self._t, self._t.current()
        tgt = _target_of(t.root, p)
        t.boundary('before', 'remove', tgt)
        r = os.remove(p)           # raises if absent: then no effect happened, no 'after'
        t.effect_done(op)
        t.boundary('after', 'remove', tgt)
        return r

    unlink = remove

    def open(self, path, flags, *a, **kw):
        if not flags & (os.O_WRONLY | os.O_RDWR | os.O_CREAT | os.O_TRUNC | os.O_APPEND):
            return os.open(path, flags, *a, **kw)
        t, op = self._t, self._t.current()
        tgt = _target_of(t.root, path)
        t.boundary('before', 'open-w', tgt)
        r = os.open(path, flags, *a, **kw)
        t.effect_done(op)
        t.boundary('after', 'open-w', tgt)
        return r


class Installed(object):
    """Substitutes the module-level names of slimta.diskstorage; always restored."""

    def __init__(self, tracer, chunk, fake_uuid):
        self.t, self.chunk, self.fu = tracer, chunk, fake_uuid

    def __enter__(self):
        t = self.t
        self.saved = (D.mkstemp, D.aio_write, D.os, D.uuid, D.AioFile.chunk_size)
        o_mkstemp, o_aio_write = D.mkstemp, D.aio_write

        def mkstemp(*a, **kw):
            op = t.current()
            t.boundary('before', 'mkstemp', 'tmp')
            r = o_mkstemp(*a, **kw)
            t.effect_done(op)
            t.boundary('after', 'mkstemp', 'tmp')
            return r

        def aio_write(fd, piece, offset, cb):
            op = t.current()
            try:
                tgt = _target_of(t.root, os.readlink('/proc/self/fd/%d' % fd))
            except OSError:
                tgt = 'other'
            t.boundary('before', 'chunk', tgt)

            def cb2(ret, errno):
                # runs as a pending call at an arbitrary point of the main thread: no capture
                # here; the state "after this chunk" is captured at the op's next boundary
                if ret > 0:
                    t.effect_done(op)
                cb(ret, errno)
            return o_aio_write(fd, piece, offset, cb2)

        D.mkstemp, D.aio_write, D.os, D.uuid = mkstemp, aio_write, OsProxy(t), self.fu
        D.AioFile.chunk_size = self.chunk
        return self

    def __exit__(self, *exc):
        D.mkstemp, D.aio_write, D.os, D.uuid, D.AioFile.chunk_size = self.saved
        return False


# --------------------------------------------------------------------------- history + model

def new_model(case):
    return [{'state': 'unwritten', 'id': None, 'att': 0, 'ts': None, 'deliv': [], 'inflight': None}
            for _ in case['msgs']]


def model_ack(st, kind, arg, result):
    """Fold one ACKNOWLEDGED operation into the per-message model."""
    if kind == 'write':
        st.update(state='live', id=result, att=0, ts=arg, deliv=[])
    elif kind == 'inc':
        st['att'] += 1
    elif kind == 'ts':
        st['ts'] = arg
    elif kind == 'mark':
        st['deliv'] = st['deliv'] + list(arg)
    elif kind == 'remove':
        st['state'] = 'removed'
    st['inflight'] = None


def run_history(case, root, tracer, model, problems):
    """Execute the history against the real DiskStorage. Used by the parent (capturing) and by
    the killed child (counting)."""
    store = D.DiskStorage(os.path.join(root, 'env'), os.path.join(root, 'meta'), os.path.join(root, 'tmp'))
    fu = FakeUuid('h%d' % case['h'], case.get('collide'))
    envs = [build_envelope(m) for m in case['msgs']]
    dead = set()

    def do_op(seq, m, kind, arg, yields):
        if m in dead:
            return
        for _ in range(yields):
            gevent.sleep(0)
        st = model[m]
        op = OpCtx(seq, m, kind, arg)
        tracer.ctx[gevent.getcurrent()] = op
        st['inflight'] = [kind, arg]
        tracer.boundary('op', 'start', '-')
        try:
            if kind == 'write':
                res = store.write(envs[m], arg)
            elif kind == 'inc':
                res = store.increment_attempts(st['id'])
            elif kind == 'ts':
                res = store.set_timestamp(st['id'], arg)
            elif kind == 'mark':
                res = store.set_recipients_delivered(st['id'], list(arg))
            else:
                res = store.remove(st['id'])
        except Exception as e:
            # not acknowledged: its effect is unknown for good; nothing more is demanded of m
            problems.append('%s(m%d) raised %s: %s' % (kind, m, type(e).__name__, e))
            st['state'] = 'unknown'
            dead.add(m)
            tracer.boundary('op', 'raised', '-')
            return
        # ---- acknowledged (no yield between the return and this bookkeeping)
        model_ack(st, kind, arg, res)
        if kind == 'write':
            fu.acked_ids.append(res)
        op.total = op.effects
        tracer.boundary('op', 'return', '-')
        tracer.ctx.pop(gevent.getcurrent(), None)

    with Installed(tracer, case['chunk'], fu):
        if case['mode'] == 'seq':
            for seq, (m, kind, arg, y) in enumerate(case['ops']):
                do_op(seq, m, kind, arg, y)
        else:
            per = {}
            for seq, (m, kind, arg, y) in enumerate(case['ops']):
                per.setdefault(m, []).append((seq, m, kind, arg, y))

            def worker(lst):
                for o in lst:
                    do_op(*o)
            gs = [gevent.spawn(worker, lst) for _, lst in sorted(per.items())]
            try:
                gevent.joinall(gs, raise_error=True)
            finally:
                gevent.killall(gs)
    return fu


# --------------------------------------------------------------------------- recovery oracle

class RecRelay(Relay):
    """Records every attempt a fresh Queue makes; then either holds it (no further store
    traffic) or reports it delivered (the Queue then removes the message from the copy)."""

    def __init__(self, deliver=False):
        super(RecRelay, self).__init__()
        self.attempts = []
        self.greenlets = []
        self.hold = Event()
        self.deliver = deliver

    def attempt(self, envelope, attempts):
        self.attempts.append({'sender': envelope.sender, 'rcpts': list(envelope.recipients),
                              'content': flat(envelope), 'attempts': attempts})
        if self.deliver:
            return None
        self.greenlets.append(gevent.getcurrent())
        self.hold.wait()


# Configurations of the fresh Queue. 'default' runs on every judged crash state, the others on every
# distinct (env+meta content, expectation).  A bounded store pool makes _load_all finish before the
# scheduler's first pass, so the whole backlog is dispatched as ONE ready batch in (timestamp, id) order.
# (relay_pool=1 only with a delivering relay and an unbounded store pool: a holding relay would starve
# it by construction, and both pools bounded is the known pool cycle of another property.)
# 'late' = the backlog comes due only after the start-up scan has finished: slimta.queue.time is
# substituted by a harness clock that stands before every stored timestamp while the Queue loads and
# is then moved past all of them (the scheduler is woken through its own `wake` event, exactly what the
# expiry of its timed wait does).  The whole backlog is then ONE ready batch in (timestamp, id) order --
# the restart of a queue whose retry times lie shortly ahead.
QUEUE_CONFIGS = [
    ('default', {}, False, False),
    ('store_pool=1', {'store_pool': 1}, False, False),
    ('store_pool=2', {'store_pool': 2}, False, False),
    ('relay_pool=1', {'relay_pool': 1}, True, False),
    ('due-after-scan', {}, False, True),
    ('due-after-scan,store_pool=1', {'store_pool': 1}, False, True),
]


class HarnessClock(object):
    def __init__(self, now):
        self.now = now

    def time(self):
        return self.now


class ProbeStore(QueueStorage):
    """Delegating wrapper around the fresh DiskStorage: in-progress counter for quiescence."""

    def __init__(self, inner):
        super(ProbeStore, self).__init__()
        self.inner = inner
        self.inprogress = 0
        self.load_done = False
        self.errors = []

    def load(self):
        self.inprogress += 1
        try:
            for e in self.inner.load():
                yield e
        except Exception as e:
            self.errors.append('load: %s: %s' % (type(e).__name__, e))
            raise
        finally:
            self.inprogress -= 1
            self.load_done = True

    def _call(self, name, *a):
        self.inprogress += 1
        try:
            return getattr(self.inner, name)(*a)
        except Exception as e:
            self.errors.append('%s%r: %s: %s' % (name, a[:1], type(e).__name__, e))
            raise
        finally:
            self.inprogress -= 1

    def get(self, id):
        return self._call('get', id)

    def write(self, envelope, timestamp):
        return self._call('write', envelope, timestamp)

    def set_timestamp(self, id, timestamp):
        return self._call('set_timestamp', id, timestamp)

    def increment_attempts(self, id):
        return self._call('increment_attempts', id)

    def set_recipients_delivered(self, id, idx):
        return self._call('set_recipients_delivered', id, idx)

    def remove(self, id):
        return self._call('remove', id)


def allowed(msg, st):
    """What the acknowledged operations (+ optionally the one in flight) permit for a live message."""
    inf = st['inflight'] or [None, None]
    atts = {st['att']} | ({st['att'] + 1} if inf[0] == 'inc' else set())
    tss = {st['ts']} | ({inf[1]} if inf[0] == 'ts' else set())
    rc = [[r for i, r in enumerate(msg['rcpts']) if i not in st['deliv']]]
    if inf[0] == 'mark':
        both = set(st['deliv']) | set(inf[1])
        rc.append([r for i, r in enumerate(msg['rcpts']) if i not in both])
    return atts, tss, rc


def required(st):
    return st['state'] == 'live' and (st['inflight'] or [None])[0] not in ('remove', 'write')


def disk_class(tree, id_):
    def one(d, ext):
        data = tree[d].get(id_ + ext)
        if data is None:
            return 'absent'
        try:
            pickle.loads(data)
            return 'ok'
        except Exception:
            return 'unpicklable'
    return 'env-%s,meta-%s' % (one('env', '.env'), one('meta', '.meta'))


def tree_class(tree):
    a = set()
    envs = set(fn[:-4] for fn in tree['env'] if fn.endswith('.env'))
    metas = set(fn[:-5] for fn in tree['meta'] if fn.endswith('.meta'))
    if envs - metas:
        a.add('env-without-meta')
    if metas - envs:
        a.add('meta-without-env')
    for d, tag in (('env', 'unpicklable-env'), ('meta', 'unpicklable-meta')):
        for v in tree[d].values():
            try:
                pickle.loads(v)
            except Exception:
                a.add(tag)
    return '+'.join(sorted(a)) or 'clean-tree'


def queue_phase(paths, expect, msgs, need, contents, kw, deliver, late, R):
    """One fresh real Queue (given pool configuration) over a fresh DiskStorage on `paths`.
    Returns [(clause, m, detail)] or None when the watchdog fired."""
    out = []
    probe = ProbeStore(D.DiskStorage(*paths))
    relay = RecRelay(deliver)
    q = Queue(probe, relay, **kw)
    ncr = len(_crashes)
    want = set(msgs[m]['sender'] for m in need)

    clock = HarnessClock(0.0)

    def phase2():
        q.start()
        if late:
            # nothing is due yet: let the start-up scan finish, then make everything due at once
            stable = 0
            while stable < 10:
                gevent.sleep(0.0005)
                gevent.idle()
                stable = stable + 1 if (probe.load_done and probe.inprogress == 0) else 0
            clock.now = 1e9
            q.wake.set()
        stable = 0
        while stable < 25:
            gevent.sleep(0.0005)
            gevent.idle()
            if probe.load_done and probe.inprogress == 0:
                if want <= set(a['sender'] for a in relay.attempts):
                    return
                stable += 1
            else:
                stable = 0

    def drain():
        # a delivering relay makes the Queue remove messages: let those calls finish
        n = 0
        while n < 5:
            gevent.sleep(0.0005)
            gevent.idle()
            n = n + 1 if probe.inprogress == 0 else 0
    saved_time = Q.time
    if late:
        Q.time = clock
    try:
        w, _ = core.watchdog_call(phase2, 30)
        if w == 'ok' and deliver:
            w, _ = core.watchdog_call(drain, 30)
    finally:
        q.kill()
        gevent.killall(relay.greenlets)
        Q.time = saved_time
    if w != 'ok':
        R.inconclusive('watchdog: fresh Queue %r did not become quiescent in 30 s' % (kw,))
        return None
    R.hit('queue-attempts-judged')
    crashes = _crashes[ncr:]
    side = {'queue_kwargs': kw, 'store_errors': probe.errors[:4], 'greenlet_crashes': crashes[:4]}
    if crashes:
        R.count('fresh-queue-greenlet-crashes', len(crashes))
    for m in need:
        st = expect[m]
        atts, tss, rcs = allowed(msgs[m], st)
        mine = [a for a in relay.attempts if a['sender'] == msgs[m]['sender']]
        if not mine:
            out.append(('queue-not-attempted', m,
                        dict(side, attempted=[a['sender'] for a in relay.attempts])))
            continue
        for a in mine:
            bad = []
            if a['rcpts'] not in rcs:
                bad.append('recipients')
            if a['attempts'] not in atts:
                bad.append('attempts')
            if a['content'] != contents[m]:
                bad.append('content')
            if bad:
                out.append(('queue-attempt-wrong-' + '+'.join(bad), m,
                            dict(side, got_rcpts=a['rcpts'], allowed_rcpts=rcs,
                                 got_attempts=a['attempts'], allowed_attempts=sorted(atts))))
                break
        if len(mine) > 1:
            R.count('message-attempted-more-than-once-by-fresh-queue')
    return out


def recover(tree, expect, case, R, where, all_configs=True):
    """Run the recovery oracle on one crash state. Returns a list of
    (clause, message-index-or-None, detail)."""
    out = []
    msgs = case['msgs']
    base = tempfile.mkdtemp(prefix='rec-', dir=where)
    root = os.path.join(base, 't')
    write_tree(tree, root)
    paths = [os.path.join(root, d) for d in DIRS]
    need = [m for m, st in enumerate(expect) if required(st)]
    contents = {m: flat(build_envelope(msgs[m])) for m in need}
    try:
        # ---- phase 1: fresh DiskStorage: load() and get()
        store = D.DiskStorage(*paths)

        def phase1():
            try:
                loaded = list(store.load())
            except Exception as e:
                return ('load-raises', '%s: %s' % (type(e).__name__, e))
            got = {}
            ids = dict((i, t) for t, i in loaded)
            for m in need:
                i = expect[m]['id']
                if i in ids:
                    try:
                        env, att = store.get(i)
                        got[m] = (ids[i], env.sender, flat(env), list(env.recipients), att)
                    except Exception as e:
                        got[m] = '%s: %s' % (type(e).__name__, e)
            return ('ok', ids, got)
        w, res = core.watchdog_call(phase1, 30)
        if w != 'ok':
            R.inconclusive('watchdog: load()/get() of the fresh DiskStorage did not finish in 30 s')
            return out
        if res[0] == 'load-raises':
            R.hit('recovery-judged')
            out.append(('load-raises', None, {'exception': res[1]}))
            return out
        _, ids, got = res
        R.hit('recovery-judged')
        for m in need:
            st = expect[m]
            atts, tss, rcs = allowed(msgs[m], st)
            if st['id'] not in ids:
                out.append(('lost-message', m, {'listed_ids': sorted(ids)}))
                continue
            g = got[m]
            if isinstance(g, str):
                out.append(('get-raises', m, {'exception': g}))
                continue
            ts, sender, content, rcpts, att = g
            if sender != msgs[m]['sender']:
                out.append(('sender-changed', m, {'got': sender}))
            if content != contents[m]:
                out.append(('content-changed', m, {'got': content, 'want': contents[m]}))
            if rcpts not in rcs:
                out.append(('recipients-wrong', m, {'got': rcpts, 'allowed': rcs}))
            if att not in atts:
                out.append(('attempts-wrong', m, {'got': att, 'allowed': sorted(atts)}))
            if ts not in tss:
                out.append(('timestamp-wrong', m, {'got': ts, 'allowed': sorted(tss)}))

        # ---- phase 2: a fresh real Queue over a fresh DiskStorage resumes retrying
        failed = {}           # (clause, m) -> [config names], first detail
        for name, kw, deliver, late in (QUEUE_CONFIGS if all_configs else QUEUE_CONFIGS[:1]):
            if name == 'default':
                croot = root
            else:
                croot = os.path.join(base, 'q-' + name.replace('=', '').replace(',', '-'))
                write_tree(tree, croot)
            res = queue_phase([os.path.join(croot, d) for d in DIRS], expect, msgs, need, contents,
                              kw, deliver, late, R)
            if res is None:
                continue
            R.count('fresh-queue-runs[%s]' % name)
            for clause, m, detail in res:
                e = failed.setdefault((clause, m), [[], detail])
                e[0].append(name)
        for (clause, m), (names, detail) in sorted(failed.items(), key=repr):
            out.append((clause, m, dict(detail, queue_configs_failing=names,
                                        queue_configs_run=[c[0] for c in QUEUE_CONFIGS] if all_configs
                                        else ['default'])))
        return out
    finally:
        shutil.rmtree(base, ignore_errors=True)


# --------------------------------------------------------------------------- the check

CLAUSES = ('load-raises', 'lost-message', 'get-raises', 'sender-changed', 'content-changed',
           'recipients-wrong', 'attempts-wrong', 'timestamp-wrong', 'queue-not-attempted')


def crash_label(s):
    op = s['op']
    kind = op.kind if op else 'idle'
    if s['phase'] == 'op':            # operation boundary: before the first / after the last effect
        return '%s:%s' % (kind, {'start': 'not-started', 'return': 'returned'}.get(s['effect'], s['effect']))
    return '%s:%s-%s-%s' % (kind, s['phase'], s['effect'], s['target'])


def report(R, case, s, found, origin):
    """mechanism = <oracle clause>/<operation(s) in flight that matter>/<state of the victim's files>;
    the exact crash point (effect kind, target, ordinal) goes into the witness, not the mechanism."""
    tree, expect = s['tree'], s['expect']
    for clause, m, detail in found:
        op = s['op']
        culprit = crash_label(s)
        if m is None:
            # load() raised: the culprits are the listed ids (env present) whose meta is not loadable
            kinds, classes = set(), set()
            for fn in tree['env']:
                if not fn.endswith('.env'):
                    continue
                cls = disk_class(tree, fn[:-4]).split(',')[1]
                if cls == 'meta-ok':
                    continue
                classes.add(cls)
                owner = [st for st in expect if st['id'] == fn[:-4] and st['state'] == 'live']
                if not owner:
                    kinds.add('unacked-write')
                else:
                    kinds.add((owner[0]['inflight'] or ['no-op'])[0])
            if not classes:
                classes = {tree_class(tree)}
                kinds = set(st['inflight'][0] for st in expect if st['inflight']) or {'no-op'}
            situation = 'during-' + '+'.join(sorted(kinds))
            dc = '+'.join(sorted(classes)) + '(%s)' % detail.get('exception', '?').split(':')[0]
        else:
            dc = disk_class(tree, expect[m]['id'])
            inf = expect[m]['inflight']
            if inf:
                situation = 'during-' + inf[0]
            else:
                kinds = sorted(set(st['inflight'][0] for st in expect if st['inflight']))
                situation = ('victim-idle-during-' + '+'.join(kinds) + '-of-other-message') if kinds \
                    else 'no-op-in-flight'
        failing = detail.get('queue_configs_failing') if isinstance(detail, dict) else None
        if failing and (clause in CLAUSES or clause.startswith('queue-attempt-wrong-')):
            # which Queue configurations lose it: the default one (then any), or only bounded pools
            cls = sorted(set('backlog-due-together' if n.startswith('due-after-scan') else
                             'bounded-store-pool' if n.startswith('store_pool') else
                             'bounded-relay-pool' if n.startswith('relay_pool') else n for n in failing))
            cfg = 'any-queue-config' if 'default' in failing else 'only-' + '+'.join(cls)
            mech = '%s/%s/%s/%s' % (clause, cfg, situation, dc)
        elif clause in CLAUSES or clause.startswith('queue-attempt-wrong-'):
            mech = '%s/%s/%s' % (clause, situation, dc)
        else:
            mech = 'unclassified/%s' % clause
        what = ('%s: crash point k=%d (%s, %d effect(s) of the op done), message %s, mode %s'
                % (clause, s['k'], culprit, s['done'], 'm%s' % m if m is not None else '-', case['mode']))
        R.violation(mech, what, {
            'origin': origin, 'k': s['k'], 'crash_point': culprit,
            'op_in_flight_at_crash_point': None if op is None else [op.seq, op.m, op.kind, op.arg],
            'victim_message': m, 'expectation': expect, 'clause_detail': detail,
            'tree': tree_summary(tree), 'tree_class': tree_class(tree)})


def run_case(case, R):
    hub = gevent.get_hub()
    if getattr(hub, 'print_exception', None) is not _hub_hook:
        hub.print_exception = _hub_hook
    where = tempfile.mkdtemp(prefix='c04-h%d-' % case['h'], dir=scratch_base())
    try:
        _run_case(case, R, where)
    finally:
        shutil.rmtree(where, ignore_errors=True)


def _run_case(case, R, where):
    root = os.path.join(where, 'live')
    for d in DIRS:
        os.makedirs(os.path.join(root, d))
    model = new_model(case)
    problems = []
    tracer = Tracer(root, expect_fn=lambda: [dict(st, deliv=list(st['deliv'])) for st in model])

    w, fu = core.watchdog_call(lambda: run_history(case, root, tracer, model, problems), 90)
    if w != 'ok':
        R.inconclusive('watchdog: the un-killed history did not finish in 90 s')
        return
    if problems:
        R.inconclusive('an operation raised in the un-killed run: ' + core.short('; '.join(problems), 200))
    if fu.collisions:
        R.count('forced-uuid-collisions', fu.collisions)
    R.count('histories-' + case['mode'])
    snaps = tracer.snaps
    R.count('snapshots', len(snaps))

    seen, seen2 = set(), set()
    sampled = False
    for s in snaps:
        op, expect = s['op'], s['expect']
        nlive = sum(1 for st in expect if required(st))
        inside = bool(op is not None and op.total is not None and s['phase'] in ('before', 'after')
                      and 1 <= s['done'] < op.total)
        if op is not None:
            R.observe('crash-point(op,phase,effect,target,ordinal)',
                      (op.kind, s['phase'], s['effect'], s['target'], min(s['done'], 60)))
        if inside:
            R.count('snapshots-strictly-inside-op')
            if nlive >= 1:
                R.nontrivial((case['mode'], op.kind, s['phase'], s['effect'], s['target'],
                              min(s['done'], 60), min(nlive, 3)))
        if case['mode'] == 'conc':
            nin = sum(1 for st in expect if st['inflight'])
            if nin > 1:
                R.count('snapshots-with-several-ops-in-flight')
                R.observe('overlap(ops in flight)', tuple(sorted(st['inflight'][0] for st in expect
                                                                 if st['inflight'])))
        th = tree_hash(s['tree'])
        R.observe('distinct-trees', (case['h'], th))
        key = (th, core.jdumps(expect))
        if key in seen:
            R.count('snapshots-deduplicated(same tree+expectation as an earlier one)')
            continue
        seen.add(key)
        # the extra Queue configurations depend on env+meta only (tmp is never read back)
        key2 = (tree_hash(dict(s['tree'], tmp={})), key[1])
        extra = key2 not in seen2
        seen2.add(key2)
        if extra:
            R.count('crash-states-judged-under-all-queue-configs')
        R.eval()
        found = recover(s['tree'], expect, case, R, where, all_configs=extra)
        if found:
            report(R, case, s, found, 'snapshot')
        elif inside and nlive and not sampled:
            sampled = True
            R.sample({'h': case['h'], 'mode': case['mode'], 'ops': case['ops'], 'k': s['k'],
                      'of': len(snaps), 'crash_point': crash_label(s), 'effects_done': s['done'],
                      'tree': {d: {fn: len(v) for fn, v in s['tree'][d].items()} for d in DIRS},
                      'recovered_ok': [st['id'] for st in expect if required(st)]})

    # ---- real-kill cross-check (sequential histories: boundary numbering is deterministic)
    if case['mode'] == 'seq' and not problems:
        for frac in case.get('kills', []):
            k = min(len(snaps) - 1, int(frac * len(snaps)))
            real_kill(case, k, snaps[k], R, where)


def real_kill(case, k, s, R, where):
    kdir = tempfile.mkdtemp(prefix='kill-', dir=where)
    kroot = os.path.join(kdir, 'live')
    for d in DIRS:
        os.makedirs(os.path.join(kroot, d))
    cfile = os.path.join(kdir, 'case.json')
    with open(cfile, 'w') as f:
        f.write(core.jdumps(case))
    try:
        p = subprocess.run([PY, os.path.abspath(__file__), '--child', cfile, kroot, str(k)],
                           timeout=120, stdout=subprocess.PIPE, stderr=subprocess.STDOUT)
    except subprocess.TimeoutExpired:
        R.inconclusive('real-kill child timed out')
        return
    if p.returncode != 137:
        R.inconclusive('real-kill child did not die at the kill point (rc=%s): %s'
                       % (p.returncode, p.stdout[-200:].decode('utf-8', 'replace')))
        return
    R.eval()
    killed = read_tree(kroot)
    R.hit('real-kill-compared')
    R.count('real-kills')
    diffs = trees_equal(s['tree'], killed)
    if diffs:
        R.violation('equivalence/real-kill-tree-differs-from-snapshot/' + crash_label(s),
                    'HARNESS EQUIVALENCE (not a slimta defect by itself): tree surviving a real os._exit at '
                    'capture point k=%d differs from capture k' % k,
                    {'k': k, 'crash_point': crash_label(s), 'diffs': diffs,
                     'snapshot': tree_summary(s['tree']), 'killed': tree_summary(killed)})
    found = recover(killed, s['expect'], case, R, where)
    if found:
        report(R, case, dict(s, tree=killed), found, 'real-kill')
    shutil.rmtree(kdir, ignore_errors=True)


def child_main(argv):
    with open(argv[0]) as f:
        case = core.jdec(json.load(f))
    root, k = argv[1], int(argv[2])
    tracer = Tracer(root, kill_at=k)
    model = new_model(case)
    t = gevent.Timeout(90)
    t.start()
    run_history(case, root, tracer, model, [])
    os._exit(3)        # kill point never reached


if __name__ == '__main__':
    if len(sys.argv) >= 5 and sys.argv[1] == '--child':
        child_main(sys.argv[2:])
    sys.exit(2)
