"""C04 -- a crash at any point never loses an acknowledged message (disk queue).

Events that refute: a directory tree, reachable by killing the process between two
file-system effects of a DiskStorage operation, from which a FRESH DiskStorage / Queue
 * raises out of load(), or
 * does not list an acknowledged, not-yet-removed message, or
 * returns it with another sender / content / outstanding recipients / attempt count /
   retry timestamp than the acknowledged operations (+ optionally the one in flight) say, or
 * does not attempt it (with exactly those recipients) once a fresh Queue runs over it.

How crash states are produced: ONE un-killed run of the history executes the real
DiskStorage; for its duration the harness wraps the file-system effects at their home modules
(os.rename/replace/unlink/remove/link/open-for-writing/truncate/write, builtins.open for writing,
tempfile.mkstemp, pyaio.aio_write -- by effect, whatever name the module calls them by; uuid ->
deterministic stand-in when the module has it) and
captures the complete contents of the three directories before and after every effect.
The process has no other durable state, so "killed before/after effect k" == "that tree".
The equivalence is cross-checked by really killing child processes with SIGKILL:
 (a) inside the k-th wrapper (os.kill(getpid(), SIGKILL)): the surviving tree must equal capture k
     file-for-file;
 (b) from outside, at an instant no instrumentation chose, while the child runs the history with the
     module's own mkstemp/aio_write/os/uuid and journals op start/ack on a pipe: the surviving tree is
     recovered against the fold of the journal;
and by effect accounting (sequential histories: the tree changes only across instrumented effects;
an escaping effect makes the history inconclusive and is decided by 40 outside SIGKILLs).

Histories are direct storage calls or are produced by the real Queue (enqueue + scripted relay double).

Recovery (fresh DiskStorage, fresh real slimta.queue.Queue with a recording Relay; one configuration
fails the first attempt so that the fresh Queue really *resumes retrying*) runs on a materialised copy
of every distinct (tree, expectation) pair.
"""
if __name__ == '__main__':          # child mode of the real-kill cross-check
    import os as _os
    import sys as _sys
    _sys.path.insert(0, _os.path.dirname(_os.path.dirname(_os.path.abspath(__file__))))
    import warnings as _w
    _w.simplefilter('ignore')
    from vf import core as _core
    _core.setup_repo()

import os
import sys
import json
import pickle
import random
import shutil
import hashlib
import errno
import tempfile
import subprocess
import signal
import select
import time
import io
import uuid as _uuid_module
import builtins

import gevent
from gevent.event import Event

import slimta.diskstorage as D
import slimta.queue as Q
from slimta.queue import Queue, QueueStorage
from slimta.relay import Relay, TransientRelayError, PermanentRelayError
from slimta.envelope import Envelope

from vf import core

try:
    import pyaio as _pyaio
except ImportError:          # pragma: no cover
    _pyaio = None

# the harness's own file access never goes through the (temporarily wrapped) public names
_real_open = builtins.open
_os_write = os.write
_os_kill = os.kill
_os_listdir = os.listdir
_os_unlink = os.unlink
_os_readlink = os.readlink

PROPERTY = 'C04'
LEVEL = 'fault_enumeration'
LEVEL_TEXT = ('Real DiskStorage executes generated operation histories: direct storage calls (1-3 messages, 4-12 '
              'operations, sequential and one-greenlet-per-message overlapping, several marking rounds per message) '
              'and histories produced by the REAL Queue (enqueue + a relay double with scripted per-attempt outcomes: '
              'transient / unexpected exception / permanent / per-recipient mappings / delivered / give-up, so the '
              'operation orders are the Queue\'s own: write; increment_attempts, set_timestamp[, '
              'set_recipients_delivered]; remove). The directory tree is captured before and '
              'after EVERY file-system effect (temp-file creation, each AIO chunk, rename, unlink) and at every '
              'operation boundary; every distinct (tree, acknowledged-state) pair is recovered by a fresh '
              'DiskStorage and a fresh real Queue (default pools on every state; a retrying relay -- first attempt '
              'fails, so the fresh Queue updates the recovered files and must attempt again --, store_pool 1 and 2, '
              'relay_pool 1, backlog-due-after-scan on every '
              'distinct env+meta content) and judged against the fold of the acknowledged operations. '
              'Cross-checks with really SIGKILLed child processes: (a) at sampled capture points (tree must equal '
              'the capture), (b) from outside at un-instrumented instants of an un-instrumented run (all modes, '
              'AIO possibly in flight; expectation from an op start/ack journal on a pipe); sequential histories '
              'are also effect-accounted (no tree change without an instrumented effect). Held = no '
              'enumerated crash state of the generated histories lost or corrupted an acknowledged message; '
              'not a proof for other histories, and silent about power loss.')
LEVEL_NOTE = ('Crash model = the statement\'s "the process dies" (kill -9): every completed system call survives, '
              'kernel buffers are not lost; the code never fsyncs, so a rename that is durable without its data '
              '(power loss) is NOT promised and not judged. '
              'Only one I/O path exists in this tree: slimta/diskstorage imports pyaio unconditionally (pyaio 0.4 '
              'is installed; there is no non-AIO fallback to run). '
              'Trusted: the tree capture/materialise pair (30 lines), the per-message store model (fold of '
              'acknowledged ops, 30 lines), the recording Relay and the quiescence rule of the fresh Queue. '
              'os.close changes no directory state and is therefore not a separate crash point. Recovery runs '
              'with the default AioFile.chunk_size (a fresh process would), the history with a lowered one. '
              'A kill in the middle of ONE chunk write (torn chunk) is not enumerated -- chunk sizes 16/64/256 give '
              'prefixes at that granularity and temp files are never read back; the outside-SIGKILL stratum produces '
              'such states only by chance.')
TECHNIQUE = ('runtime monitoring with exhaustive crash-point enumeration: snapshot-at-every-fs-effect, '
             'recovery oracle over fresh DiskStorage + Queue, real SIGKILL cross-checks (instrumented point / from '
             'outside with a journal), effect accounting')
RULE = ('case = one history. Direct: 1-3 messages x 4-12 operations from {write, increment_attempts, set_timestamp, '
        'set_recipients_delivered (several rounds per message, each a proper subset of the recipients left), remove}, '
        'mode sequential | overlapping greenlets (one per message, seeded yields), optional forced '
        'uuid collision with an existing id, write/retry timestamps all equal | ascending | descending per message '
        '(all in the past, so (timestamp, id) order of the restart backlog varies), 10%: one envelope > 2 default '
        'AIO chunks; directory layout drawn from separate (4/8) | tmp_dir=meta_dir | tmp_dir=env_dir | all one '
        'directory | env_dir=meta_dir with its own tmp_dir; 40% of the sequential ones continue, from a drawn operation on, through a storage object whose '
        'tmp_dir lies on ANOTHER filesystem (/dev/shm or another writable one with a different st_dev; skipped with a '
        'counter when none exists). Queue-driven: 1-3 messages enqueued (seeded delays) into a real started Queue whose relay '
        'double follows a per-message script of 0-4 failing rounds (message 0 always two marking rounds) and an end '
        '(held / delivered / permanent / all settled / backoff gives up). chunk size in {16,64,256}. '
        'Every capture point of the history is one crash state, every '
        'distinct (tree bytes, expectation) is one evaluation (recovery). non-trivial & distinct = distinct '
        '(mode, operation, effect kind, target dir, before/after, ordinal of the effect inside the operation, '
        'number of acknowledged live messages) whose crash point lies strictly inside a multi-effect operation '
        '(>=1 effect done, >=1 still to come) while >=1 acknowledged live message is on disk; plus distinct '
        '(mode, operations in flight, tree class, temp leftovers) of the outside-SIGKILL states')
ASSUMPTIONS = [
    'process death only (kill -9): kernel buffers survive (the code never fsyncs; power loss / page-cache loss is '
    'outside the statement and out of reach)',
    'the only durable state of DiskStorage is the content of env_dir, meta_dir, tmp_dir (checked by the real-kill '
    'cross-check: surviving tree == capture k, tmp files compared by content)',
    'instrumentation is by effect, not by name: for the duration of a history os.rename/replace/link/symlink/'
    'unlink/remove/open-for-writing/truncate/write, builtins.open / io.open for writing (file object proxied: '
    'write/flush/close are capture points), tempfile.mkstemp and pyaio.aio_write are wrapped at their home modules '
    '(and where slimta.diskstorage bound them by value); only targets inside env/meta/tmp are capture points. '
    'A durable effect that still escapes (seen by the effect accounting of the sequential histories) makes that '
    'history INCONCLUSIVE for the snapshot stratum -- a blind spot of the harness is not a defect of slimta -- and '
    '40 outside SIGKILLs inside the operation concerned decide: a violation is reported only for a really '
    'surviving tree that loses or damages an acknowledged message',
    'ids: the deterministic stand-in is installed only when the module has a `uuid` global; otherwise (e.g. '
    '`secrets.token_hex`) the forced collision is skipped and the capture-point kill compares file contents instead '
    'of names and takes its expectation from the killed child\'s own journal (counters say so); nothing in '
    'REQUIRED_HITS depends on the id source',
    'operations on ONE message are never concurrent with each other (one greenlet per message; the real Queue is '
    'observed to respect this: counter same-message-operations-overlapped); concurrent '
    'read-modify-write of one meta file is another property',
    'overlapping and Queue-driven histories depend on AIO completion timing, so their interleavings are seeded but '
    'not bit-reproducible; the capture-point SIGKILL cross-check therefore samples sequential histories only, the '
    'outside-SIGKILL cross-check (journal) covers all modes',
    'a message whose write() had not returned, and a message whose remove() was in flight, need not be recoverable; '
    'messages whose remove() returned are not required to be absent (repeated delivery is allowed); a message the '
    'fresh Queue hands to the relay without being required must still carry the content that was accepted',
    'acknowledgement = return of DiskStorage.write; Queue.enqueue returns later and is checked to return exactly '
    'the acknowledged id (Queue-driven histories)',
    'direct histories write timestamps in the past, Queue-driven ones the real time of the run: a fresh Queue finds '
    'everything due at once (no virtual clock needed)',
    'fresh-Queue configurations: (store_pool, relay_pool) in {(None,None),(1,None),(2,None)} with a relay that '
    'records and holds the attempt, (None,None) with backoff 0 and a relay that fails the first attempt of each '
    'message (last recipient delivered, the others 450) and holds the second, (None,1) with a relay that reports '
    'delivery, and store_pool None/1 with the '
    'whole backlog coming due right after the start-up scan (harness clock substituted for slimta.queue.time, '
    'scheduler woken through Queue.wake); both pools bounded is not '
    'run (known pool cycle, another property); a greenlet crash inside the fresh Queue is recorded in the '
    'witness and is a violation only through the attempts it prevents',
    'a second crash during the recovery run itself is not enumerated separately: load()/get() write nothing, and the '
    'fresh Queue\'s updates are ordinary operations over a tree with leftovers (covered by the retry configuration, '
    'un-crashed)',
    'tmp_dir on another filesystem: an operation the unchanged tree refuses cleanly with EXDEV is an unacknowledged '
    'operation (counted, nothing more demanded of that message); the temp files left on the other filesystem are '
    'not part of the captured tree',
    'bounces are switched off in the Queue-driven histories (bounce_factory returns None): a bounce is a new '
    'message whose enqueue has not returned',
]
REQUIRED_HITS_BASE = ['recovery-judged', 'queue-attempts-judged', 'real-kill-compared', 'queue-driven-history-judged',
                 'overlapping-ops-crash-state-judged', 'half-written-state-judged', 'half-removed-state-judged',
                 'leftover-tmp-state-judged', 'fresh-queue-retry-judged', 'async-sigkill-judged',
                 'async-sigkill-inside-operation-judged']
REQUIRED_HITS = list(REQUIRED_HITS_BASE) + ['shared-directory-recovery-judged']      # completed below, once the second-filesystem probe is defined
SHARDS = {'quick': 16, 'thorough': 16}
BUDGET = {'quick': 60, 'thorough': 700}

NHIST = {'quick': 32, 'thorough': 608}
NQHIST = {'quick': 8, 'thorough': 160}     # histories driven by the real Queue (h >= NHIST)
NKILLS = {'quick': 1, 'thorough': 3}      # SIGKILL at an instrumented point (sequential histories)
NESCAPE_KILLS = 40                         # per history with an effect the instrumentation did not see
NAKILLS = {'quick': 1, 'thorough': 2}     # SIGKILL from outside at an un-instrumented instant (all modes)
PY = '/venv/bin/python'
DIRS = ('env', 'meta', 'tmp')

_own_scratch = []
_crashes = []            # greenlet crashes reported by the hub (kept out of stderr)


def _hub_hook(context, type_, value, tb):
    _crashes.append('%s in %s' % (getattr(type_, '__name__', type_), core.short(repr(context), 120)))
    del _crashes[:-50]


def scratch_base():
    b = os.environ.get('VERIF_SCRATCH')
    if b and os.path.isdir(b):
        return b
    if not _own_scratch:
        _own_scratch.append(tempfile.mkdtemp(prefix='c04-own-'))
    return _own_scratch[0]


_second_fs = []          # [per-shard directory on another filesystem than the scratch area] once created


def second_fs_parent():
    """A writable directory on ANOTHER filesystem than the scratch area (st_dev differs), or None."""
    try:
        here = os.stat(os.environ.get('VERIF_SCRATCH') or tempfile.gettempdir()).st_dev
    except OSError:
        return None
    for cand in ('/dev/shm', '/run/shm', '/tmp', '/var/tmp', '/run/user/%d' % os.getuid()):
        try:
            if os.path.isdir(cand) and os.access(cand, os.W_OK | os.X_OK) and os.stat(cand).st_dev != here:
                return cand
        except OSError:
            pass
    return None


def second_fs_dir():
    if not _second_fs:
        par = second_fs_parent()
        if par is None:
            return None
        _second_fs.append(tempfile.mkdtemp(prefix='c04-xfs-', dir=par))
    return _second_fs[0]


# the tmp_dir-on-another-filesystem stratum decides only where a second filesystem exists
if second_fs_parent() is not None:
    REQUIRED_HITS.append('second-filesystem-tmp-judged')


def shard_cleanup():
    while _own_scratch:
        shutil.rmtree(_own_scratch.pop(), ignore_errors=True)
    while _second_fs:
        shutil.rmtree(_second_fs.pop(), ignore_errors=True)


# --------------------------------------------------------------------------- cases

def make_case(rnd, h, tier):
    nmsg = rnd.choice([1, 2, 2, 3, 3])
    msgs = []
    for i in range(nmsg):
        nr = rnd.randint(3, 6) if (h >= NHIST[tier] or i == 0) else rnd.randint(2, 4)
        blen = rnd.choice([0, 30, 120, 400, 1100])
        body = bytes(rnd.choice(b'abcdefgh \r\n\xe9\xff.') for _ in range(blen))
        msgs.append({'sender': 's%d.%d@from.example' % (h, i),
                     'rcpts': ['r%d.%d.%d@to.example' % (h, i, j) for j in range(nr)],
                     'body': body, 'subject': 'history %d message %d' % (h, i)})
    chunk = rnd.choice([16, 64, 64, 256])
    if h >= NHIST[tier]:
        return make_queue_case(rnd, h, tier, msgs, chunk)
    ops, written, gone, nxt = [], [], set(), 0
    left = [len(m['rcpts']) for m in msgs]      # recipients still outstanding (marks are relative to them)
    target = rnd.randint(4, 12)
    tscheme = rnd.choice(['equal', 'equal', 'asc', 'desc'])
    while len(ops) < target:
        live = [m for m in written if m not in gone]
        ch = []
        if nxt < nmsg:
            ch += ['write'] * (2 if live else 1)
        if live:
            ch += ['inc', 'inc', 'ts', 'mark', 'mark']
            if len(ops) >= 3 or len(live) > 1 or nxt < nmsg:
                ch += ['remove']
        if not ch:
            break
        kind = rnd.choice(ch)
        y = rnd.choice([0, 0, 1, 2, 5])
        if kind == 'write':
            ops.append([nxt, 'write', {'equal': 1.0, 'asc': 1.0 + nxt, 'desc': 9.0 - nxt}[tscheme], y])
            written.append(nxt)
            nxt += 1
            continue
        m = rnd.choice(live)
        if kind == 'inc':
            ops.append([m, 'inc', None, y])
        elif kind == 'ts':
            # past timestamps, equal to / below / above the other messages' ones
            ops.append([m, 'ts', rnd.choice([0.5, 1.0, 5.0, 2.0 + len(ops), 20.5 + len(ops)]), y])
        elif kind == 'mark':
            # several marking rounds per message, as the real Queue produces them: the indexes of a round
            # refer to the recipients the earlier rounds left over; never all of them (the Queue removes then)
            n = left[m]
            if n < 2:
                continue
            idx = sorted(rnd.sample(range(n), rnd.randint(1, n - 1)))
            left[m] -= len(idx)
            if rnd.random() < 0.3:
                idx.reverse()
            ops.append([m, 'mark', idx, y])
        else:
            ops.append([m, 'remove', None, y])
            gone.add(m)
    mode = 'seq' if h % 2 == 0 else 'conc'
    if rnd.random() < 0.1:
        # one envelope larger than two default AIO chunks: recovery (default chunk_size) reads it in pieces
        msgs[0]['body'] = bytes(rnd.choice(b'abcdefgh \r\n\xe9\xff.') for _ in range(300)) * 120
        chunk = 16384
    return {'h': h, 'mode': mode, 'chunk': chunk, 'msgs': msgs, 'ops': ops,
            'collide': rnd.random() < 0.35,
            'kills': sorted(rnd.random() for _ in range(NKILLS[tier])) if mode == 'seq' else [],
            'akills': [[rnd.random(), rnd.choice([0, 0.1, 0.2, 0.35, 0.5, 0.7, 1.0])] for _ in range(NAKILLS[tier])],
            # configuration stratum: from this operation on the storage object is one whose tmp_dir lies on
            # ANOTHER filesystem (a restart with a changed configuration)
            'xfs_from': rnd.randint(2, max(2, len(ops) - 2)) if (mode == 'seq' and rnd.random() < 0.4) else None,
            # directory layout: roles may share a directory (a way to keep the rename on one file system)
            'layout': rnd.choice(LAYOUTS + ('separate',) * 3)}


def make_queue_case(rnd, h, tier, msgs, chunk):
    """History produced by the REAL Queue: enqueue + scripted relay outcomes per attempt.
    script items: 'T' transient, 'X' unexpected exception, 'F' permanent, 'OK' delivered,
    ['P', codes] per-recipient mapping (d delivered, t transient, f permanent; by position among the
    recipients of that attempt), 'H' relay holds the attempt (message stays live)."""
    script, giveup, enq = [], [], []
    for m in msgs:
        n = len(m['rcpts'])
        sc = []
        stop = rnd.choice([None, None, None, 1, 2, 3])      # backoff gives up after that many failures
        if m is msgs[0] and stop is not None:
            stop += 2
        first = m is msgs[0]                # message 0: always two marking rounds (>= 3 recipients)
        rounds = rnd.randint(2, 4) if first else rnd.randint(0, 4)
        for j in range(rounds):
            k = 'P' if (first and j < 2) else rnd.choice(['T', 'T', 'X', 'P', 'P', 'P'])
            if k == 'P' and n >= 2:
                nt = rnd.randint(2 if (first and j == 0) else 1, n - 1)
                codes = ['t'] * nt + [rnd.choice('ddf') for _ in range(n - nt)]
                rnd.shuffle(codes)
                sc.append(['P', ''.join(codes)])
                n = nt
            else:
                sc.append('T' if k == 'P' else k)
        if stop is not None and stop <= len(sc):
            sc = sc[:stop]
        else:
            stop = None
            end = rnd.choice(['H', 'H', 'H', 'OK', 'F', 'PD'])
            sc.append(['P', ''.join(rnd.choice('df') for _ in range(n))] if end == 'PD' else end)
        script.append(sc)
        giveup.append(stop)
        enq.append(rnd.choice([0, 0, 1, 3, 8, 20]))
    return {'h': h, 'mode': 'queue', 'chunk': chunk, 'msgs': msgs, 'ops': [], 'script': script,
            'giveup': giveup, 'enq': enq, 'collide': False, 'kills': [],
            'akills': [[rnd.random(), rnd.choice([0, 0.1, 0.2, 0.35, 0.5, 0.7, 1.0])] for _ in range(NAKILLS[tier])],
            'layout': rnd.choice(LAYOUTS + ('separate',) * 3)}


def gen_cases(tier, seed, shard, nshards):
    for h in range(NHIST[tier] + NQHIST[tier]):
        if h % nshards != shard:
            continue
        yield make_case(random.Random('c04-%d-%d' % (seed, h)), h, tier)


def build_envelope(m):
    e = Envelope(m['sender'], list(m['rcpts']))
    e.parse(b'From: <' + m['sender'].encode() + b'>\r\nSubject: ' + m['subject'].encode() +
            b'\r\nX-Pad: ' + b'p' * 20 + b'\r\n\r\n' + m['body'])
    e.client = {'ip': '192.0.2.7', 'name': 'client.example', 'protocol': 'ESMTP'}
    e.receiver = 'mx.example'
    e.timestamp = 1234567.0
    return e


def flat(env):
    h, b = env.flatten()
    return bytes(h) + bytes(b)


# --------------------------------------------------------------------------- tree capture

def read_tree(root):
    t = {}
    for d in DIRS:
        dd = {}
        p = os.path.join(root, d)
        for fn in sorted(_os_listdir(p)):
            try:
                with _real_open(os.path.join(p, fn), 'rb') as f:
                    dd[fn] = f.read()
            except (FileNotFoundError, IsADirectoryError):
                pass
        t[d] = dd
    return t


def write_tree(tree, root):
    """Materialise `tree` under root; an existing root is re-used (emptied of files first: creating and
    removing directories is the expensive part on a loaded machine)."""
    for d in DIRS:
        p = os.path.join(root, d)
        if os.path.isdir(p):
            for fn in _os_listdir(p):
                _os_unlink(os.path.join(p, fn))
        else:
            os.makedirs(p)
        for fn, data in tree[d].items():
            with _real_open(os.path.join(p, fn), 'wb') as f:
                f.write(data)


def tree_hash(tree):
    h = hashlib.blake2b(digest_size=12)
    for d in DIRS:
        for fn in sorted(tree[d]):
            h.update(('%s/%s:%d:' % (d, fn, len(tree[d][fn]))).encode())
            h.update(tree[d][fn])
    return h.hexdigest()


def tree_summary(tree):
    out = {}
    for d in DIRS:
        out[d] = {fn: (len(v) if d != 'meta' else {'len': len(v), 'bytes': v}) for fn, v in tree[d].items()}
    return out


LAYOUTS = ('separate', 'tmp=meta', 'tmp=env', 'all-one', 'env=meta')


def layout_paths(root, layout):
    """(env_dir, meta_dir, tmp_dir) of a directory layout; shared roles use one directory (the captured tree
    keeps its three names, an unused one simply stays empty)."""
    e, m, t = (os.path.join(root, d) for d in DIRS)
    return {'tmp=meta': (e, m, m), 'tmp=env': (e, m, e), 'all-one': (e, e, e),
            'env=meta': (e, e, t)}.get(layout, (e, m, t))


def view(tree):
    """Files by ROLE (suffix) whatever directory they lie in: *.env, *.meta, anything else = temp file."""
    v = {'env': {}, 'meta': {}, 'tmp': {}}
    for d in DIRS:
        for fn, data in tree[d].items():
            v['env' if fn.endswith('.env') else 'meta' if fn.endswith('.meta') else 'tmp'][fn] = data
    return v


def trees_equal(a, b, by_name=True):
    """names + bytes for env/meta (contents only when the ids of the two runs are not the same ones);
    tmp files (random names) by content multiset."""
    diffs = []
    a, b = view(a), view(b)
    for d in ('env', 'meta'):
        same = (a[d] == b[d]) if by_name else (sorted(a[d].values()) == sorted(b[d].values()))
        if not same:
            diffs.append('%s: snapshot %s vs killed %s' % (
                d, sorted(len(v) for v in a[d].values()), sorted(len(v) for v in b[d].values())))
    if sorted(a['tmp'].values()) != sorted(b['tmp'].values()):
        diffs.append('tmp: snapshot sizes %s vs killed sizes %s' % (
            sorted(len(v) for v in a['tmp'].values()), sorted(len(v) for v in b['tmp'].values())))
    return diffs


# --------------------------------------------------------------------------- instrumentation

class OpCtx(object):
    def __init__(self, seq, m, kind, arg):
        self.seq, self.m, self.kind, self.arg = seq, m, kind, arg
        self.effects = 0          # durable effects completed so far
        self.total = None         # known once the op returned


class Tracer(object):
    """Numbers the capture points; parent mode captures the tree at each, kill-child mode really
    SIGKILLs itself at one, journal-child mode only writes op start/ack lines to a pipe."""

    def __init__(self, root, expect_fn=None, kill_at=None, journal_fd=None):
        self.root = root
        self.expect_fn = expect_fn
        self.kill_at = kill_at
        self.journal_fd = journal_fd
        self.n = 0
        self.snaps = []
        self.ctx = {}
        self.nest = 0             # >0 while the original of a wrapped effect runs (nested wrappers pass through)
        self.notes = {}

    def current(self):
        return self.ctx.get(gevent.getcurrent())

    def journal(self, *rec):
        if self.journal_fd is not None:
            _os_write(self.journal_fd, (core.jdumps(list(rec)) + '\n').encode())

    def boundary(self, phase, effect, target):
        k = self.n
        self.n += 1
        if self.journal_fd is not None and self.kill_at is None:
            return
        if self.kill_at is not None:
            if k == self.kill_at:
                _os_kill(os.getpid(), signal.SIGKILL)
                time.sleep(60)          # never reached: SIGKILL is delivered on return from kill()
                os._exit(4)
            return
        op = self.current()
        self.snaps.append({'k': k, 'tree': read_tree(self.root), 'phase': phase, 'effect': effect,
                           'target': target, 'op': op, 'done': op.effects if op else 0,
                           'expect': self.expect_fn()})

    def effect_done(self, op):
        if op is not None:
            op.effects += 1


class FakeUuid(object):
    """Deterministic stand-in for the uuid module (same ids in the parent and the killed child);
    can force one collision with an id whose write was already acknowledged."""

    class _U(object):
        def __init__(self, hex_):
            self.hex = hex_

    def __init__(self, tag, collide):
        self.tag, self.n, self.collide = tag, 0, collide
        self.acked_ids = []
        self.collisions = 0
        self.installed = False     # True when slimta.diskstorage draws its ids from `uuid` (substitutable)

    def uuid4(self):
        if self.collide and self.acked_ids and self.collisions == 0:
            self.collisions += 1
            return self._U(self.acked_ids[-1])
        self.n += 1
        return self._U(hashlib.md5(('%s-%d' % (self.tag, self.n)).encode()).hexdigest())


def _target_of(root, path):
    try:
        if isinstance(path, int):
            path = _os_readlink('/proc/self/fd/%d' % path)
        path = os.fsdecode(os.fspath(path))
        rel = os.path.relpath(os.path.abspath(path), root)
    except (ValueError, TypeError, OSError):
        return 'other'
    top = rel.split(os.sep)[0]
    return top if top in DIRS else 'other'


_WRITING = os.O_WRONLY | os.O_RDWR | os.O_CREAT | os.O_TRUNC | os.O_APPEND


class FileProxy(object):
    """A file object opened for writing inside the storage directories: its write / flush / truncate /
    close are capture points (the data of a buffered file becomes durable at one of them)."""

    def __init__(self, f, bracket, tgt):
        object.__setattr__(self, '_f', f)
        object.__setattr__(self, '_b', bracket)
        object.__setattr__(self, '_tgt', tgt)

    def __getattr__(self, name):
        return getattr(self._f, name)

    def __setattr__(self, name, value):
        setattr(self._f, name, value)

    def write(self, data):
        return self._b('file-write', self._tgt, self._f.write, data)

    def writelines(self, lines):
        return self._b('file-write', self._tgt, self._f.writelines, lines)

    def flush(self):
        return self._b('file-flush', self._tgt, self._f.flush)

    def truncate(self, *a):
        return self._b('file-truncate', self._tgt, self._f.truncate, *a)

    def close(self):
        if self._f.closed:
            return None
        return self._b('file-close', self._tgt, self._f.close)

    def __enter__(self):
        return self

    def __exit__(self, *exc):
        self.close()
        return False

    def __iter__(self):
        return iter(self._f)


class Installed(object):
    """Makes every durable file-system effect of the traced region a capture point -- BY EFFECT, not by the
    name slimta.diskstorage happens to use: for the duration of the history the public entry points
    os.rename/replace/link/symlink/unlink/remove/open(for writing)/truncate/write, builtins.open / io.open
    (for writing; the returned file object is proxied), tempfile.mkstemp and pyaio.aio_write are wrapped at
    their home modules, and any global of slimta.diskstorage that is bound to one of the originals
    (`from os import rename`) is re-bound too. Only paths / descriptors inside the three storage
    directories are capture points. Everything is restored on exit. A stand-in is installed only for
    what exists: no `uuid` global -> ids are not reproducible (see FakeUuid.installed)."""

    def __init__(self, tracer, chunk, fake_uuid, light=False):
        self.t, self.chunk, self.fu, self.light = tracer, chunk, fake_uuid, light
        self.undo = []

    def _put(self, obj, name, new):
        self.undo.append((obj, name, getattr(obj, name)))
        setattr(obj, name, new)

    def _bracket(self, kind, tgt, orig, *a, **kw):
        t = self.t
        if t.nest or tgt == 'other':
            return orig(*a, **kw)
        op = t.current()
        t.boundary('before', kind, tgt)
        t.nest += 1
        try:
            r = orig(*a, **kw)          # raises: no effect happened, no 'after'
        finally:
            t.nest -= 1
        t.effect_done(op)
        t.boundary('after', kind, tgt)
        return r

    def _wrappers(self):
        t, root, br = self.t, self.t.root, self._bracket
        w = {}

        def by_path(kind, orig, which):
            def f(*a, **kw):
                tgt = _target_of(root, a[which]) if (len(a) > which and not t.nest) else 'other'
                return br(kind, tgt, orig, *a, **kw)
            w[orig] = f
        for name, kind, which in (('rename', 'rename', 1), ('replace', 'rename', 1), ('link', 'link', 1),
                                  ('symlink', 'link', 1), ('unlink', 'remove', 0), ('remove', 'remove', 0),
                                  ('truncate', 'truncate', 0), ('ftruncate', 'truncate', 0),
                                  ('write', 'write', 0), ('pwrite', 'write', 0), ('writev', 'write', 0),
                                  ('sendfile', 'write', 0), ('copy_file_range', 'write', 1)):
            if hasattr(os, name) and getattr(os, name) not in w:
                by_path(kind, getattr(os, name), which)

        o_open = os.open

        def os_open(path, flags, *a, **kw):
            tgt = _target_of(root, path) if (flags & _WRITING and 'dir_fd' not in kw and not t.nest) else 'other'
            return br('open-w', tgt, o_open, path, flags, *a, **kw)
        w[o_open] = os_open

        o_bopen = builtins.open

        def b_open(file, mode='r', *a, **kw):
            writing = isinstance(mode, str) and any(c in mode for c in 'wax+')
            if t.nest or not writing:
                return o_bopen(file, mode, *a, **kw)
            tgt = _target_of(root, file)
            if tgt == 'other':
                return o_bopen(file, mode, *a, **kw)
            if isinstance(file, int):
                # wraps an already open descriptor (os.fdopen): no effect by itself
                return FileProxy(o_bopen(file, mode, *a, **kw), br, tgt)
            return FileProxy(br('open-w', tgt, o_bopen, file, mode, *a, **kw), br, tgt)
        w[o_bopen] = b_open

        o_mkstemp = tempfile.mkstemp

        def mkstemp(*a, **kw):
            d = kw.get('dir', a[2] if len(a) > 2 else None)
            tgt = _target_of(root, os.path.join(os.fsdecode(d), 'x')) if d else 'other'
            return br('mkstemp', tgt, o_mkstemp, *a, **kw)
        w[o_mkstemp] = mkstemp

        if _pyaio is not None:
            o_aio_write = _pyaio.aio_write

            def aio_write(fd, piece, offset, cb):
                op = t.current()
                tgt = _target_of(root, fd)
                if tgt != 'other':
                    t.boundary('before', 'chunk', tgt)

                def cb2(ret, errno):
                    # runs as a pending call at an arbitrary point of the main thread: no capture
                    # here; the state "after this chunk" is captured at the op's next boundary
                    if ret > 0 and tgt != 'other':
                        t.effect_done(op)
                    cb(ret, errno)
                return o_aio_write(fd, piece, offset, cb2)
            w[o_aio_write] = aio_write
        return w

    def __enter__(self):
        t = self.t
        af = getattr(D, 'AioFile', None)
        if af is not None and hasattr(af, 'chunk_size'):
            self._put(af, 'chunk_size', self.chunk)
        else:
            t.notes['aio-chunk-size-not-lowerable'] = 1
        self.fu.installed = False
        if self.light:
            # journal child: the module runs with its own mkstemp / aio_write / os / uuid
            return self
        if getattr(D, 'uuid', None) is _uuid_module:
            self._put(D, 'uuid', self.fu)
            self.fu.installed = True
        w = self._wrappers()
        homes = [(os, ('rename', 'replace', 'link', 'symlink', 'unlink', 'remove', 'truncate', 'ftruncate',
                       'write', 'pwrite', 'writev', 'sendfile', 'copy_file_range', 'open')),
                 (builtins, ('open',)), (io, ('open',)), (tempfile, ('mkstemp',))]
        if _pyaio is not None:
            homes.append((_pyaio, ('aio_write',)))
            core_ = getattr(_pyaio, 'core', None)
            if core_ is not None and hasattr(core_, 'aio_write'):
                homes.append((core_, ('aio_write',)))
        try:
            for mod, names in homes:
                for n in names:
                    if hasattr(mod, n) and getattr(mod, n) in w:
                        self._put(mod, n, w[getattr(mod, n)])
            # names the module under test bound by value at import time
            for n, v in list(vars(D).items()):
                try:
                    repl = w.get(v)
                except TypeError:
                    continue
                if repl is not None:
                    self._put(D, n, repl)
        except BaseException:
            self.__exit__()
            raise
        return self

    def __exit__(self, *exc):
        while self.undo:
            obj, name, old = self.undo.pop()
            setattr(obj, name, old)
        return False


# --------------------------------------------------------------------------- history + model

def new_model(case):
    return [{'state': 'unwritten', 'id': None, 'att': 0, 'ts': None, 'deliv': [], 'inflight': None}
            for _ in case['msgs']]


def copy_model(model):
    return [dict(st, deliv=[list(r) for r in st['deliv']]) for st in model]


def model_ack(st, kind, arg, result):
    """Fold one ACKNOWLEDGED operation into the per-message model. 'deliv' is the list of marking
    rounds; the indexes of a round refer to the recipients the earlier rounds left over."""
    if kind == 'write':
        st.update(state='live', id=result, att=0, ts=arg, deliv=[])
    elif kind == 'inc':
        st['att'] += 1
    elif kind == 'ts':
        st['ts'] = arg
    elif kind == 'mark':
        st['deliv'] = st['deliv'] + [list(arg)]
    elif kind == 'remove':
        st['state'] = 'removed'
    st['inflight'] = None


def outstanding(rcpts, rounds):
    left = list(rcpts)
    for rnd in rounds:
        drop = set(rnd)
        left = [r for i, r in enumerate(left) if i not in drop]
    return left


class TracedStore(QueueStorage):
    """The storage object the history talks to (directly, or through the real Queue): delegates to the
    real DiskStorage and keeps the acknowledged-operations model / capture points / journal."""

    def __init__(self, inner, tracer, model, case, problems, fu):
        super(TracedStore, self).__init__()
        self.inner, self.tracer, self.model, self.problems, self.fu = inner, tracer, model, problems, fu
        self.by_sender = dict((m['sender'], i) for i, m in enumerate(case['msgs']))
        self.by_id = {}
        self.seq = 0
        self.inprogress = 0
        self.load_done = False
        self.dead = set()
        self.xfs_active = False
        self.oplog = {}
        self.notes = {}

    def _op(self, m, kind, arg, call):
        st, tracer = self.model[m], self.tracer
        if m in self.dead:
            return call()
        if st['inflight'] is not None:
            # two operations on ONE message overlap: outside the model (see ASSUMPTIONS); nothing more
            # is demanded of this message
            self.notes['same-message-operations-overlapped'] = 1 + self.notes.get(
                'same-message-operations-overlapped', 0)
            st['state'] = 'unknown'
            self.dead.add(m)
            tracer.journal('raised', -1, m, kind, None)
            return call()
        seq = self.seq
        self.seq += 1
        op = OpCtx(seq, m, kind, arg)
        g = gevent.getcurrent()
        tracer.ctx[g] = op
        st['inflight'] = [kind, arg]
        self.oplog.setdefault(m, []).append(kind)
        self.inprogress += 1
        tracer.journal('start', seq, m, kind, arg)
        tracer.boundary('op', 'start', '-')
        try:
            res = call()
        except Exception as e:
            # not acknowledged: its effect is unknown for good; nothing more is demanded of m
            self.inprogress -= 1
            if self.xfs_active and isinstance(e, OSError) and e.errno == errno.EXDEV:
                self.notes['operations-refused-cleanly-with-EXDEV(tmp_dir on another filesystem)'] = 1 + \
                    self.notes.get('operations-refused-cleanly-with-EXDEV(tmp_dir on another filesystem)', 0)
            else:
                self.problems.append('%s(m%d) raised %s: %s' % (kind, m, type(e).__name__, e))
            st['state'] = 'unknown'
            self.dead.add(m)
            tracer.journal('raised', seq, m, kind, None)
            tracer.boundary('op', 'raised', '-')
            tracer.ctx.pop(g, None)
            raise
        except BaseException:
            self.inprogress -= 1        # greenlet killed at the end of the history
            raise
        # ---- acknowledged (no yield between the return and this bookkeeping)
        self.inprogress -= 1
        model_ack(st, kind, arg, res)
        if kind == 'write':
            self.by_id[res] = m
            if self.fu is not None:
                self.fu.acked_ids.append(res)
        tracer.journal('ack', seq, m, kind, arg, res)
        op.total = op.effects
        tracer.boundary('op', 'return', '-')
        tracer.ctx.pop(g, None)
        return res

    def write(self, envelope, timestamp):
        m = self.by_sender[envelope.sender]
        return self._op(m, 'write', timestamp, lambda: self.inner.write(envelope, timestamp))

    def _m(self, id):
        return self.by_id.get(id)

    def set_timestamp(self, id, timestamp):
        m = self._m(id)
        if m is None:
            return self.inner.set_timestamp(id, timestamp)
        return self._op(m, 'ts', timestamp, lambda: self.inner.set_timestamp(id, timestamp))

    def increment_attempts(self, id):
        m = self._m(id)
        if m is None:
            return self.inner.increment_attempts(id)
        return self._op(m, 'inc', None, lambda: self.inner.increment_attempts(id))

    def set_recipients_delivered(self, id, rcpt_indexes):
        m = self._m(id)
        if m is None:
            return self.inner.set_recipients_delivered(id, rcpt_indexes)
        arg = list(rcpt_indexes) if isinstance(rcpt_indexes, (list, tuple)) else sorted(rcpt_indexes)
        return self._op(m, 'mark', arg, lambda: self.inner.set_recipients_delivered(id, rcpt_indexes))

    def remove(self, id):
        m = self._m(id)
        if m is None:
            return self.inner.remove(id)
        return self._op(m, 'remove', None, lambda: self.inner.remove(id))

    def get(self, id):
        return self.inner.get(id)

    def load(self):
        try:
            for e in self.inner.load():
                yield e
        finally:
            self.load_done = True

    def wait(self):
        return self.inner.wait()


class ScriptRelay(Relay):
    """Relay double of the Queue-driven histories: the outcome of attempt n of message m is scripted."""

    def __init__(self, case, by_sender):
        super(ScriptRelay, self).__init__()
        self.case, self.by_sender = case, by_sender
        self.n = [0] * len(case['msgs'])
        self.holding = set()
        self.greenlets = []
        self.log = []
        self.enqueued = []
        self.stalled = False

    def backoff(self, envelope, attempts):
        stop = self.case['giveup'][self.by_sender[envelope.sender]]
        return None if (stop is not None and attempts >= stop) else 0

    def attempt(self, envelope, attempts):
        m = self.by_sender[envelope.sender]
        sc = self.case['script'][m]
        n = self.n[m]
        self.n[m] += 1
        out = sc[n] if n < len(sc) else 'H'
        self.log.append((m, n, attempts, len(envelope.recipients)))
        if out == 'H':
            self.holding.add(m)
            self.greenlets.append(gevent.getcurrent())
            Event().wait()
        if out == 'T':
            raise TransientRelayError('450 4.0.0 relay double: later')
        if out == 'F':
            raise PermanentRelayError('550 5.0.0 relay double: never')
        if out == 'X':
            raise RuntimeError('relay double: unexpected failure')
        if out == 'OK':
            return None
        res = {}
        for i, r in enumerate(envelope.recipients):
            c = out[1][i] if i < len(out[1]) else 't'
            res[r] = (None if c == 'd' else TransientRelayError('450 4.0.0 later') if c == 't'
                      else PermanentRelayError('550 5.0.0 never'))
        return res


def run_queue_history(case, store, envs, model):
    """The real Queue produces the operation order: enqueue -> write; failed attempt ->
    increment_attempts, set_timestamp[, set_recipients_delivered]; final disposition -> remove."""
    relay = ScriptRelay(case, store.by_sender)
    q = Queue(store, relay, backoff=relay.backoff, bounce_factory=lambda env, reply: None)
    q.start()
    gs = []
    try:
        while not store.load_done:          # the (empty) start-up scan first, like a booted daemon
            gevent.sleep(0.001)

        def enq(m, delay):
            for _ in range(delay):
                gevent.sleep(0.001)
            for env, id_ in q.enqueue(envs[m]):
                relay.enqueued.append((m, id_ if isinstance(id_, str) else repr(id_)))
        gs = [gevent.spawn(enq, m, d) for m, d in enumerate(case['enq'])]
        mark, since = None, time.time()
        while True:
            gevent.sleep(0.002)
            if store.inprogress == 0 and all(
                    (m in relay.holding) or st['state'] in ('removed', 'unknown')
                    for m, st in enumerate(model)):
                gevent.idle()
                if store.inprogress == 0:
                    break
            # a Queue that stops driving the script (not this property's business) must not hang the case
            now = (store.seq, len(relay.log), store.inprogress)
            if now != mark or store.inprogress:
                mark, since = now, time.time()
            elif time.time() - since > 3.0:
                relay.stalled = True
                break
    finally:
        q.kill()
        gevent.killall(gs + relay.greenlets)
    return relay


def run_history(case, root, tracer, model, problems, light=False):
    """Execute the history against the real DiskStorage. Used by the parent (capturing) and by
    the killed children (counting / journalling)."""
    inner = D.DiskStorage(*layout_paths(root, case.get('layout')))
    fu = FakeUuid('h%d' % case['h'], case.get('collide'))
    store = TracedStore(inner, tracer, model, case, problems, fu)
    envs = [build_envelope(m) for m in case['msgs']]

    def do_op(seq, m, kind, arg, yields):
        if m in store.dead:
            return
        for _ in range(yields):
            gevent.sleep(0)
        st = model[m]
        try:
            if kind == 'write':
                store.write(envs[m], arg)
            elif kind == 'inc':
                store.increment_attempts(st['id'])
            elif kind == 'ts':
                store.set_timestamp(st['id'], arg)
            elif kind == 'mark':
                store.set_recipients_delivered(st['id'], list(arg))
            else:
                store.remove(st['id'])
        except Exception:
            return

    with Installed(tracer, case['chunk'], fu, light):
        if case['mode'] == 'queue':
            fu.relay = run_queue_history(case, store, envs, model)
        elif case['mode'] == 'seq':
            xdir = case.get('xfs_dir') if case.get('xfs_from') is not None else None
            for seq, (m, kind, arg, y) in enumerate(case['ops']):
                if xdir and seq == case['xfs_from'] and os.path.isdir(xdir):
                    store.inner = D.DiskStorage(*(layout_paths(root, case.get('layout'))[:2] + (xdir,)))
                    store.xfs_active = True
                    store.xfs_seq = store.seq
                do_op(seq, m, kind, arg, y)
        else:
            per = {}
            for seq, (m, kind, arg, y) in enumerate(case['ops']):
                per.setdefault(m, []).append((seq, m, kind, arg, y))

            def worker(lst):
                for o in lst:
                    do_op(*o)
            gs = [gevent.spawn(worker, lst) for _, lst in sorted(per.items())]
            try:
                gevent.joinall(gs, raise_error=True)
            finally:
                gevent.killall(gs)
    fu.store = store
    return fu


# --------------------------------------------------------------------------- recovery oracle

class RecRelay(Relay):
    """Records every attempt a fresh Queue makes; then holds it (no further store traffic), or reports
    it delivered (the Queue then removes the message from the copy), or -- retry mode -- fails the FIRST
    attempt of each message (last recipient delivered, the others 450; a lone recipient: 450) and holds
    the second one: the fresh Queue then runs increment_attempts / set_timestamp /
    set_recipients_delivered over the recovered files (and the left-over temp files) and must come back."""

    def __init__(self, deliver=False, retry=False):
        super(RecRelay, self).__init__()
        self.attempts = []
        self.greenlets = []
        self.hold = Event()
        self.deliver = deliver
        self.retry = retry

    def attempt(self, envelope, attempts):
        nth = sum(1 for a in self.attempts if a['sender'] == envelope.sender)
        self.attempts.append({'sender': envelope.sender, 'rcpts': list(envelope.recipients),
                              'content': flat(envelope), 'attempts': attempts})
        if self.deliver:
            return None
        if self.retry and nth == 0:
            rc = list(envelope.recipients)
            if len(rc) < 2 or len(set(rc)) < len(rc):
                raise TransientRelayError('450 4.0.0 recovery relay: later')
            res = dict((r, TransientRelayError('450 4.0.0 recovery relay: later')) for r in rc)
            res[rc[-1]] = None          # the highest index: a new marking round on top of the recovered ones
            return res
        self.greenlets.append(gevent.getcurrent())
        self.hold.wait()


# Configurations of the fresh Queue. 'default' runs on every judged crash state, the others on every
# distinct (env+meta content, expectation).  A bounded store pool makes _load_all finish before the
# scheduler's first pass, so the whole backlog is dispatched as ONE ready batch in (timestamp, id) order.
# (relay_pool=1 only with a delivering relay and an unbounded store pool: a holding relay would starve
# it by construction, and both pools bounded is the known pool cycle of another property.)
# 'late' = the backlog comes due only after the start-up scan has finished: slimta.queue.time is
# substituted by a harness clock that stands before every stored timestamp while the Queue loads and
# is then moved past all of them (the scheduler is woken through its own `wake` event, exactly what the
# expiry of its timed wait does).  The whole backlog is then ONE ready batch in (timestamp, id) order --
# the restart of a queue whose retry times lie shortly ahead.
QUEUE_CONFIGS = [
    ('default', {}, False, False),
    ('retry', {'backoff': lambda envelope, attempts: 0}, 'retry', False),
    ('store_pool=1', {'store_pool': 1}, False, False),
    ('store_pool=2', {'store_pool': 2}, False, False),
    ('relay_pool=1', {'relay_pool': 1}, True, False),
    ('due-after-scan', {}, False, True),
    ('due-after-scan,store_pool=1', {'store_pool': 1}, False, True),
]


class HarnessClock(object):
    def __init__(self, now):
        self.now = now

    def time(self):
        return self.now


class ProbeStore(QueueStorage):
    """Delegating wrapper around the fresh DiskStorage: in-progress counter for quiescence."""

    def __init__(self, inner):
        super(ProbeStore, self).__init__()
        self.inner = inner
        self.inprogress = 0
        self.load_done = False
        self.errors = []

    def load(self):
        self.inprogress += 1
        try:
            for e in self.inner.load():
                yield e
        except Exception as e:
            self.errors.append('load: %s: %s' % (type(e).__name__, e))
            raise
        finally:
            self.inprogress -= 1
            self.load_done = True

    def _call(self, name, *a):
        self.inprogress += 1
        try:
            return getattr(self.inner, name)(*a)
        except Exception as e:
            self.errors.append('%s%r: %s: %s' % (name, a[:1], type(e).__name__, e))
            raise
        finally:
            self.inprogress -= 1

    def get(self, id):
        return self._call('get', id)

    def write(self, envelope, timestamp):
        return self._call('write', envelope, timestamp)

    def set_timestamp(self, id, timestamp):
        return self._call('set_timestamp', id, timestamp)

    def increment_attempts(self, id):
        return self._call('increment_attempts', id)

    def set_recipients_delivered(self, id, idx):
        return self._call('set_recipients_delivered', id, idx)

    def remove(self, id):
        return self._call('remove', id)


def allowed(msg, st):
    """What the acknowledged operations (+ optionally the one in flight) permit for a live message."""
    inf = st['inflight'] or [None, None]
    atts = {st['att']} | ({st['att'] + 1} if inf[0] == 'inc' else set())
    tss = {st['ts']} | ({inf[1]} if inf[0] == 'ts' else set())
    rc = [outstanding(msg['rcpts'], st['deliv'])]
    if inf[0] == 'mark':
        rc.append(outstanding(msg['rcpts'], st['deliv'] + [list(inf[1])]))
    return atts, tss, rc


def required(st):
    return st['state'] == 'live' and (st['inflight'] or [None])[0] not in ('remove', 'write')


def disk_class(tree, id_):
    tree = view(tree)

    def one(d, ext):
        data = tree[d].get(id_ + ext)
        if data is None:
            return 'absent'
        try:
            pickle.loads(data)
            return 'ok'
        except Exception:
            return 'unpicklable'
    return 'env-%s,meta-%s' % (one('env', '.env'), one('meta', '.meta'))


def tree_class(tree):
    tree = view(tree)
    a = set()
    envs = set(fn[:-4] for fn in tree['env'] if fn.endswith('.env'))
    metas = set(fn[:-5] for fn in tree['meta'] if fn.endswith('.meta'))
    if envs - metas:
        a.add('env-without-meta')
    if metas - envs:
        a.add('meta-without-env')
    for d, tag in (('env', 'unpicklable-env'), ('meta', 'unpicklable-meta')):
        for v in tree[d].values():
            try:
                pickle.loads(v)
            except Exception:
                a.add(tag)
    return '+'.join(sorted(a)) or 'clean-tree'


def queue_phase(paths, expect, msgs, need, contents, kw, deliver, late, R):
    """One fresh real Queue (given pool configuration) over a fresh DiskStorage on `paths`.
    Returns [(clause, m, detail)] or None when the watchdog fired."""
    out = []
    retry = deliver == 'retry'
    probe = ProbeStore(D.DiskStorage(*paths))
    relay = RecRelay(deliver is True, retry)
    q = Queue(probe, relay, **kw)
    ncr = len(_crashes)
    want = set(msgs[m]['sender'] for m in need)

    clock = HarnessClock(0.0)

    def reached():
        seen = {}
        for a in relay.attempts:
            seen[a['sender']] = seen.get(a['sender'], 0) + 1
        return all(seen.get(s_, 0) >= (2 if retry else 1) for s_ in want)

    def phase2():
        q.start()
        if late:
            # nothing is due yet: let the start-up scan finish, then make everything due at once
            stable = 0
            while stable < 10:
                gevent.sleep(0.0005)
                gevent.idle()
                stable = stable + 1 if (probe.load_done and probe.inprogress == 0) else 0
            clock.now = 1e11      # past every stored timestamp (Queue-driven histories store real time)
            q.wake.set()
        stable = 0
        while stable < (60 if retry else 25):
            gevent.sleep(0.0005)
            gevent.idle()
            if probe.load_done and probe.inprogress == 0:
                if reached():
                    return
                stable += 1
            else:
                stable = 0

    def drain():
        # a delivering relay makes the Queue remove messages: let those calls finish
        n = 0
        while n < 5:
            gevent.sleep(0.0005)
            gevent.idle()
            n = n + 1 if probe.inprogress == 0 else 0

    post = {}

    def poststate():
        st3 = D.DiskStorage(*paths)
        for m in need:
            try:
                env, att = st3.get(expect[m]['id'])
                post[m] = (list(env.recipients), att, flat(env))
            except Exception as e:
                post[m] = '%s: %s' % (type(e).__name__, e)
    saved_time = Q.time
    if late:
        Q.time = clock
    try:
        w, _ = core.watchdog_call(phase2, 30)
        if w == 'ok' and (deliver is True or retry):
            w, _ = core.watchdog_call(drain, 30)
    finally:
        q.kill()
        gevent.killall(relay.greenlets)
        Q.time = saved_time
    if w == 'ok' and retry:
        w, _ = core.watchdog_call(poststate, 30)
    if w != 'ok':
        R.inconclusive('watchdog: fresh Queue %r did not become quiescent in 30 s' % (sorted(kw),))
        return None
    R.hit('queue-attempts-judged')
    crashes = _crashes[ncr:]
    side = {'queue_kwargs': sorted(kw), 'store_errors': probe.errors[:4], 'greenlet_crashes': crashes[:4]}
    if crashes:
        R.count('fresh-queue-greenlet-crashes', len(crashes))
    for m in need:
        st = expect[m]
        atts, tss, rcs = allowed(msgs[m], st)
        mine = [a for a in relay.attempts if a['sender'] == msgs[m]['sender']]
        if not mine:
            out.append(('queue-not-attempted', m,
                        dict(side, attempted=[a['sender'] for a in relay.attempts])))
            continue
        first_ok = True
        for a in (mine[:1] if retry else mine):
            bad = []
            if a['rcpts'] not in rcs:
                bad.append('recipients')
            if a['attempts'] not in atts:
                bad.append('attempts')
            if a['content'] != contents[m]:
                bad.append('content')
            if bad:
                first_ok = False
                out.append(('queue-attempt-wrong-' + '+'.join(bad), m,
                            dict(side, got_rcpts=a['rcpts'], allowed_rcpts=rcs,
                                 got_attempts=a['attempts'], allowed_attempts=sorted(atts))))
                break
        if retry and first_ok:
            # "resumes retrying it": the failed first attempt of the fresh Queue is followed by another
            # one, with what the first one left over, and the recovered files carry the new state
            R.hit('fresh-queue-retry-judged')
            a1 = mine[0]
            partial = len(a1['rcpts']) >= 2 and len(set(a1['rcpts'])) == len(a1['rcpts'])
            want_rc = a1['rcpts'][:-1] if partial else a1['rcpts']
            det = dict(side, first_attempt_rcpts=a1['rcpts'], first_attempt_attempts=a1['attempts'],
                       first_attempt_outcome='last recipient delivered, others 450' if partial else '450',
                       want_rcpts=want_rc, want_attempts=a1['attempts'] + 1)
            if len(mine) < 2:
                out.append(('queue-retry-not-resumed', m, det))
            else:
                a2, bad = mine[1], []
                if a2['rcpts'] != want_rc:
                    bad.append('recipients')
                if a2['attempts'] != a1['attempts'] + 1:
                    bad.append('attempts')
                if a2['content'] != contents[m]:
                    bad.append('content')
                if bad:
                    out.append(('queue-retry-attempt-wrong-' + '+'.join(bad), m,
                                dict(det, got_rcpts=a2['rcpts'], got_attempts=a2['attempts'])))
                pm, bad = post.get(m), []
                if isinstance(pm, str):
                    out.append(('post-retry-get-raises', m, dict(det, exception=pm)))
                elif pm is not None:
                    if pm[0] != want_rc:
                        bad.append('recipients')
                    if pm[1] != a1['attempts'] + 1:
                        bad.append('attempts')
                    if pm[2] != contents[m]:
                        bad.append('content')
                    if bad:
                        out.append(('post-retry-store-wrong-' + '+'.join(bad), m,
                                    dict(det, got_rcpts=pm[0], got_attempts=pm[1])))
        if len(mine) > (2 if retry else 1):
            R.count('message-attempted-more-than-once-by-fresh-queue')
    # what the fresh Queue hands to the relay besides the required messages: an un-acknowledged or a
    # removed message may be delivered (again) -- but only as it was accepted, never a torn/other content
    by_sender = dict((mm['sender'], i) for i, mm in enumerate(msgs))
    for a in relay.attempts:
        if a['sender'] in want:
            continue
        m = by_sender.get(a['sender'])
        R.count('fresh-queue-attempts-of-messages-not-required(unacked or removed)')
        if m is None or a['content'] != flat(build_envelope(msgs[m])):
            out.append(('queue-attempted-content-never-accepted', m,
                        dict(side, sender=a['sender'], content_head=a['content'][:80])))
            break
    return out


def recover(tree, expect, case, R, where, all_configs=True):
    """Run the recovery oracle on one crash state. Returns a list of
    (clause, message-index-or-None, detail)."""
    out = []
    msgs = case['msgs']
    base = os.path.join(where, 'rec')
    root = os.path.join(base, 't')
    write_tree(tree, root)
    paths = list(layout_paths(root, case.get('layout')))
    vtree = view(tree)
    need = [m for m, st in enumerate(expect) if required(st)]
    contents = {m: flat(build_envelope(msgs[m])) for m in need}
    try:
        # ---- phase 1: fresh DiskStorage: load() and get()
        store = D.DiskStorage(*paths)

        def phase1():
            try:
                loaded = list(store.load())
            except Exception as e:
                return ('load-raises', '%s: %s' % (type(e).__name__, e))
            got = {}
            ids = dict((i, t) for t, i in loaded)
            for m in need:
                i = expect[m]['id']
                if i in ids:
                    try:
                        env, att = store.get(i)
                        got[m] = (ids[i], env.sender, flat(env), list(env.recipients), att)
                    except Exception as e:
                        got[m] = '%s: %s' % (type(e).__name__, e)
            return ('ok', ids, got)
        w, res = core.watchdog_call(phase1, 30)
        if w != 'ok':
            R.inconclusive('watchdog: load()/get() of the fresh DiskStorage did not finish in 30 s')
            return out
        if res[0] == 'load-raises':
            R.hit('recovery-judged')
            out.append(('load-raises', None, {'exception': res[1]}))
            return out
        _, ids, got = res
        R.hit('recovery-judged')
        if need:
            tc = tree_class(tree)
            if 'env-without-meta' in tc:
                R.hit('half-written-state-judged')       # other live messages must still load
            if 'meta-without-env' in tc:
                R.hit('half-removed-state-judged')
            if vtree['tmp']:
                R.hit('leftover-tmp-state-judged')
            if case.get('layout', 'separate') != 'separate':
                R.hit('shared-directory-recovery-judged')
                R.count('shared-directory-recoveries[%s]' % case['layout'])
        # observation only (the statement does not forbid it by itself; its harmful consequences -- other
        # messages not loaded / not attempted, torn content handed to the relay -- are judged below)
        R.count('load-listed-ids-that-are-no-envelope-file(tmp leftovers, orphan meta)',
                sum(1 for i in ids if (i + '.env') not in vtree['env']))
        for m in need:
            st = expect[m]
            atts, tss, rcs = allowed(msgs[m], st)
            if st['id'] not in ids:
                out.append(('lost-message', m, {'listed_ids': sorted(ids)}))
                continue
            g = got[m]
            if isinstance(g, str):
                out.append(('get-raises', m, {'exception': g}))
                continue
            ts, sender, content, rcpts, att = g
            if sender != msgs[m]['sender']:
                out.append(('sender-changed', m, {'got': sender}))
            if content != contents[m]:
                out.append(('content-changed', m, {'got': content, 'want': contents[m]}))
            if rcpts not in rcs:
                out.append(('recipients-wrong', m, {'got': rcpts, 'allowed': rcs}))
            if att not in atts:
                out.append(('attempts-wrong', m, {'got': att, 'allowed': sorted(atts)}))
            if ts not in tss:
                out.append(('timestamp-wrong', m, {'got': ts, 'allowed': sorted(tss)}))

        # ---- phase 2: a fresh real Queue over a fresh DiskStorage resumes retrying
        failed = {}           # (clause, m) -> [config names], first detail
        for name, kw, deliver, late in (QUEUE_CONFIGS if all_configs else QUEUE_CONFIGS[:1]):
            if name == 'default':
                croot = root
            else:
                croot = os.path.join(base, 'q-' + name.replace('=', '').replace(',', '-'))
                write_tree(tree, croot)
            res = queue_phase(list(layout_paths(croot, case.get('layout'))), expect, msgs, need, contents,
                              kw, deliver, late, R)
            if res is None:
                continue
            R.count('fresh-queue-runs[%s]' % name)
            for clause, m, detail in res:
                e = failed.setdefault((clause, m), [[], detail])
                e[0].append(name)
        for (clause, m), (names, detail) in sorted(failed.items(), key=repr):
            out.append((clause, m, dict(detail, queue_configs_failing=names,
                                        queue_configs_run=[c[0] for c in QUEUE_CONFIGS] if all_configs
                                        else ['default'])))
        return out
    finally:
        pass        # `where` is removed once per history


# --------------------------------------------------------------------------- the check

CLAUSES = ('load-raises', 'lost-message', 'get-raises', 'sender-changed', 'content-changed',
           'recipients-wrong', 'attempts-wrong', 'timestamp-wrong', 'queue-not-attempted',
           'queue-retry-not-resumed', 'post-retry-get-raises', 'queue-attempted-content-never-accepted')
CLAUSE_PREFIXES = ('queue-attempt-wrong-', 'queue-retry-attempt-wrong-', 'post-retry-store-wrong-')


def crash_label(s):
    op = s['op']
    kind = op.kind if op else 'idle'
    if s['phase'] == 'op':            # operation boundary: before the first / after the last effect
        return '%s:%s' % (kind, {'start': 'not-started', 'return': 'returned'}.get(s['effect'], s['effect']))
    return '%s:%s-%s-%s' % (kind, s['phase'], s['effect'], s['target'])


def report(R, case, s, found, origin):
    """mechanism = <oracle clause>/<operation(s) in flight that matter>/<state of the victim's files>;
    the exact crash point (effect kind, target, ordinal) goes into the witness, not the mechanism."""
    tree, expect = s['tree'], s['expect']
    for clause, m, detail in found:
        op = s['op']
        culprit = crash_label(s)
        if m is None and clause != 'load-raises':
            kinds = sorted(set(st['inflight'][0] for st in expect if st['inflight']))
            situation = ('during-' + '+'.join(kinds)) if kinds else 'no-op-in-flight'
            dc = tree_class(tree) + ('+leftover-tmp' if view(tree)['tmp'] else '')
        elif m is None:
            # load() raised: the culprits are the listed ids (env present) whose meta is not loadable
            kinds, classes = set(), set()
            for fn in view(tree)['env']:
                if not fn.endswith('.env'):
                    continue
                cls = disk_class(tree, fn[:-4]).split(',')[1]
                if cls == 'meta-ok':
                    continue
                classes.add(cls)
                owner = [st for st in expect if st['id'] == fn[:-4] and st['state'] == 'live']
                if not owner:
                    kinds.add('unacked-write')
                else:
                    kinds.add((owner[0]['inflight'] or ['no-op'])[0])
            if not classes:
                classes = {tree_class(tree)}
                kinds = set(st['inflight'][0] for st in expect if st['inflight']) or {'no-op'}
            situation = 'during-' + '+'.join(sorted(kinds))
            dc = '+'.join(sorted(classes)) + '(%s)' % detail.get('exception', '?').split(':')[0]
        else:
            dc = disk_class(tree, expect[m]['id'])
            inf = expect[m]['inflight']
            if inf:
                situation = 'during-' + inf[0]
            else:
                kinds = sorted(set(st['inflight'][0] for st in expect if st['inflight']))
                situation = ('victim-idle-during-' + '+'.join(kinds) + '-of-other-message') if kinds \
                    else 'no-op-in-flight'
        failing = detail.get('queue_configs_failing') if isinstance(detail, dict) else None
        recognised = clause in CLAUSES or any(clause.startswith(p) for p in CLAUSE_PREFIXES)
        if failing and recognised:
            # which Queue configurations lose it: the default one (then any), or only bounded pools
            cls = sorted(set('backlog-due-together' if n.startswith('due-after-scan') else
                             'retrying-relay' if n == 'retry' else
                             'bounded-store-pool' if n.startswith('store_pool') else
                             'bounded-relay-pool' if n.startswith('relay_pool') else n for n in failing))
            cfg = 'any-queue-config' if 'default' in failing else 'only-' + '+'.join(cls)
            mech = '%s/%s/%s/%s' % (clause, cfg, situation, dc)
        elif recognised:
            mech = '%s/%s/%s' % (clause, situation, dc)
        else:
            mech = 'unclassified/%s' % clause
        what = ('%s: crash point k=%d (%s, %d effect(s) of the op done), message %s, mode %s'
                % (clause, s['k'], culprit, s['done'], 'm%s' % m if m is not None else '-', case['mode']))
        R.violation(mech, what, {
            'origin': origin, 'k': s['k'], 'crash_point': culprit,
            'op_in_flight_at_crash_point': None if op is None else [op.seq, op.m, op.kind, op.arg],
            'victim_message': m, 'expectation': expect, 'clause_detail': detail,
            'tree': tree_summary(tree), 'tree_class': tree_class(tree)})


def run_case(case, R):
    hub = gevent.get_hub()
    if getattr(hub, 'print_exception', None) is not _hub_hook:
        hub.print_exception = _hub_hook
    where = tempfile.mkdtemp(prefix='c04-h%d-' % case['h'], dir=scratch_base())
    try:
        _run_case(case, R, where)
    finally:
        shutil.rmtree(where, ignore_errors=True)


def _run_case(case, R, where):
    root = os.path.join(where, 'live')
    for d in DIRS:
        os.makedirs(os.path.join(root, d))
    model = new_model(case)
    problems = []
    if case.get('xfs_from') is not None:
        par = second_fs_dir()
        if par is None:
            R.count('second-filesystem-not-available')
            case = dict(case, xfs_from=None)
        else:
            case = dict(case, xfs_dir=tempfile.mkdtemp(prefix='h%d-' % case['h'], dir=par))
            R.count('histories-with-tmp_dir-on-another-filesystem')
    tracer = Tracer(root, expect_fn=lambda: copy_model(model))

    w, fu = core.watchdog_call(lambda: run_history(case, root, tracer, model, problems), 90)
    if w != 'ok':
        R.inconclusive('watchdog: the un-killed history did not finish in 90 s')
        return
    if problems:
        R.inconclusive('an operation raised in the un-killed run: ' + core.short('; '.join(problems), 200))
    if fu.collisions:
        R.count('forced-uuid-collisions', fu.collisions)
    if not fu.installed:
        # e.g. ids drawn from `secrets`: everything that works from ACKNOWLEDGED ids is kept; what needs the
        # same ids in the parent and in a killed child (file-name comparison, forced collision) is skipped
        R.count('histories-without-reproducible-id-source(name comparison + forced collision skipped)')
    for k_, v_ in tracer.notes.items():
        R.count(k_, v_)
    R.count('histories-' + case['mode'])
    R.count('histories-layout[%s]' % case.get('layout', 'separate'))
    for k_, v_ in fu.store.notes.items():
        R.count(k_, v_)
    if len(case['msgs'][0]['body']) > 30000:
        R.count('histories-with-an-envelope-over-two-default-aio-chunks')
    for m_, kinds in fu.store.oplog.items():
        if kinds.count('mark') >= 2:
            R.count('messages-with-several-marking-rounds')
        if case['mode'] == 'queue':
            # the operation orders the real Queue produced (run-length compressed)
            comp = [k for i, k in enumerate(kinds) if i == 0 or kinds[i - 1] != k or k == 'inc']
            R.observe('queue-driven-op-order(per message)', tuple(comp[:14]))
    snaps = tracer.snaps
    R.count('snapshots', len(snaps))
    if case['mode'] == 'queue':
        relay = fu.relay
        if relay.stalled:
            R.inconclusive('queue-driven history: the Queue stopped driving the scripted attempts (no store or '
                           'relay activity for 3 s); crash states up to there are judged')
        for m_, id_ in relay.enqueued:
            # "whose enqueue had returned": the id enqueue() hands back is one the storage acknowledged
            R.hit('enqueue-return-checked')
            if fu.store.by_id.get(id_) != m_:
                R.violation('enqueue-returned-id-the-storage-never-acknowledged',
                            'Queue.enqueue returned %r for message m%d; DiskStorage.write acknowledged %r'
                            % (id_, m_, sorted(fu.store.by_id)), {'enqueued': relay.enqueued})
    unaccounted = None
    if case['mode'] == 'seq':
        # effect accounting: between two capture points of a sequential history the tree may change only
        # across an instrumented effect.  A change elsewhere = a durable effect performed through a path the
        # harness does not see.  That is a blind spot of the instrumentation, NOT a defect of slimta: the
        # history is inconclusive for the snapshot stratum and the real-kill stratum decides (below).
        R.hit('effect-accounting-checked')
        for a, b in zip(snaps, snaps[1:]):
            if a['phase'] != 'before' and a['tree'] != b['tree']:
                changed = sorted('%s/%s' % (d, fn) for d in DIRS
                                 for fn in set(a['tree'][d]) | set(b['tree'][d])
                                 if a['tree'][d].get(fn) != b['tree'][d].get(fn))
                op_ = b['op'] or a['op']
                unaccounted = op_
                R.count('histories-with-an-effect-outside-instrumentation')
                R.inconclusive('effect outside instrumentation: %s changed %s between capture points (%s) and '
                               '(%s) with no instrumented effect in between; crash states inside it are not '
                               'enumerated, %d outside SIGKILLs inside that operation decide instead'
                               % (op_.kind if op_ else 'idle',
                                  '+'.join(sorted(set(c.split('/')[0] for c in changed))),
                                  crash_label(a), crash_label(b), NESCAPE_KILLS))
                break

    seen, seen2 = set(), set()
    sampled = False
    for s in snaps:
        op, expect = s['op'], s['expect']
        nlive = sum(1 for st in expect if required(st))
        inside = bool(op is not None and op.total is not None and s['phase'] in ('before', 'after')
                      and 1 <= s['done'] < op.total)
        if op is not None:
            R.observe('crash-point(op,phase,effect,target,ordinal)',
                      (op.kind, s['phase'], s['effect'], s['target'], min(s['done'], 60)))
        if inside:
            R.count('snapshots-strictly-inside-op')
            if nlive >= 1:
                R.nontrivial((case['mode'], op.kind, s['phase'], s['effect'], s['target'],
                              min(s['done'], 60), min(nlive, 3)))
        if case['mode'] in ('conc', 'queue'):
            nin = sum(1 for st in expect if st['inflight'])
            if nin > 1:
                R.count('snapshots-with-several-ops-in-flight')
                R.hit('overlapping-ops-crash-state-judged')
                R.observe('overlap(ops in flight)', tuple(sorted(st['inflight'][0] for st in expect
                                                                 if st['inflight'])))
        th = tree_hash(s['tree'])
        R.observe('distinct-trees', (case['h'], th))
        key = (th, core.jdumps(expect))
        if key in seen:
            R.count('snapshots-deduplicated(same tree+expectation as an earlier one)')
            continue
        seen.add(key)
        # the extra Queue configurations depend on env+meta only (tmp is never read back)
        key2 = (tree_hash(dict(view(s['tree']), tmp={})), key[1])      # files by role: temp files never count
        extra = key2 not in seen2
        seen2.add(key2)
        if extra:
            R.count('crash-states-judged-under-all-queue-configs')
        R.eval()
        found = recover(s['tree'], expect, case, R, where, all_configs=extra)
        if (op is not None and getattr(fu.store, 'xfs_active', False) and op.seq >= fu.store.xfs_seq
                and any(required(st) for st in expect)):
            R.hit('second-filesystem-tmp-judged')
        if case['mode'] == 'queue' and op is not None:
            R.hit('queue-driven-history-judged')
        if found:
            report(R, case, s, found, 'snapshot')
        elif inside and nlive and not sampled:
            sampled = True
            R.sample({'h': case['h'], 'mode': case['mode'], 'ops': case['ops'], 'k': s['k'],
                      'of': len(snaps), 'crash_point': crash_label(s), 'effects_done': s['done'],
                      'tree': {d: {fn: len(v) for fn, v in s['tree'][d].items()} for d in DIRS},
                      'recovered_ok': [st['id'] for st in expect if required(st)]})

    # ---- real-kill cross-check (sequential histories: boundary numbering is deterministic)
    if case['mode'] == 'seq' and not problems:
        for frac in case.get('kills', []):
            k = min(len(snaps) - 1, int(frac * len(snaps)))
            real_kill(case, k, snaps[k], R, where, same_ids=fu.installed)
    # ---- SIGKILL from outside at an instant no instrumentation chose (every mode)
    if not problems:
        nstarts = sum(1 for s in snaps if s['phase'] == 'op' and s['effect'] == 'start')
        for frac, dfrac in case.get('akills', []):
            async_kill(case, 1 + min(nstarts - 1, int(frac * nstarts)), R, where, delay=0.03 * dfrac)
        if unaccounted is not None:
            # the operation that showed the unaccounted effect, killed for real at spread instants
            for i in range(NESCAPE_KILLS):
                R.count('outside-sigkills-inside-an-operation-with-unaccounted-effect')
                async_kill(case, unaccounted.seq + 1, R, where, delay=0.025 * i / NESCAPE_KILLS)


def _kill_dirs(case, where):
    kdir = tempfile.mkdtemp(prefix='kill-', dir=where)
    kroot = os.path.join(kdir, 'live')
    for d in DIRS:
        os.makedirs(os.path.join(kroot, d))
    cfile = os.path.join(kdir, 'case.json')
    if case.get('xfs_dir'):
        case = dict(case, xfs_dir=tempfile.mkdtemp(prefix='k%d-' % case['h'], dir=second_fs_dir()))
    with open(cfile, 'w') as f:
        f.write(core.jdumps(case))
    return kdir, kroot, cfile


def real_kill(case, k, s, R, where, same_ids=True):
    """The child runs the same instrumented history and sends itself SIGKILL inside capture point k."""
    kdir, kroot, cfile = _kill_dirs(case, where)
    try:
        p = subprocess.run([PY, os.path.abspath(__file__), '--child', cfile, kroot, str(k)],
                           timeout=120, stdout=subprocess.PIPE, stderr=subprocess.PIPE)
    except subprocess.TimeoutExpired:
        R.inconclusive('real-kill child timed out')
        return
    if p.returncode != -signal.SIGKILL:
        R.inconclusive('real-kill child did not die of SIGKILL at the kill point (rc=%s): %s'
                       % (p.returncode, p.stderr[-200:].decode('utf-8', 'replace')))
        return
    R.eval()
    killed = read_tree(kroot)
    R.hit('real-kill-compared')
    R.count('real-kills')
    expect = s['expect']
    if not same_ids:
        # the child drew other ids: compare file CONTENTS, take the expectation from the child's own journal
        R.count('real-kills-compared-by-content(ids differ between the runs)')
        expect = fold_journal(case, p.stdout)[0]
    diffs = trees_equal(s['tree'], killed, by_name=same_ids)
    if diffs:
        R.violation('equivalence/real-kill-tree-differs-from-snapshot/' + crash_label(s),
                    'HARNESS EQUIVALENCE (not a slimta defect by itself): tree surviving a real SIGKILL at '
                    'capture point k=%d differs from capture k' % k,
                    {'k': k, 'crash_point': crash_label(s), 'diffs': diffs,
                     'snapshot': tree_summary(s['tree']), 'killed': tree_summary(killed)})
    found = recover(killed, expect, case, R, where)
    if found:
        report(R, case, dict(s, tree=killed, expect=expect), found, 'real-kill')
    shutil.rmtree(kdir, ignore_errors=True)


def fold_journal(case, buf):
    """Expectation from a child's op start/ack journal: acknowledged lines count, a started operation
    without acknowledgement is in flight."""
    model = new_model(case)
    lines = buf.split(b'\n')[:-1]                # a torn last line is no acknowledgement
    finished = False
    for ln in lines:
        rec = core.jdec(json.loads(ln.decode()))
        if rec[0] == 'done':
            finished = True
            continue
        _, seq, m, kind, arg = rec[:5]
        st = model[m]
        if rec[0] == 'start':
            st['inflight'] = [kind, arg]
        elif rec[0] == 'ack':
            model_ack(st, kind, arg, rec[5])
        else:
            st['state'], st['inflight'] = 'unknown', None
    return copy_model(model), finished


def async_kill(case, nth_start, R, where, delay=0.0):
    """The child runs the history with the module's OWN mkstemp / aio_write / os / uuid (only
    AioFile.chunk_size lowered) and writes one journal line per operation start / acknowledgement to a pipe.
    The parent sends SIGKILL from outside once it has read the nth 'start' line (plus a seeded delay of
    0-30 ms) -- the child is then somewhere inside (or past) that operation, at no instrumented point, possibly with AIO requests in
    flight.  Expectation = fold of the journal: acknowledged lines count, a started-but-unacknowledged
    operation may or may not have taken effect.  The surviving directory is recovered like a snapshot."""
    kdir, kroot, cfile = _kill_dirs(case, where)
    p = subprocess.Popen([PY, os.path.abspath(__file__), '--journal-child', cfile, kroot],
                         stdout=subprocess.PIPE, stderr=subprocess.DEVNULL)
    fd = p.stdout.fileno()
    buf, starts, sent, deadline, eof = b'', 0, False, time.time() + 120, False
    try:
        while not eof:
            left = deadline - time.time()
            if left <= 0:
                break
            r, _, _ = select.select([fd], [], [], min(left, 5))
            if not r:
                continue
            data = os.read(fd, 65536)
            if not data:
                eof = True
                break
            buf += data
            if not sent:
                starts = buf.count(b'["start"')
                if starts >= nth_start or b'["done"' in buf:
                    time.sleep(delay)             # spreads the instant over the operation's duration
                    p.kill()                      # SIGKILL
                    sent = True
    finally:
        if not sent:
            p.kill()
        p.wait()
        p.stdout.close()
    if not eof or not sent:
        R.inconclusive('async-kill child: no kill sent within 120 s (journal lines seen: %d)' % starts)
        shutil.rmtree(kdir, ignore_errors=True)
        return
    if p.returncode != -signal.SIGKILL:
        R.inconclusive('async-kill child did not die of SIGKILL (rc=%s)' % p.returncode)
        shutil.rmtree(kdir, ignore_errors=True)
        return
    expect, finished = fold_journal(case, buf)
    killed = read_tree(kroot)
    inflight = sorted(st['inflight'][0] for st in expect if st['inflight'])
    R.eval()
    R.count('async-sigkills')
    if inflight:
        R.count('async-sigkills-with-operation(s)-in-flight')
        R.hit('async-sigkill-inside-operation-judged')
    if finished:
        R.count('async-sigkills-after-the-history-had-finished')
    R.observe('async-sigkill-state(mode,in flight,tree class,tmp leftovers)',
              (case['mode'], tuple(inflight), tree_class(killed), min(len(killed['tmp']), 3)))
    if inflight and sum(1 for st in expect if required(st)):
        R.nontrivial((case['mode'], 'async-sigkill', tuple(inflight), tree_class(killed),
                      min(len(killed['tmp']), 3)))
    found = recover(killed, expect, case, R, where)
    R.hit('async-sigkill-judged')
    if found:
        op = OpCtx(-1, -1, '+'.join(inflight) or 'idle', None)
        report(R, case, {'k': -1, 'tree': killed, 'expect': expect, 'op': op, 'phase': 'async',
                         'effect': 'sigkill', 'target': '-', 'done': -1}, found, 'async-sigkill')
    shutil.rmtree(kdir, ignore_errors=True)


def child_main(argv):
    with open(argv[0]) as f:
        case = core.jdec(json.load(f))
    root, k = argv[1], int(argv[2])
    tracer = Tracer(root, kill_at=k, journal_fd=1)
    model = new_model(case)
    t = gevent.Timeout(90)
    t.start()
    run_history(case, root, tracer, model, [])
    os._exit(3)        # kill point never reached


def journal_child_main(argv):
    with open(argv[0]) as f:
        case = core.jdec(json.load(f))
    gevent.get_hub().print_exception = _hub_hook
    tracer = Tracer(argv[1], journal_fd=1)
    model = new_model(case)
    t = gevent.Timeout(90)
    t.start()
    run_history(case, argv[1], tracer, model, [], light=True)
    tracer.journal('done')
    time.sleep(100)      # waits to be killed
    os._exit(3)


if __name__ == '__main__':
    if len(sys.argv) >= 5 and sys.argv[1] == '--child':
        child_main(sys.argv[2:])
    if len(sys.argv) >= 4 and sys.argv[1] == '--journal-child':
        journal_child_main(sys.argv[2:])
    sys.exit(2)
