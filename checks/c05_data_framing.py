"""C05 -- DATA framing round trip: DataSender -> wire -> DataReader, any segmentation.

Events that refute: DataReader.recv() != expected(x); leftover bytes != trailer;
a read performed when the end-of-data line is already in hand (WouldBlock).
Oracle: identity (+CRLF rule), exact consumption.  The real IO, DataSender and
DataReader classes run unmodified on a ScriptSocket.
"""
import random
import itertools

from vf.sock import ScriptSocket, WouldBlock, segmentations
from slimta.smtp.io import IO
from slimta.smtp.datareader import DataReader
from slimta.smtp.datasender import DataSender
from slimta.smtp import ConnectionLost

PROPERTY = 'C05'
LEVEL = 'exploration'
LEVEL_TEXT = ('Real DataSender/IO/DataReader run on a scripted socket; exhaustive over all messages over '
              '{".",CR,LF,"a"} up to length 5 (quick) / 8 (thorough) x sender part splits x 6 trailers x '
              'pre-buffering x (all or a structured set of) segmentations, plus seeded 8-bit messages; '
              'round-trip identity and exact consumption judged on every evaluation. Held = held on the '
              'millions of evaluations reported, not a proof for longer messages.')
LEVEL_NOTE = 'Trusted: ScriptSocket (60 lines), the expected() rule (x or x+CRLF), segment generator.'
TECHNIQUE = 'runtime monitoring: round-trip + exact-consumption oracle over exhaustive small alphabet and all segmentations'
RULE = ('case = one message x; for it every split of x into sender parts at line boundaries '
        '(cap 16 subsets, plus variants with empty parts at the front, the end and between parts), 6 trailers, pre-buffered first segment or not, and every segmentation '
        'of the wire for wires <= 9 bytes (else whole, bytewise, every single cut, pairs of cuts '
        'around the end-of-data line, seeded random) is one evaluation. x is enumerated '
        'exhaustively over {".",CR,LF,"a"} up to the tier bound, then seeded 8-bit random. '
        'non-trivial & distinct = distinct x that has a dot-leading line, a bare CR/LF, no final '
        'CRLF or is empty')
ASSUMPTIONS = ['ScriptSocket hands out exactly the scripted segments (recv(n) never returns more than n)',
               'sender parts are split only at line boundaries, as the property states']
REQUIRED_HITS = ['reader-returned', 'leftover-compared']
SHARDS = {'quick': 8, 'thorough': 16}
BUDGET = {'quick': 70, 'thorough': 900}
EXHAUSTIVE = {'quick': False, 'thorough': False}

ALPHA = [b'.', b'\r', b'\n', b'a']
TRAILERS = [b'', b'QUIT\r\n', b'.\r\n', b'..x\r\nY', b'\r\n.\r\nMAIL FROM:<a>\r\n', b'.']
BOUND = {'quick': 5, 'thorough': 8}
NRANDOM = {'quick': 400, 'thorough': 20000}


def gen_cases(tier, seed, shard, nshards):
    n = 0
    for L in range(0, BOUND[tier] + 1):
        for tup in itertools.product(ALPHA, repeat=L):
            if n % nshards == shard:
                yield {'x': b''.join(tup), 'kind': 'exh'}
            n += 1
    rnd = random.Random('c05-%d-%d' % (seed, shard))
    pool = [b'.', b'.', b'\r', b'\n', b'\r\n', b'\r\n.', b'\n.', b'a', b'\xff', b'\x00', b'..', b' ']
    for i in range(NRANDOM[tier] // nshards):
        k = rnd.choice([3, 8, 20, 60, 150])
        x = b''.join(rnd.choice(pool) if rnd.random() < 0.8 else bytes([rnd.randrange(256)])
                     for _ in range(rnd.randrange(1, k + 1)))
        yield {'x': x, 'kind': 'rand', 'rs': rnd.randrange(1 << 30)}


def expected(x):
    if x == b'':
        return (b'', b'\r\n')      # the statement is ambiguous for the empty message
    return (x,) if x.endswith(b'\r\n') else (x + b'\r\n',)


def partsets(x, rnd):
    idx = [i + 1 for i, c in enumerate(x) if c == 10 and i + 1 < len(x)]
    if len(idx) <= 4:
        subsets = []
        for r in range(len(idx) + 1):
            subsets.extend(itertools.combinations(idx, r))
    else:
        subsets = [(), tuple(idx)] + [tuple(sorted(rnd.sample(idx, rnd.randint(1, len(idx) - 1))))
                                      for _ in range(6)]
    for n, cuts in enumerate(subsets[:16]):
        parts, last = [], 0
        for c in cuts:
            parts.append(x[last:c])
            last = c
        parts.append(x[last:])
        yield parts
        # a split at offset 0, a repeated split point or a split at the very end is still a split
        # at a line boundary and gives an EMPTY part (the relay itself calls
        # send_data(header_data, message_data) with a possibly empty header block)
        if n < 2:
            yield [b''] + parts
            yield parts + [b'']
            if len(parts) > 1:
                yield parts[:1] + [b''] + parts[1:]
                yield parts[:-1] + [b'', b''] + parts[-1:]


def is_nontrivial(x):
    if x == b'' or not x.endswith(b'\r\n'):
        return True
    if x.startswith(b'.') or b'\n.' in x:
        return True
    y = x.replace(b'\r\n', b'')
    return b'\r' in y or b'\n' in y


def one(x, parts, t, segs, pre):
    """Run the real reader once. Returns (why, out, left)."""
    ss = ScriptSocket(segs[1:] if pre else segs)
    io = IO(ss, address=('h', 1))
    if pre and segs:
        io.recv_buffer = segs[0]
    try:
        out = DataReader(io).recv()
    except WouldBlock:
        return 'reads-when-eod-in-hand', None, None
    except ConnectionLost:
        return 'connection-lost', None, None
    left = io.recv_buffer + ss.unread()
    if out not in expected(x):
        return 'content-differs', out, left
    if left != t:
        return 'leftover-differs', out, left
    return None, out, left


def run_case(case, R):
    x = case['x']
    rnd = random.Random(case.get('rs', 0))
    if is_nontrivial(x):
        R.nontrivial(x)
    first = True
    for parts in partsets(x, rnd):
        wire = b''.join(DataSender(*parts))
        for t in TRAILERS:
            data = wire + t
            eod = len(wire)
            for label, segs in segmentations(data, rnd, focus=(eod, eod - 3, eod - 5),
                                             nrandom=6 if case['kind'] == 'exh' else 10):
                for pre in (False, True):
                    if pre and not segs:
                        continue
                    R.eval()
                    why, out, left = one(x, parts, t, segs, pre)
                    if why != 'reads-when-eod-in-hand' and why != 'connection-lost':
                        R.hit('reader-returned')
                        R.hit('leftover-compared')
                    if why:
                        mech = why + ('/empty-message' if x == b'' else '')
                        R.violation(mech, '%s for x=%r parts=%r trailer=%r' % (why, x[:40], len(parts), t),
                                    {'x': x, 'parts': parts, 'trailer': t, 'segments': segs,
                                     'prebuffered_first_segment': pre, 'got': out, 'leftover': left,
                                     'expected': expected(x)})
                    elif first:
                        first = False
                        if len(x) > 2 and is_nontrivial(x):
                            R.sample({'x': x, 'parts': parts, 'trailer': t, 'segments': segs, 'got': out,
                                      'leftover': left})
