"""C05 -- DATA framing round trip: DataSender -> wire -> DataReader, any segmentation.

Events that refute: DataReader.recv() != expected(x); leftover bytes != trailer;
a read performed when the end-of-data line is already in hand (WouldBlock).
Oracle: identity (+CRLF rule), exact consumption.  The real IO, DataSender and
DataReader classes run unmodified on a ScriptSocket.

Strata
  main   DataReader(io): round-trip identity + exact consumption on every evaluation.
  size   DataReader(io, max_size=m): the statement's second sentence (consumes exactly up to and
         including the end-of-data line, leaves later bytes untouched, result independent of the
         cuts) has no size exception, so it is judged for a reader with a limit as well: leftover
         == trailer whether the reader returned data or raised MessageTooBig, no read past the
         end-of-data line, returned data == expected(x), a wire that is not longer than the limit
         is never refused, and for one (wire, trailer, limit) every segmentation gives the same
         kind of result (data / MessageTooBig).  Which byte count makes a message "too big" is
         NOT prescribed (only: it may not depend on the cuts).

  full   wires whose length up to and including the end-of-data line is exactly k*R, R-1+.., R+1+.. (R = the size
         the reader asks the socket for, observed on the scripted socket, k = 1, 2), delivered as full-size reads:
         a read that fills the buffer and ends with the end-of-data line must not be followed by another read.
         With / without trailer, pre-buffering, with / without max_size; same oracles.

  plain  messages with a long stretch (2-8 KiB) of lines without leading periods next to a period-leading line /
         the end-of-data line: a read boundary directly behind the leading period(s) of every period-leading wire
         line (".", "..", before the period), then the rest in pieces of 1024, 1500, R bytes and whole; with a long
         plain trailer as well (the bytes behind the end-of-data line are then a big period-free read).

The sender is executed through both of its emission paths (DataSender.send(io) + flush, the one
the client uses, and iteration); the reader product is run once per DISTINCT wire of a message:
the reader sees nothing of the sender but the wire, so re-running it for another part split that
produced the identical bytes would repeat identical executions.
"""
import random
import itertools

from vf.sock import ScriptSocket, WouldBlock, segmentations, cut
from slimta.smtp.io import IO
from slimta.smtp.datareader import DataReader
from slimta.smtp.datasender import DataSender
from slimta.smtp import ConnectionLost, MessageTooBig

PROPERTY = 'C05'
LEVEL = 'exploration'
LEVEL_TEXT = ('Real DataSender/IO/DataReader run on a scripted socket; exhaustive over all messages over '
              '{".",CR,LF,"a"} up to length 6 (quick) / 8 (thorough; the longest length comes last, in a fixed shuffled order, as far as the budget allows), all sequences of <= 5 (quick) / 6 (thorough) '
              'tokens over {".","a",CRLF} beyond that length, a designed family of dot+whitespace lines, and seeded '
              '8-bit messages; x every sender part split (both emission paths) x 6 trailers x pre-buffering x (all '
              'or a structured set of) segmentations; round-trip identity and exact consumption judged on every '
              'evaluation. Second stratum: the same reader with max_size at every position of short wires (1..n+1) '
              '/ a spread of positions of longer ones: exact consumption, no stray read, identity when data is '
              'returned, same kind of result under every segmentation. Held = held on the millions of evaluations '
              'reported, not a proof for longer messages.')
LEVEL_NOTE = ('Trusted: ScriptSocket (60 lines), the expected() rule (x or x+CRLF), segment generator, the rule '
              '"a wire of n bytes is within any limit >= n".')
TECHNIQUE = 'runtime monitoring: round-trip + exact-consumption oracle over exhaustive small alphabet and all segmentations'
RULE = ('case = one message x; every split of x into sender parts at line boundaries (cap 16 subsets, plus variants '
        'with empty parts at the front, the end and between parts) is emitted through DataSender.send(io) and '
        'through iteration; for every DISTINCT wire so obtained: 6 trailers, pre-buffered first segment or not, and '
        'every segmentation of the wire for wires <= 9 bytes (else whole, bytewise, every single cut, pairs of cuts '
        'around the end-of-data line, seeded random) is one evaluation. Size stratum per wire: max_size in 1..n+1 '
        '(n = wire length; a spread {1,2,3,n/2,n-3..n+1} for n > 9 or {1,n-1,n} for the '
        'longest exhaustive length, {1,n/2,n-2..n+1} for random messages) x 2 trailers x the same segmentations (extra cut pairs around the byte at '
        'which the limit is crossed) x pre-buffering. x is enumerated exhaustively over {".",CR,LF,"a"} up to the '
        'tier bound, over token sequences {".","a",CRLF} longer than the bound, a designed dot+whitespace family, '
        'then seeded 8-bit random; 36 messages whose wire is k*R-1, k*R, k*R+1 bytes (R = observed read size, '
        'k = 1, 2) fed as full-size reads; 24 messages with 2-8 KiB period-free stretches cut behind the leading '
        'period(s) of each period-leading wire line, the rest in 1024 / 1500 / R-byte pieces or whole. non-trivial & distinct = distinct x that has a dot-leading line, a bare CR/LF, '
        'no final CRLF or is empty')
ASSUMPTIONS = ['ScriptSocket hands out exactly the scripted segments (recv(n) never returns more than n)',
               'sender parts are split only at line boundaries, as the property states',
               'the reader is a function of (wire + trailer, segmentation, pre-buffered prefix, max_size) only: '
               'two part splits that emit identical bytes need one reader product, not two',
               'size stratum: a wire (message + end-of-data line) of n bytes does not exceed a limit >= n; '
               'below that the check does not say which messages are too big, only that the answer is the same '
               'for every segmentation']
REQUIRED_HITS = ['reader-returned', 'leftover-compared', 'sender-send-path', 'full/read-of-exactly-read-size-ends-with-eod',
                 'full/too-big-read-of-exactly-read-size-ends-with-eod', 'plain/big-period-free-read-completes-period-line',
                 'plain/big-period-free-read-completes-eod-line', 'size/leftover-compared-after-too-big',
                 'size/leftover-compared-after-data', 'size/same-result-kind-judged']
SHARDS = {'quick': 16, 'thorough': 16}
BUDGET = {'quick': 70, 'thorough': 900}
EXHAUSTIVE = {'quick': False, 'thorough': False}

ALPHA = [b'.', b'\r', b'\n', b'a']
TOKENS = [b'.', b'a', b'\r\n']
TRAILERS = [b'', b'QUIT\r\n', b'.\r\n', b'..x\r\nY', b'\r\n.\r\nMAIL FROM:<a>\r\n', b'.']
SIZE_TRAILERS = [b'', b'.a\r\n.\r\nQUIT\r\n']
BOUND = {'quick': 6, 'thorough': 8}
TOKBOUND = {'quick': 5, 'thorough': 6}
NRANDOM = {'quick': 400, 'thorough': 20000}


def designed_ws():
    """Lines the reader's lenient end-of-data pattern (dot, optional white space, LF) would take for the
    end of the message if the sender had not stuffed them."""
    for dotws in (b'. ', b'.\t', b'.  ', b'.\x0b', b'.\x0c', b'.\r', b'. \r', b' .', b'\t.', b' . '):
        for eol in (b'\r\n', b'\n'):
            for pre in (b'', b'a\r\n', b'\n'):
                for suf in (b'', b'a', b'.\r\n'):
                    yield pre + dotws + eol + suf


def gen_cases(tier, seed, shard, nshards):
    n = 0
    B = BOUND[tier]

    def exh(L):
        nonlocal n
        for tup in itertools.product(ALPHA, repeat=L):
            if n % nshards == shard:
                yield {'x': b''.join(tup), 'kind': 'exh'}
            n += 1

    def exh_top(L):
        # the longest length in a fixed pseudo-random order (an odd multiplier is a bijection on 4**L), so that a
        # run cut by the budget has seen a spread of it and not only the strings that begin with "."
        N = 4 ** L
        for j in range(shard, N, nshards):
            i = (j * 40503 + 12345) % N
            yield {'x': b''.join(ALPHA[(i >> (2 * k)) & 3] for k in range(L)), 'kind': 'exh', 'top': True}

    for L in range(0, B):
        for c in exh(L):
            yield c
    for x in designed_ws():
        if n % nshards == shard:
            yield {'x': x, 'kind': 'ws'}
        n += 1
    for k in (1, 2):
        for delta in (-1, 0, 1):
            for variant in ('plain', 'dots', 'no-final-crlf', 'bare-lf', 'one-long-line', 'dot-last-line'):
                if n % nshards == shard:
                    yield {'x': b'', 'kind': 'full', 'k': k, 'delta': delta, 'variant': variant, 'rs': 77 + n}
                n += 1
    for shape in ('dot-first', 'dot-mid', 'lone-dot-first', 'dot-last'):
        for S in (2048, 5000, 8192):
            for longline in (False, True):
                if n % nshards == shard:
                    yield {'x': b'', 'kind': 'plainrun', 'shape': shape, 'S': S, 'longline': longline, 'rs': 99 + n}
                n += 1
    for L in range(1, TOKBOUND[tier] + 1):
        for tup in itertools.product(TOKENS, repeat=L):
            x = b''.join(tup)
            if len(x) <= B:
                continue            # already in the byte-exhaustive part
            if n % nshards == shard:
                yield {'x': x, 'kind': 'tok'}
            n += 1
    rnd = random.Random('c05-%d-%d' % (seed, shard))
    pool = [b'.', b'.', b'\r', b'\n', b'\r\n', b'\r\n.', b'\n.', b'a', b'\xff', b'\x00', b'..', b' ']
    for i in range(NRANDOM[tier] // nshards):
        k = rnd.choice([3, 8, 20, 60, 150])
        x = b''.join(rnd.choice(pool) if rnd.random() < 0.8 else bytes([rnd.randrange(256)])
                     for _ in range(rnd.randrange(1, k + 1)))
        yield {'x': x, 'kind': 'rand', 'rs': rnd.randrange(1 << 30)}
    # the longest exhaustive length comes last: if the soft budget cuts the generator, only part of it is lost
    # (and the evidence says so: budget_exhausted_before_generator_end)
    for c in exh_top(B):
        yield c


def expected(x):
    if x == b'':
        return (b'', b'\r\n')      # the statement is ambiguous for the empty message
    return (x,) if x.endswith(b'\r\n') else (x + b'\r\n',)


def partsets(x, rnd):
    idx = [i + 1 for i, c in enumerate(x) if c == 10 and i + 1 < len(x)]
    if len(idx) <= 4:
        subsets = []
        for r in range(len(idx) + 1):
            subsets.extend(itertools.combinations(idx, r))
    else:
        subsets = [(), tuple(idx)] + [tuple(sorted(rnd.sample(idx, rnd.randint(1, len(idx) - 1))))
                                      for _ in range(6)]
    for n, cuts in enumerate(subsets[:16]):
        parts, last = [], 0
        for c in cuts:
            parts.append(x[last:c])
            last = c
        parts.append(x[last:])
        yield parts
        # a split at offset 0, a repeated split point or a split at the very end is still a split
        # at a line boundary and gives an EMPTY part (the relay itself calls
        # send_data(header_data, message_data) with a possibly empty header block)
        if n < 2:
            yield [b''] + parts
            yield parts + [b'']
            if len(parts) > 1:
                yield parts[:1] + [b''] + parts[1:]
                yield parts[:-1] + [b'', b''] + parts[-1:]


def is_nontrivial(x):
    if x == b'' or not x.endswith(b'\r\n'):
        return True
    if x.startswith(b'.') or b'\n.' in x:
        return True
    y = x.replace(b'\r\n', b'')
    return b'\r' in y or b'\n' in y


def emit_send(parts):
    """What DataSender.send(io) followed by a flush puts on the socket (the client's path)."""
    ss = ScriptSocket([])
    io = IO(ss, address=('h', 1))
    DataSender(*parts).send(io)
    io.flush_send()
    return b''.join(ss.sent)


def read(segs, pre, max_size=None):
    """Run the real reader once. Returns (kind, out, left); kind 'data' | 'too-big' | a failure word."""
    ss = ScriptSocket(segs[1:] if pre else segs)
    io = IO(ss, address=('h', 1))
    if pre and segs:
        io.recv_buffer = segs[0]
    reader = DataReader(io) if max_size is None else DataReader(io, max_size)
    kind, out = 'data', None
    try:
        out = reader.recv()
    except WouldBlock:
        return 'reads-when-eod-in-hand', None, None
    except ConnectionLost:
        return 'connection-lost', None, None
    except MessageTooBig:
        kind = 'too-big'
    return kind, out, io.recv_buffer + ss.unread()


def one(x, parts, t, segs, pre):
    """Main stratum. Returns (why, out, left)."""
    kind, out, left = read(segs, pre)
    if kind == 'too-big':
        return 'content-differs', 'MessageTooBig raised without a limit', left
    if kind != 'data':
        return kind, None, None
    if out not in expected(x):
        return 'content-differs', out, left
    if left != t:
        return 'leftover-differs', out, left
    return None, out, left


def size_limits(n, case):
    if n <= 9 and not case.get('top'):
        return list(range(1, n + 2))
    if case.get('top'):
        return sorted(set(m for m in (1, n - 1, n) if m >= 1))
    if case['kind'] == 'rand':
        return sorted(set(m for m in (1, n // 2, n - 2, n - 1, n, n + 1) if m >= 1))
    return sorted(set(m for m in (1, 2, 3, n // 2, n - 3, n - 2, n - 1, n, n + 1) if m >= 1))


def size_stratum(x, parts, wire, case, rnd, R):
    """DataReader(io, max_size=m) over the same wire: see the module docstring."""
    n = len(wire)
    emp = '/empty-message' if x == b'' else ''
    for m in size_limits(n, case):
        R.observe('size/limit-position', (min(m, 4), min(max(n - m, -1), 4)))
        for t in SIZE_TRAILERS:
            data = wire + t
            kinds = {}
            for label, segs in segmentations(data, rnd, focus=(n, n - 3, m, m + 1), nrandom=2, pair_window=2):
                for pre in (False, True):
                    if pre and not segs:
                        continue
                    R.eval()
                    kind, out, left = read(segs, pre, m)
                    why = None
                    if kind == 'data':
                        R.hit('size/leftover-compared-after-data')
                        if out not in expected(x):
                            why = 'content-differs'
                        elif left != t:
                            why = 'leftover-differs/data-returned'
                    elif kind == 'too-big':
                        R.hit('size/leftover-compared-after-too-big')
                        if m >= n:
                            why = 'refused-although-wire-within-limit'
                        elif left != t:
                            why = 'leftover-differs/after-too-big'
                    else:
                        why = kind
                    if kind in ('data', 'too-big') and kind not in kinds:
                        kinds[kind] = (segs, pre)
                    if why:
                        R.violation('size-limit/' + why + emp,
                                    '%s with max_size=%d (wire %d bytes) for x=%r trailer=%r'
                                    % (why, m, n, x[:40], t),
                                    {'x': x, 'parts': parts, 'wire': wire, 'max_size': m, 'trailer': t,
                                     'segments': segs, 'prebuffered_first_segment': pre, 'result': kind,
                                     'got': out, 'leftover': left, 'expected': expected(x)})
            R.hit('size/same-result-kind-judged')
            if len(kinds) > 1:
                R.violation('size-limit/result-depends-on-segmentation' + emp,
                            'max_size=%d (wire %d bytes): data returned under one segmentation, MessageTooBig '
                            'under another, for x=%r trailer=%r' % (m, n, x[:40], t),
                            {'x': x, 'parts': parts, 'wire': wire, 'max_size': m, 'trailer': t,
                             'data_returned_with': {'segments': kinds['data'][0],
                                                    'prebuffered_first_segment': kinds['data'][1]},
                             'too_big_with': {'segments': kinds['too-big'][0],
                                              'prebuffered_first_segment': kinds['too-big'][1]}})
            elif kinds:
                R.count('size/all-segmentations-' + next(iter(kinds)))


class ProbeSocket(ScriptSocket):
    """Remembers the size the code under test asks for."""
    asked = None

    def recv(self, n, *flags):
        self.asked = n
        return ScriptSocket.recv(self, n, *flags)


def read_size():
    ss = ProbeSocket([b'x'])
    IO(ss, address=('h', 1)).raw_recv()
    return ss.asked


def full_message(target, variant):
    """A message whose wire (message + end-of-data line) should be `target` bytes long."""
    if variant == 'no-final-crlf':
        body = target - 5               # the sender adds CRLF . CRLF
        return (b'a' * 62 + b'\r\n') * ((body - 1) // 64) + b'b' * (body - 64 * ((body - 1) // 64))
    body = target - 3
    if variant == 'one-long-line':
        return b'L' * (body - 2) + b'\r\n'
    if variant == 'dots':               # every line is stuffed: 64 wire bytes per 63 message bytes
        line, wl = b'.' + b'd' * 60 + b'\r\n', 64
    elif variant == 'bare-lf':
        line, wl = b'a' * 63 + b'\n', 64
    else:
        line, wl = b'a' * 62 + b'\r\n', 64
    q, r = divmod(body, wl)
    if r < 3:
        q, r = q - 1, r + wl
    last = (b'.' + b'z' * (r - 4) + b'\r\n') if variant == 'dot-last-line' else (b'z' * (r - 2) + b'\r\n')
    return line * q + last


def full_read_stratum(case, R):
    rsz = read_size()
    R.observe('full/read-size', rsz)
    rnd = random.Random(case['rs'])
    k, delta = case['k'], case['delta']
    x = full_message(k * rsz + delta, case['variant'])
    R.nontrivial(('full', k, delta, case['variant']))
    R.eval()
    wire = emit_send([x])
    R.hit('sender-send-path')
    n = len(wire)
    if n != k * rsz + delta:
        R.count('full/wire-length-not-as-planned')
    for t in (b'', b'QUIT\r\n', b'.\r\nQUIT\r\n'):
        data = wire + t
        cutsets = [[], list(range(rsz, len(data), rsz)), [rsz - 1], [rsz + 1], [rsz, rsz + 1], [1], [n - 1], [n - 3],
                   [n], [n - rsz] if n > rsz else [n - 2], [1] + list(range(rsz + 1, len(data), rsz))]
        cutsets += [sorted(rnd.sample(range(1, len(data)), 3)) for _ in range(3)]
        for cuts in cutsets:
            segs = cut(data, sorted(set(c for c in cuts if 0 < c < len(data))))
            for pre in (False, True):
                for m in (None, n, n - 1, 100):
                    R.eval()
                    kind, out, left = read(segs, pre, m)
                    # which reads does the socket hand out?  (a scripted segment longer than R comes in R-sized reads)
                    ends, pos = [], 0
                    for i, sg in enumerate(segs):
                        if pre and i == 0:
                            pos += len(sg)
                            continue
                        for off in range(0, len(sg), rsz):
                            ln = min(rsz, len(sg) - off)
                            ends.append((pos + off + ln, ln))
                    full_eod = (n, rsz) in ends and t == b''
                    why = None
                    if kind == 'data':
                        R.hit('reader-returned')
                        R.hit('leftover-compared')
                        if full_eod:
                            R.hit('full/read-of-exactly-read-size-ends-with-eod')
                        if out not in expected(x):
                            why = 'content-differs'
                        elif left != t:
                            why = 'leftover-differs'
                    elif kind == 'too-big':
                        R.hit('size/leftover-compared-after-too-big')
                        if full_eod:
                            R.hit('full/too-big-read-of-exactly-read-size-ends-with-eod')
                        if m is None or m >= n:
                            why = 'refused-although-wire-within-limit'
                        elif left != t:
                            why = 'leftover-differs/after-too-big'
                    else:
                        why = kind
                    if why:
                        stem = ('size-limit/' if m is not None else '') + why
                        R.violation(stem + ('/read-fills-buffer' if (n, rsz) in ends else ''),
                                    '%s: wire of %d bytes (read size %d, k=%d, delta=%d, %s) trailer=%r max_size=%r'
                                    % (why, n, rsz, k, delta, case['variant'], t, m),
                                    {'variant': case['variant'], 'wire_length': n, 'read_size': rsz, 'trailer': t,
                                     'max_size': m, 'segment_lengths': [len(sg) for sg in segs],
                                     'prebuffered_first_segment': pre, 'result': kind,
                                     'got_length': len(out) if isinstance(out, bytes) else out,
                                     'leftover': left, 'a_read_of_exactly_read_size_ends_with_eod': (n, rsz) in ends})


def plain_run_stratum(case, R):
    rsz = read_size()
    S = case['S']
    plain = (b'P' * (S - 2) + b'\r\n') if case['longline'] else (b'a' * 62 + b'\r\n') * (S // 64)
    x = {'dot-first': b'.head\r\n' + plain,
         'dot-mid': b'intro line\r\n' * 12 + b'.mid\r\n' + plain,
         'lone-dot-first': b'.\r\n' + plain,
         'dot-last': plain + b'.tail\r\n'}[case['shape']]
    R.nontrivial(('plainrun', case['shape'], S, case['longline']))
    R.eval()
    wire = emit_send([x])
    R.hit('sender-send-path')
    n = len(wire)
    # offsets of the first period of every period-leading wire line (the last one is the end-of-data line)
    dots = [0] if wire.startswith(b'.') else []
    at = wire.find(b'\n.')
    while at != -1:
        dots.append(at + 1)
        at = wire.find(b'\n.', at + 1)
    long_trailer = b''.join(b'NOOP %04d %s\r\n' % (i, b't' * 50) for i in range(32))
    for t in (b'', b'QUIT\r\n', long_trailer):
        data = wire + t
        for p in dots:
            is_eod = p == n - 3
            heads = [[p], [p + 1], [p + 2], [p, p + 1], [p + 1, p + 2], [p, p + 1, p + 2]]
            for head in heads:
                head = [c for c in head if 0 < c < len(data)]
                if not head:
                    continue
                for piece in (1024, 1500, rsz, None):
                    cuts = head + (list(range(head[-1] + piece, len(data), piece)) if piece else [])
                    segs = cut(data, cuts)
                    for pre in (False, True):
                        for m in (None, n, 100):
                            R.eval()
                            kind, out, left = read(segs, pre, m)
                            big_next = len(data) - head[-1] >= 1024 and (piece is None or piece >= 1024)
                            why = None
                            if kind == 'data':
                                R.hit('reader-returned')
                                R.hit('leftover-compared')
                                if big_next:
                                    R.hit('plain/big-period-free-read-completes-' +
                                          ('eod-line' if is_eod else 'period-line'))
                                if out not in expected(x):
                                    why = 'content-differs'
                                elif left != t:
                                    why = 'leftover-differs'
                            elif kind == 'too-big':
                                R.hit('size/leftover-compared-after-too-big')
                                if m is None or m >= n:
                                    why = 'refused-although-wire-within-limit'
                                elif left != t:
                                    why = 'leftover-differs/after-too-big'
                            else:
                                why = kind
                            if why:
                                R.violation(('size-limit/' if m is not None else '') + why + '/cut-behind-leading-period',
                                            '%s: %s message with a %d-byte period-free stretch, read boundary at %s of '
                                            'the %s, then pieces of %s; trailer %d bytes, max_size=%r'
                                            % (why, case['shape'], S, [c - p for c in head],
                                               'end-of-data line' if is_eod else 'period-leading line',
                                               piece or 'the rest', len(t), m),
                                            {'shape': case['shape'], 'stretch': S, 'one_long_line': case['longline'],
                                             'wire_length': n, 'period_offset': p, 'cuts_relative_to_period':
                                             [c - p for c in head], 'piece_size': piece, 'trailer_length': len(t),
                                             'max_size': m, 'prebuffered_first_segment': pre, 'result': kind,
                                             'segment_lengths': [len(sg) for sg in segs][:12],
                                             'got_head': out[:40] if isinstance(out, bytes) else out,
                                             'got_length': len(out) if isinstance(out, bytes) else None,
                                             'expected_length': len(expected(x)[0]), 'leftover_head': (left or b'')[:60]})


def run_case(case, R):
    if case.get('kind') == 'full':
        return full_read_stratum(case, R)
    if case.get('kind') == 'plainrun':
        return plain_run_stratum(case, R)
    x = case['x']
    rnd = random.Random(case.get('rs', 0))
    if is_nontrivial(x):
        R.nontrivial(x)
    first = True
    # --- the sender: every part split through both emission paths; distinct wires are kept
    wires = {}
    for parts in partsets(x, rnd):
        R.eval()
        R.count('sender/part-splits-emitted')
        sent = emit_send(parts)
        R.hit('sender-send-path')
        it = b''.join(DataSender(*parts))
        if it != sent:
            R.count('sender/iteration-differs-from-send')
            wires.setdefault(it, parts)
        wires.setdefault(sent, parts)
    R.count('sender/distinct-wires', len(wires))
    # --- the reader: full product once per distinct wire
    for wire, parts in wires.items():
        for t in TRAILERS:
            data = wire + t
            eod = len(wire)
            for label, segs in segmentations(data, rnd, focus=(eod, eod - 3, eod - 5),
                                             nrandom=6 if case['kind'] != 'rand' else 10):
                for pre in (False, True):
                    if pre and not segs:
                        continue
                    R.eval()
                    why, out, left = one(x, parts, t, segs, pre)
                    if why != 'reads-when-eod-in-hand' and why != 'connection-lost':
                        R.hit('reader-returned')
                        R.hit('leftover-compared')
                    if why:
                        mech = why + ('/empty-message' if x == b'' else '')
                        R.violation(mech, '%s for x=%r parts=%r trailer=%r' % (why, x[:40], len(parts), t),
                                    {'x': x, 'parts': parts, 'trailer': t, 'segments': segs,
                                     'prebuffered_first_segment': pre, 'got': out, 'leftover': left,
                                     'expected': expected(x)})
                    elif first:
                        first = False
                        if len(x) > 2 and is_nontrivial(x):
                            R.sample({'x': x, 'parts': parts, 'trailer': t, 'segments': segs, 'got': out,
                                      'leftover': left})
        size_stratum(x, parts, wire, case, rnd, R)
