"""C06 -- a relay hop through the library's own edges preserves sender, recipients and content.

An end-to-end differential hop.  The envelope e handed to ``Relay.attempt`` is compared with the envelope
e' that the library's *own* receiving edge hands to its queue:

  SMTP  real StaticSmtpRelay(socket_creator=...) -> gevent socketpair -> real SmtpEdge(None, capture_queue).handle
        The edge's Server is re-configured at construction (``slimta.edge.smtp.Server`` is substituted by a
        factory that builds the real Server and then drops extensions); SIZE / STARTTLS / AUTH come from the
        documented SmtpEdge arguments; "EHLO answered 500" (HELO fall-back) from a validator.
  HTTP  real HttpRelay(url) -> loopback TCP -> gevent.pywsgi server built by WsgiEdge.build_server -> WsgiEdge
  LMTP  real StaticLmtpRelay -> socketpair -> vf.downstream.Downstream(lmtp=True)  (the library has no
        LMTP-receiving edge: sender / recipients / content are taken as that independent server received them;
        its raw command lines are parsed here by an RFC 5321 path parser that knows quoted-pairs)

Events that refute (each has its own oracle clause):
  delivered   an un-scripted hop of a valid envelope is not received exactly once / is reported failed
  sender      e'.sender != e.sender                  recipients   e'.recipients != e.recipients (order, dups)
  content     b''.join(e'.flatten()) not in {M, M+CRLF} with M = b''.join(e.flatten()) taken before the attempt
  extensions  the relay client's extension table after each EHLO/LHLO != the table the server advertised
  reply       the result / error Relay.attempt reports does not carry the code the edge gave
  unmixed     3 messages over one connection: every message arrives as itself, results belong to their message
Conditional classes (judged only as the statement allows): non-ASCII recipient without SMTPUTF8 => kept back by
the relay (not offered to the server, not reported delivered) while the ASCII recipients of the same message
arrive intact and are reported delivered, or the whole message is refused; non-ASCII sender without SMTPUTF8 =>
refused or intact; nothing arrives altered; 8-bit data without 8BITMIME => refused permanently, or intact, or converted so that it
decodes to the same text (C20's clause).

Audit extension (strata added after the coverage audit; each has its own counter / mechanism family):
  many-recipients   60..300 recipients in one envelope (every transport)
  long lines / big  header fields > 998 bytes, 300 fields, body lines of 1000..70000 bytes, bodies of 100..250 kB
  header shapes     header-only data (no blank line), a line without colon, bare-LF header lines, a white-space-only
                    continuation line
  normal forms      addresses that are not in Unicode NFC / NFKC (e + U+0301, Hangul jamo, U+212B / U+2126, ligatures,
                    full-width letters) in local parts and domains, sender and recipients; the NFC and the NFD spelling
                    of one string side by side as two recipients; oracle unchanged (same code points, same order)
  address classes   upper/mixed case local parts and domains, source routes (judged leniently: identical or route
                    stripped), "Postmaster"
  reply classes     the edge's queue answers with a RelayError (not only QueueError), a QueueError without reply;
                    reply texts with quotes / semicolons / back-slashes / latin-1 / non-latin-1 / several lines /
                    empty / long; Reply.command given as str or bytes (what the library's own relays produce)
  client info       OBSERVED ONLY (not in the statement; counters client-info/agrees|disagrees/..., never a violation):
                    client['name'] / ['protocol'] / ['ip'] / ['auth'] recorded by the edge vs what the relay was
                    configured with (ehlo_as string or callable, TLS, AUTH, HELO fall-back); LHLO name for LMTP;
                    X-Ehlo as shown to WsgiValidators.  Judged: WsgiValidators see the same sender / recipients
  chunked           every socket of the hop (relay side and edge side; SMTP, LMTP relay side, HTTP both sides, TLS
                    included) returns at most N bytes per recv()/recv_into(), N in 1, 3, 7, 16, 61: every designed
                    case once more with a seeded N, every SMTP / LMTP configuration with N = 1, 7, 16, 10 % of the
                    random cases; same oracles (multi-line EHLO/LHLO replies, replies and data arrive in many reads)
  extensions        arbitrary extra keywords (hyphenated names, multi-word / numeric parameters), a server whose
                    table changes after STARTTLS (pre-TLS-only keyword, AUTH and a different SIZE after TLS), three
                    connections of one relay to servers with different tables (tables compared per connection;
                    the conditional classes follow the table of the connection that carried the message)
"""
import re
import random
import unicodedata
import base64
import email
import traceback

import gevent
from gevent import socket as gsocket
from gevent import ssl as gssl

from pysasl.identity import ClearIdentity

from vf import tls as vtls
from vf.core import watchdog_call, khash
from vf.downstream import Downstream

import slimta.edge.smtp as edge_smtp
import slimta.edge.wsgi as edge_wsgi
from slimta.edge.smtp import SmtpEdge, SmtpSession, SmtpValidators
from slimta.edge.wsgi import WsgiEdge
from slimta.smtp.server import Server as RealServer
from slimta.smtp.reply import Reply
from slimta.relay import RelayError, PermanentRelayError, TransientRelayError
from slimta.relay.smtp import SmtpRelayError
from slimta.relay.smtp.static import StaticSmtpRelay, StaticLmtpRelay
from slimta.relay.smtp.client import SmtpRelayClient
from slimta.relay.smtp.lmtpclient import LmtpRelayClient
from slimta.relay.http import HttpRelay, HttpRelayClient
from slimta.envelope import Envelope
from slimta.queue import QueueError

PROPERTY = 'C06'
LEVEL = 'exploration'
LEVEL_TEXT = ('Real relay clients (StaticSmtpRelay, StaticLmtpRelay, HttpRelay) deliver generated envelopes to the '
              'library\'s own SmtpEdge (socketpair) / WsgiEdge (gevent.pywsgi on loopback) -- LMTP to an independent '
              'scripted server -- under a matrix of server configurations (PIPELINING / 8BITMIME / SMTPUTF8 / SIZE / '
              'STARTTLS / AUTH advertised or not, extra keywords, a table that changes after STARTTLS, three servers '
              'with different tables, HELO fall-back, connection reuse, 7-bit conversion). Sender, '
              'recipient list (1..300 recipients), flattened content (lines up to 70 kB, bodies up to 250 kB, odd '
              'header-block shapes), extension tables per connection, reported reply codes (queue / relay / validator '
              'answers with nine reply-text classes and str / bytes commands) are compared exactly on every hop; the '
              'client info the edge records is observed and counted only. Held = held on the hops reported; not a proof for other '
              'addresses, messages or configurations.')
LEVEL_NOTE = ('Trusted: the capture queue / recording session+validator subclasses (observe only, scripted refusals '
              'are decided by message ordinal and recipient index), the address grammar (RFC 5321 4.1.2 / RFC 6531 '
              '3.3), parse_path (35 lines), split_fields, vf.downstream for the LMTP leg, the stdlib decoder for the '
              '7-bit clause.')
TECHNIQUE = 'runtime monitoring: end-to-end differential hop (envelope in vs envelope out) through the real relay and edge'
RULE = ('case = one relay+edge pair (transport x server configuration) and 1 or 3 messages (3 = connection reuse, '
        'idle_timeout set, sequential or concurrent submission); evaluation = one Relay.attempt (one hop). A designed '
        'grid (every configuration -- incl. implicit TLS, https and the WsgiEdge built through its listener= '
        'argument -- x every address class / body kind, scripted reply codes) comes first, then seeded random '
        'cases: sender/recipients from a grammar of valid addresses (plain, atext specials, quoted local parts with '
        '> @ space , < ; and quoted-pairs \\" \\\\, UTF-8 local parts/domains, null sender, 64-octet local parts, '
        'address literals), 1..5 recipients incl. duplicates, header blocks of 1..6 fields (folded, 8-bit, duplicate '
        'names, every line <= 78 bytes), bodies (dot lines, bare LF/CR, empty, no final newline, NUL, 8-bit, UTF-8 '
        'text). Audit strata (designed + random): 60..300 recipients; header fields > 998 bytes, 300 fields, '
        'header-only data, a line without colon, bare-LF header lines, a white-space-only continuation line; body '
        'lines of 1000..70000 bytes, bodies of 100..250 kB; mixed-case and source-routed addresses; queue answers '
        'as QueueError with/without reply and as RelayError, reply texts with quotes / semicolons / back-slashes / '
        'latin-1 / non-latin-1 / several lines / empty / long, Reply.command as str or bytes; extra extension '
        'keywords, table change after STARTTLS, three connections to servers with different tables; ehlo_as and '
        'credentials as callables, tls_required; WsgiValidators recording what the HTTP edge shows them; a '
        'transport delivering at most 1 / 3 / 7 / 16 / 61 bytes per read in both directions (all designed cases '
        'again, every SMTP / LMTP configuration with 1, 7, 16, 10 % of the random cases). '
        'non-trivial = a hop whose envelope has an address needing quoting / UTF-8 / null sender, or >= 2 '
        'recipients, or whose server has a non-default extension set; distinct by (transport, address class set, '
        'extension/config set, body class)')
ASSUMPTIONS = ['LMTP: the library has no LMTP-receiving edge; the LMTP leg is judged against what the independent '
               'vf.downstream server received (its raw MAIL/RCPT lines parsed by parse_path, its own un-dot-stuffing)',
               '"what the server advertised" is the server\'s Extensions table at the moment of the EHLO callback '
               '(name -> str(param), falsy param = no parameter); it is cross-checked against the configured set and '
               'a mismatch there makes the case inconclusive, not a verdict',
               '"the reply code the edge gave" is the code on the Reply object when the edge session\'s callback for '
               'that command returns (recording SmtpSession subclass); for HTTP it is the code of the scripted '
               'QueueError.reply / the default 250',
               'PTR lookups are stubbed (no resolver threads); TLS uses the run\'s self-signed certificate',
               '7-bit clause: "same text" is compared as the same sequence of lines (CRLF / LF / CR all count as a '
               'line end), because the conversion re-parses the message with universal newlines; exact line ends '
               'after conversion are C20\'s known finding encode-7bit/base64/line-ends-differ, not re-reported here',
               'SMTPUTF8 not in effect (dropped at the SMTP edge, absent from the LMTP server\'s list, HELO fall-back): '
               'a non-ASCII recipient must not reach the server and must not be reported delivered (a per-recipient '
               'failure is the expected shape, its permanent/transient class is only counted); refusing the whole '
               'message is acceptable too; if the message is delivered, its ASCII recipients must arrive in order '
               'with identical content and be reported delivered. A non-ASCII sender, and 8-bit data without '
               '8BITMIME, may be refused in any way; only "arrives altered" and "reported delivered but not '
               'received" refute there',
               'SIZE with a small limit: messages within 60 bytes of the limit are judged on consistency only',
               'configuration class: AUTH PLAIN/LOGIN is offered only together with TLS (the library\'s server refuses '
               'them 504 on a clear channel by design; CRAM-MD5 is used in clear) and relay credentials are not '
               'combined with the HELO fall-back (no AUTH without EHLO); the edge\'s auth= argument is given as bytes '
               'names (the documented str names make SASLAuth.named raise KeyError -- noted, not judged here)',
               'HTTP: connection reuse is judged on intact / un-mixed arrival only (the number of TCP connections is '
               'not observed); the reply text is not compared, only the code and the permanent/transient class',
               'source routes (@a,@b:mailbox) are the one lenient address class: the path must arrive identical or '
               'with the route stripped (RFC 5321 lets a receiver ignore it); anything else counts as altered',
               'client info is observed, not judged (the statement does not name it; agreements / disagreements are '
               'counters client-info/agrees|disagrees/... in the evidence): expected client[name] is the configured ehlo_as (string, or the value its callable '
               'returns), client[protocol] is SMTP after the HELO fall-back else ESMTP, +S when TLS was configured and '
               'could be negotiated (implicit, or STARTTLS without HELO fall-back), +A with relay credentials; '
               'HTTP / HTTPS for the WSGI edge; client[ip] is the loopback address of the harness',
               'HTTP reply clause: when the request never reached the edge\'s queue (refused by the HTTP server '
               'below the edge, or the edge application failed before it had an answer) the edge gave no SMTP code; '
               'such a message is judged by the delivery clause only (un-scripted = refused valid hop)',
               'reply-text / command classes are inputs only: the oracle still compares codes and the permanent / '
               'transient class; the LMTP leg uses one-line texts only (its independent server frames one line)',
               'a server whose table changes after STARTTLS is built with the session hook the Server calls after '
               'the handshake (TLSHANDSHAKE2) mutating Server.extensions; extra keywords are added to the real '
               'Server at construction like the drops; "three servers" = three sequential connections of one relay '
               '(no idle_timeout), message k on connection k, conditional classes follow that connection\'s table',
               'multipart / mislabelled-CTE down-conversion is left to C20 (encode_7bit); BINARYMIME / CHUNKING are not '
               'implemented by the library and only appear as advertised keywords']
REQUIRED_HITS = ['non-nfc-address-compared', 'smtp-hop-delivered', 'http-hop-delivered', 'lmtp-hop-delivered', 'sender-compared',
                 'recipients-compared', 'content-compared', 'extensions-compared', 'reply-code-compared',
                 'per-recipient-rejection-judged', 'reuse-one-connection', 'tls-hop', 'auth-hop', 'helo-fallback-hop',
                 # audit strata
                 'many-recipients-hop', 'long-line-hop', 'big-body-hop', 'odd-header-block-hop',
                 'queue-relay-error-judged', 'reply-text-class-judged',
                 'extra-extensions-compared', 'post-tls-extensions-compared', 'multi-connection-extensions-compared',
                 'http-validators-compared', 'chunked-transport-hop', 'chunked-extensions-compared']
SHARDS = {'quick': 10, 'thorough': 16}
BUDGET = {'quick': 55, 'thorough': 800}
EXHAUSTIVE = {'quick': False, 'thorough': False}

NRANDOM = {'quick': 3000, 'thorough': 60000}
WATCHDOG = 25.0

USER, SECRET = 'relay-user@x.test', 'correct horse'
DEFAULT_EXTS = ('8BITMIME', 'ENHANCEDSTATUSCODES', 'PIPELINING', 'SMTPUTF8')

M_QP_REFUSED = 'smtp/address/quoted-pair-in-quoted-local-part-refused-501'
M_QP_TRUNC = 'smtp/address/quoted-pair-in-quoted-local-part-cut-at-gt'


# ------------------------------------------------------------------------------------------ stubs / patches

class _NoPtr(object):
    """PTR lookups need a resolver thread and the network; the hop does not."""

    def __init__(self, ip):
        pass

    def start(self):
        pass

    def finish(self, runtime=None):
        return None

    def kill(self, block=True):
        pass


edge_smtp.PtrLookup = _NoPtr
edge_wsgi.PtrLookup = _NoPtr

_LAB = [None]          # the SMTP lab whose edge is currently serving (cases run one at a time)


def _server_factory(sock, handlers, *args, **kwargs):
    """Stands where slimta.edge.smtp.Server stood: builds the real Server, then removes extensions."""
    srv = RealServer(sock, handlers, *args, **kwargs)
    lab = _LAB[0]
    handlers._vf_conn = None
    if lab is not None:
        k = lab.sock_conn.get(id(sock), len(lab.servers))
        handlers._vf_conn = k
        for name, param in lab.cfg.get('add') or ():
            srv.extensions.add(name, param)
        for name in list(lab.cfg.get('drop', ())) + conn_drops(lab.cfg, k):
            srv.extensions.drop(name)
        lab.servers.append(srv)
    handlers._vf_server = srv
    return srv


edge_smtp.Server = _server_factory

_crashes = []


def conn_drops(cfg, k):
    """Extra keywords dropped by the server of connection k (audit stratum 'three servers'; message k = connection k)."""
    cd = cfg.get('conn_drop')
    return list(cd[k % len(cd)]) if cd else []


def _hook_hub():
    hub = gevent.get_hub()
    if getattr(hub, '_vf_c06', False):
        return

    def print_exception(context, type_, value, tb):
        _crashes.append('%s in %r: %s' % (getattr(type_, '__name__', type_), context, value))
    hub.print_exception = print_exception
    hub._vf_c06 = True


_ctx = {}


# ---- a transport that delivers few bytes per read (stratum 'chunked'): every socket the harness hands to the relay
#      clients and to the edges is of these classes; recv()/recv_into()/read() return at most _CHUNK[0] bytes while
#      that is set (one case runs at a time), and behave like the plain gevent classes otherwise.
_CHUNK = [None]
CHUNK_SIZES = [1, 3, 7, 16, 61]


class ChunkSocket(gsocket.socket):

    def recv(self, bufsize, flags=0):
        n = _CHUNK[0]
        return gsocket.socket.recv(self, min(bufsize, n) if n else bufsize, flags)

    def recv_into(self, buffer, nbytes=0, flags=0):
        n = _CHUNK[0]
        if n:
            nbytes = min(nbytes or len(buffer), n)
        return gsocket.socket.recv_into(self, buffer, nbytes, flags)


class ChunkSSLSocket(gssl.SSLSocket):

    def read(self, nbytes=2014, buffer=None):
        n = _CHUNK[0]
        if n:
            nbytes = min(nbytes if nbytes else (len(buffer) if buffer is not None else n), n)
        return gssl.SSLSocket.read(self, nbytes, buffer)


class ChunkContext(gssl.SSLContext):
    __slots__ = ()
    sslsocket_class = ChunkSSLSocket


def to_chunk(sock):
    """The same connection as a ChunkSocket (the original object is detached)."""
    if isinstance(sock, (ChunkSocket, gssl.SSLSocket)):
        return sock
    return ChunkSocket(sock.family, sock.type, sock.proto, fileno=sock.detach())


def chunk_create_connection(*args, **kwargs):
    return to_chunk(gsocket.create_connection(*args, **kwargs))


def chunk_handle(server):
    """gevent server: every accepted plain socket becomes a ChunkSocket (TLS ones are made by ChunkContext)."""
    inner = server.handle

    def handle(sock, address):
        return inner(to_chunk(sock), address)
    server.handle = handle


def server_ctx():
    if 's' not in _ctx:
        cert, key = vtls.cert_files()
        ctx = ChunkContext(gssl.PROTOCOL_TLS_SERVER)
        ctx.load_cert_chain(cert, key)
        _ctx['s'] = ctx
    return _ctx['s']


def client_ctx():
    if 'c' not in _ctx:
        ctx = ChunkContext(gssl.PROTOCOL_TLS_CLIENT)
        ctx.check_hostname = False
        ctx.verify_mode = gssl.CERT_NONE
        _ctx['c'] = ctx
    return _ctx['c']


# ------------------------------------------------------------------------------------------ address grammar

ATEXT_SPECIAL = "!#$%&'*+-/=?^_`{|}~"
QTEXT_POOL = ['>', '@', ' ', ',', '<', ';', ':', '(', ')', '[', ']', '.', '..', 'a', 'b', 'Z', '0', '!', "'", '=',
              '>', '@', ' ', ',']
QPAIR_POOL = ['\\"', '\\\\', '\\"', '\\\\', '\\ ', '\\a', '\\>', '\\@']
# strings that are NOT in Unicode normal form C (and some not in NFKC): decomposed letters, Hangul jamo, the
# compatibility singletons ANGSTROM SIGN / OHM SIGN, ligatures, full-width letters.  The hop must carry the code
# points it was given (same code points, same order) -- a normalising client or edge changes the address.
U_NON_NFC_LOCAL = ['e\u0301ric', 'cafe\u0301', 'a\u0308o\u0308u\u0308', 'n\u0303.o\u0302', 'q\u0307\u0323',
                   '\u1112\u1161\u11ab\u1100\u1173\u11af', '\u1100\u1161', '\u212bngstrom', '\u2126hm',
                   'o\ufb03ce', '\ufb01sh', '\uff55\uff53\uff45\uff52', '\u01c4ak', 's\u0323\u0307']
U_NON_NFC_DOMAIN = ['cafe\u0301.test', 'bu\u0308cher.example', '\u1112\u1161\u11ab.test', '\u212b.test',
                    '\u2126.example', 'o\ufb03ce.test', '\uff45\uff58.test', 'sub.e\u0301.test']
U_LOCAL = ['\u00fcser', 'j\u00f8rn', '\u7528\u6237', '\u03b4\u03bf\u03ba\u03b9\u03bc\u03ae', 'us\u00e9r.n\u00e4me',
           '\U0001f600mail', '\u00e9'] + U_NON_NFC_LOCAL[::2]
U_DOMAIN = ['ex\u00e4mple.test', '\u4f8b\u3048.jp', 'b\u00fccher.example', 'sub.\u00fc.test'] + U_NON_NFC_DOMAIN[::3]
A_DOMAIN = ['x.test', 'y.test', 'sub.example.org', 'a-b.c-d.test', 'xn--bcher-kva.example', 'x1.y2.z3.test',
            'EXAMPLE.Test']
LITERAL = ['[127.0.0.1]', '[IPv6:::1]', '[IPv6:2001:db8::1]', '[192.0.2.55]']
ADDR_KINDS = ['plain', 'plain', 'plain', 'atext', 'quoted', 'quoted', 'quoted-qp', 'quoted-qp', 'utf8-local',
              'utf8-domain', 'utf8-both', 'long', 'literal', 'quoted-utf8', 'mixed-case', 'source-route',
              'non-nfc', 'non-nfc']


def gen_address(rnd, kind):
    dom = rnd.choice(A_DOMAIN)
    if kind == 'null':
        return ''
    if kind == 'plain':
        loc = '.'.join(''.join(rnd.choice('abcdefghijklmnopqrstuvwxyz0123456789') for _ in range(rnd.randrange(1, 8)))
                       for _ in range(rnd.choice([1, 1, 2, 3])))
    elif kind == 'atext':
        loc = '.'.join(''.join(rnd.choice('abcxyz09' + ATEXT_SPECIAL * 2) for _ in range(rnd.randrange(1, 8)))
                       for _ in range(rnd.choice([1, 1, 2])))
    elif kind == 'quoted':
        loc = '"' + ''.join(rnd.choice(QTEXT_POOL) for _ in range(rnd.randrange(0, 9))) + '"'
    elif kind == 'quoted-qp':
        items = [rnd.choice(QTEXT_POOL) if rnd.random() < 0.55 else rnd.choice(QPAIR_POOL)
                 for _ in range(rnd.randrange(1, 9))]
        if not any(i.startswith('\\') for i in items):
            items[rnd.randrange(len(items))] = rnd.choice(QPAIR_POOL)
        loc = '"' + ''.join(items) + '"'
    elif kind == 'quoted-utf8':
        loc = '"' + ''.join(rnd.choice(QTEXT_POOL + U_LOCAL) for _ in range(rnd.randrange(1, 6))) + \
              rnd.choice(U_LOCAL) + '"'
    elif kind == 'utf8-local':
        loc = rnd.choice(U_LOCAL) + rnd.choice(['', '.x', '+tag'])
    elif kind == 'utf8-domain':
        loc, dom = 'rcpt%d' % rnd.randrange(100), rnd.choice(U_DOMAIN)
    elif kind == 'utf8-both':
        loc, dom = rnd.choice(U_LOCAL), rnd.choice(U_DOMAIN)
    elif kind == 'long':
        n = rnd.choice([64, 64, 63, 50])
        if rnd.random() < 0.5:
            loc = ''.join(rnd.choice('abcdefghij') for _ in range(n))
        else:
            loc = '"' + ''.join(rnd.choice('abc >@,') for _ in range(n - 2)) + '"'
        if rnd.random() < 0.3:
            dom = '.'.join('d' * 30 for _ in range(5)) + '.test'
    elif kind == 'literal':
        loc, dom = 'user%d' % rnd.randrange(100), rnd.choice(LITERAL)
    elif kind == 'non-nfc':
        r = rnd.random()
        loc = rnd.choice(U_NON_NFC_LOCAL) if r < 0.75 else 'rcpt%d' % rnd.randrange(100)
        if rnd.random() < 0.25:
            loc = '"' + loc + rnd.choice([' ', '>', '@', '']) + rnd.choice(U_NON_NFC_LOCAL) + '"'
        if r >= 0.5:
            dom = rnd.choice(U_NON_NFC_DOMAIN)
    elif kind == 'mixed-case':
        loc = '.'.join(''.join(rnd.choice('abcxyzABCXYZ09') for _ in range(rnd.randrange(1, 8)))
                       for _ in range(rnd.choice([1, 1, 2]))) + rnd.choice(['', '', '+Tag', '+TAG.x'])
        if loc == loc.lower():
            loc = 'Q' + loc
        dom = ''.join(c.upper() if rnd.random() < 0.4 else c for c in dom)
    elif kind == 'source-route':
        hops = ','.join('@' + rnd.choice(A_DOMAIN) for _ in range(rnd.choice([1, 1, 2, 3])))
        return hops + ':' + gen_address(rnd, rnd.choice(['plain', 'plain', 'atext', 'quoted', 'mixed-case']))
    else:
        raise ValueError(kind)
    return loc + '@' + dom


def route_of(a):
    """-> (route, mailbox) of a path with an RFC 5321 source route ('@a,@b:mailbox'), else ('', a)."""
    if a.startswith('@') and ':' in a:
        r, _, mbox = a.partition(':')
        return r + ':', mbox
    return '', a


def same_address(want, got):
    """The statement's 'same address'.  A source route is the one lenient class: RFC 5321 lets a receiver strip
    it, so the mailbox alone is accepted too (counted by the caller)."""
    return want == got or (route_of(want)[0] != '' and got == route_of(want)[1])


def split_address(a):
    """-> (local, domain) of a *valid* address (the local part may be a quoted string)."""
    a = route_of(a)[1]
    if a.startswith('"'):
        i = 1
        while i < len(a):
            if a[i] == '\\':
                i += 2
                continue
            if a[i] == '"':
                break
            i += 1
        return a[:i + 1], a[i + 2:]
    loc, _, dom = a.rpartition('@')
    return loc, dom


def addr_features(a):
    """Stable input classes of one address (used for mechanisms and the distinct-case key)."""
    if a == '':
        return ('null',)
    loc, dom = split_address(a)
    f = set()
    if route_of(a)[0]:
        f.add('source-route')
    if not loc.startswith('"') and loc != loc.lower():
        f.add('upper-local')
    if dom != dom.lower() and not dom.startswith('['):
        f.add('upper-domain')
    if loc.startswith('"'):
        inner = loc[1:-1]
        f.add('quoted')
        i = 0
        while i < len(inner):
            c = inner[i]
            if c == '\\' and i + 1 < len(inner):
                n = inner[i + 1]
                f.add('qp-dquote' if n == '"' else 'qp-backslash' if n == '\\' else 'qp-other')
                if n == '>':
                    f.add('q-gt')
                i += 2
                continue
            if c == '>':
                f.add('q-gt')
            elif c == '@':
                f.add('q-at')
            elif c == ' ':
                f.add('q-space')
            elif c == ',':
                f.add('q-comma')
            i += 1
    elif any(ch in ATEXT_SPECIAL for ch in loc):
        f.add('atext-special')
    if unicodedata.normalize('NFC', a) != a:
        f.add('not-nfc')
    elif unicodedata.normalize('NFKC', a) != a:
        f.add('not-nfkc')
    if any(ord(ch) > 127 for ch in loc):
        f.add('utf8-local')
    if any(ord(ch) > 127 for ch in dom):
        f.add('utf8-domain')
    if len(loc.encode('utf-8')) >= 50:
        f.add('long-local')
    if dom.startswith('['):
        f.add('literal-domain')
    return tuple(sorted(f)) or ('plain',)


def needs_care(a):
    f = addr_features(a)
    return f != ('plain',) and f != ('atext-special',) and f != ('literal-domain',)


def is_ascii(s):
    return all(ord(c) < 128 for c in s)


def parse_path(line):
    """Independent RFC 5321 parser of 'MAIL FROM:<path> params' / 'RCPT TO:<path> params' (raw bytes).
    -> (address bytes, params bytes) or None.  Knows quoted strings and quoted-pairs."""
    m = re.match(br'(?i)\s*(MAIL\s+FROM|RCPT\s+TO):\s*<', line)
    if not m:
        return None
    rest = line[m.end():]
    if rest[:1] == b'>':
        return b'', rest[1:].strip()
    # the path ends at the first '>' outside a quoted string (a quoted local part may follow a source route)
    i, quoted = 0, False
    while True:
        c = rest[i:i + 1]
        if c == b'':
            return None
        if quoted:
            if c == b'\\':
                i += 2
                continue
            if c == b'"':
                quoted = False
        elif c == b'"':
            quoted = True
        elif c == b'>':
            return rest[:i], rest[i + 1:].strip()
        i += 1


# ------------------------------------------------------------------------------------------ message generator

NAMES = [b'Subject', b'From', b'To', b'Cc', b'Received', b'Date', b'Message-ID', b'X-Spam', b'DKIM-Signature',
         b'Return-Path', b'SUBJECT', b'List-Unsubscribe', b'Reply-To', b'X-a', b'X-Long-Header-Name-For-Testing']
VPOOL = [b'a', b'b', b'Z', b'0', b'9', b' ', b' ', b'\t', b':', b'=', b'?', b'<', b'>', b'"', b',', b';', b'(', b')',
         b'@', b'.', b'\\', b'[', b']', b'-', b'_', b'/', b'%', b'~', b'!', b'#', b'word', b'=?', b'?=',
         b'\xc3\xa9', b'\xe2\x82\xac', b'\xe6\x97\xa5\xe6\x9c\xac', b'\xf0\x9f\x98\x80', b'\xe9', b'\xff', b'\x80']
APOOL = [t for t in VPOOL if all(c < 128 for c in t)]


def gen_line(rnd, maxlen, ascii_only):
    maxlen = max(1, maxlen)
    target = maxlen if rnd.random() < 0.1 else rnd.randrange(1, maxlen + 1)
    pool = APOOL if ascii_only else VPOOL
    out = b''
    while len(out) < target:
        t = rnd.choice(pool)
        if len(out) + len(t) > target:
            t = b'x'
        out += t
    return out.strip(b' \t') or b'x'


HEADER_KINDS = ['long', 'many', 'header-only', 'nocolon', 'barelf', 'wsline']


def gen_odd_headers(rnd, marker, hkind):
    """Audit strata: header blocks the basic generator never makes.  -> complete data up to (and for most kinds
    including) the blank line; the marker is always the first field (the LMTP server finds messages by it)."""
    first = b'X-Verif-Msg: ' + marker.encode('ascii') + b'\r\n'
    if hkind == 'long':
        # unfolded fields far beyond 78 / 998 bytes, and one field folded into very many lines
        n = rnd.choice([79, 200, 997, 998, 999, 1200, 5000])
        out = first + b'Subject: ' + gen_line(rnd, n, rnd.random() < 0.7) + b'\r\n'
        if rnd.random() < 0.5:
            out += b'References:' + b''.join(b'\r\n <%d@x.test>' % i for i in range(rnd.choice([3, 40, 200]))) + b'\r\n'
        if rnd.random() < 0.5:
            out += b'X-NoSpace:' + b'y' * rnd.choice([100, 1000, 3000]) + b'\r\n'
        return out + b'\r\n'
    if hkind == 'many':
        return first + b''.join(b'Received: from h%d.test by x.test; id %d\r\n' % (i, i)
                                for i in range(rnd.choice([60, 150, 300]))) + b'\r\n'
    if hkind == 'header-only':
        # no blank line at all; with and without a final line end
        return first + b'Subject: only headers' + rnd.choice([b'\r\n', b'', b'\r\n folded\r\n'])
    if hkind == 'nocolon':
        return first + b'Subject: x\r\n' + rnd.choice([b'this line has no colon', b'>From somebody', b'=junk', b'\xff\xfe']) + \
            b'\r\nX-After: 1\r\n\r\n'
    if hkind == 'barelf':
        return first + rnd.choice([b'Subject: x\nX-B: y\n\n', b'Subject: x\n folded\nX-B: y\r\n\n', b'Subject: x\r\nX-B: y\n\r\n'])
    if hkind == 'wsline':
        # a continuation line that holds white space only (RFC 5322 4.2 obs-fold), inside and at the end of the block
        return first + rnd.choice([b'Subject: x\r\n \r\nX-After: 1\r\n\r\n', b'Subject: x\r\n\t\r\n\r\n',
                                   b'Subject: x\r\n  \r\n y\r\nX-After: 1\r\n\r\n'])
    raise ValueError(hkind)


def header_class(data):
    """Shape classes of the header block of message data as handed to Envelope.parse (audit strata)."""
    block, sep, _ = data.partition(b'\r\n\r\n')
    f = set()
    lines = re.split(br'\r\n|\n', block)
    if any(len(ln) > 998 for ln in lines):
        f.add('line>998')
    elif any(len(ln) > 78 for ln in lines):
        f.add('line>78')
    if len(lines) > 50:
        f.add('many-lines')
    if not re.search(br'\r?\n\r?\n', data):
        f.add('no-blank-line')
    if re.search(br'(?<!\r)\n', block):
        f.add('bare-lf')
    if any(ln.strip(b' \t') == b'' and ln != b'' for ln in lines):
        f.add('ws-only-line')
    if any(ln and ln[:1] not in b' \t' and b':' not in ln for ln in lines):
        f.add('no-colon-line')
    return tuple(sorted(f))


def gen_headers(rnd, marker, ascii_only=False, mime=False, hkind=None):
    """Well-formed header block (CRLF, every line <= 78 bytes), first field is the marker."""
    if hkind:
        return gen_odd_headers(rnd, marker, hkind)
    out = [b'X-Verif-Msg: ' + marker.encode('ascii')]
    if mime:
        out += [b'MIME-Version: 1.0', b'Content-Type: text/plain; charset=utf-8']
    names = []
    for _ in range(rnd.choice([0, 1, 1, 2, 3, 5])):
        name = rnd.choice(names) if names and rnd.random() < 0.25 else rnd.choice(NAMES)
        names.append(name)
        sep = b': ' if rnd.random() < 0.85 else b':'
        a_only = ascii_only or rnd.random() < 0.5
        out.append(name + sep + gen_line(rnd, 78 - len(name) - len(sep), a_only))
        for _ in range(rnd.choice([0, 0, 0, 1, 2])):
            ws = rnd.choice([b' ', b'\t', b'  ', b' \t'])
            out.append(ws + gen_line(rnd, 78 - len(ws), a_only))
    return b''.join(ln + b'\r\n' for ln in out) + b'\r\n'


BODY_KINDS = ['plain', 'plain', 'dots', 'barelf', 'barecr', 'empty', 'nofinal', 'nul', '8bit', 'utf8text', 'mixed',
              'mixed', 'big', 'longline']
LONG_LINE = [999, 1000, 1001, 2000, 4095, 4096, 4097, 8191, 8192, 8193, 12288, 20000, 70000]
FIXED_BODIES = {
    'plain': [b'hello\r\n', b'line one\r\nline two\r\n'],
    'dots': [b'.\r\n', b'..\r\n.\r\n', b'.dot line\r\n..two\r\n. \r\nx\r\n', b'x\r\n.\r\ny\r\n', b'\r\n.\r\n',
             b'.\r\nQUIT\r\n', b'.'],
    'barelf': [b'a\nb\n', b'a\n.\nb\r\n', b'\n', b'\n.\n', b'x\r\n\n.\nRSET\n'],
    'barecr': [b'a\rb\r\n', b'\r', b'a\r.\r\n', b'\r.\r', b'x\r\r\n'],
    'empty': [b''],
    'nofinal': [b'no newline at end', b'a\r\nb', b'a\r\n.', b'x\r', b'x\n'],
    'nul': [b'\x00', b'a\x00b\r\n', b'\x00\r\n.\x00\r\n'],
    '8bit': [b'\xff\xfe\r\n', b'caf\xe9\r\n', b'\x80', b'\xc3\xa9t\xc3\xa9\r\n.\xff\r\n'],
    'utf8text': [b'caf\xc3\xa9 \xe2\x82\xac\r\n', b'\xe6\x97\xa5\xe6\x9c\xac\xe8\xaa\x9e\r\nline 2\r\n',
                 b'.\xc3\xa9 dot first\r\nx = y\r\n'],
}
BPOOL = [b'.', b'.', b'\r', b'\n', b'\r\n', b'\r\n.', b'\n.', b'a', b'\xff', b'\x00', b'..', b' ', b'\t', b':',
         b'text ', b'\r\n\r\n', b'\xc3\xa9', b'X: y', b'QUIT', b'MAIL FROM:<x@y>']
ABPOOL = [t for t in BPOOL if all(0 < c < 128 for c in t)]


def gen_body(rnd, kind):
    if kind in FIXED_BODIES and rnd.random() < 0.6:
        return rnd.choice(FIXED_BODIES[kind])
    if kind == 'empty':
        return b''
    if kind == 'utf8text':
        return b''.join(rnd.choice([b'caf\xc3\xa9', b'text', b'.dot', b'a = b', b'\xe2\x82\xac 5', b'', b'x' * 70]) + b'\r\n'
                        for _ in range(rnd.randrange(1, 6)))
    if kind == 'big':
        return b''.join(rnd.choice([b'x' * 60, b'.y' * 30, b'z']) + b'\r\n' for _ in range(rnd.randrange(8, 40)))
    if kind == 'longline':
        # lines far beyond 998 bytes and beyond one / two / many 4096-byte reads, dot-leading or not
        out = b''
        for _ in range(rnd.choice([1, 1, 2, 3])):
            n = rnd.choice(LONG_LINE) + rnd.choice([0, 0, -1, 1, 7])
            ln = rnd.choice([b'', b'', b'.', b'..', b'. ']) + rnd.choice([b'x', b'ab ', b'.', b'long line \t'])
            ln = (ln * (n // len(ln) + 1))[:n]
            out += ln + rnd.choice([b'\r\n', b'\r\n', b'\r\n', b'\n', b'\r\n.\r\n', b'\r\nshort\r\n'])
        return out if rnd.random() < 0.8 else out.rstrip(b'\r\n') + b'!'
    if kind == 'huge':
        # 100..250 kB: the message crosses very many reads / socket buffers
        unit = [b'.' + b'z' * 75 + b'\r\n', b'x' * 76 + b'\r\n', b'..\r\n', b'\r\n', b'y' * 997 + b'\r\n',
                b'.' * 4096 + b'\r\n', b'q' * 5000 + b'\n']
        out, target = [], rnd.choice([100000, 150000, 250000])
        size = 0
        while size < target:
            u = rnd.choice(unit) * rnd.choice([1, 5, 50])
            out.append(u)
            size += len(u)
        return b''.join(out) + rnd.choice([b'', b'', b'end without newline'])
    n = rnd.randrange(1, rnd.choice([4, 10, 30, 80]) + 1)
    if kind == 'plain':
        return b''.join(rnd.choice([b'word', b' ', b'x', b'line']) for _ in range(n)) + b'\r\n'
    if kind in ('dots', 'barelf', 'barecr', 'nofinal'):
        pool = ABPOOL
    else:
        pool = BPOOL
    out = b''.join(rnd.choice(pool) if rnd.random() < 0.85 or pool is ABPOOL else bytes([rnd.randrange(256)])
                   for _ in range(n))
    if kind == 'nul':
        out += b'\x00'
    if kind == '8bit':
        out += b'\xe9'
    if kind == 'nofinal':
        out = out.rstrip(b'\r\n') + b'z'
    return out


def body_class(body):
    f = set()
    if body == b'':
        f.add('empty')
    if body.startswith(b'.') or b'\n.' in body:
        f.add('dot-line')
    if re.search(br'(?<!\r)\n', body):
        f.add('bare-lf')
    if re.search(br'\r(?!\n)', body):
        f.add('bare-cr')
    if body and not body.endswith(b'\r\n'):
        f.add('no-final-crlf')
    if b'\x00' in body:
        f.add('nul')
    if any(c > 127 for c in body):
        f.add('8bit')
    if len(body) >= 100000:
        f.add('>=100kB')
    if body and max(len(ln) for ln in body.split(b'\n')) > 998:
        f.add('line>998')
    return tuple(sorted(f)) or ('plain',)


def split_fields(block):
    """Independent header splitter (no email package): -> [[lower-case name, unfolded value]]."""
    fields = []
    for line in block.split(b'\r\n'):
        if line == b'':
            break
        if line[:1] in (b' ', b'\t') and fields:
            fields[-1][1] += line
        else:
            name, _, rest = line.partition(b':')
            fields.append([name.lower(), rest])
    return [[n, v.strip(b' \t')] for n, v in fields]


# ------------------------------------------------------------------------------------------ workload

def smtp_cfg(**kw):
    cfg = {'drop': [], 'size': None, 'tls': False, 'auth': None, 'mech': None, 'helo': False, 'reuse': False,
           'concurrent': False, 'encoder': None,
           # audit strata: extra keywords [[name, param|None]], table changes after STARTTLS {'add':..,'drop':..},
           # per-connection extra drops (3 messages, one connection each), ehlo_as / credentials as callables,
           # tls_required on the relay
           'add': [], 'post_tls': None, 'conn_drop': None, 'ehlo_fn': False, 'cred_fn': False, 'tls_required': False}
    cfg.update(kw)
    return cfg


EXTRA_EXTS = [['DSN', None], ['X-EXPERIMENTAL', 'alpha beta=2'], ['CHUNKING', None], ['DELIVERBY', '0'],
              ['X-A-B-C', None], ['VRFY', None], ['LIMITS', 'RCPTMAX=500 MAILMAX=10'], ['X1', '1']]
EHLO_NAME, EHLO_FN_NAME = 'relay.test', 'relay-from-callable.test'


def ehlo_name(cfg):
    return EHLO_FN_NAME if cfg.get('ehlo_fn') else EHLO_NAME


SMTP_GRID = [
    ('default', smtp_cfg()),
    ('no-pipelining', smtp_cfg(drop=['PIPELINING'])),
    ('no-8bitmime', smtp_cfg(drop=['8BITMIME'])),
    ('no-smtputf8', smtp_cfg(drop=['SMTPUTF8'])),
    ('bare', smtp_cfg(drop=['PIPELINING', '8BITMIME', 'SMTPUTF8', 'ENHANCEDSTATUSCODES'])),
    ('size-big', smtp_cfg(size=1000000)),
    ('size-small', smtp_cfg(size=600)),
    ('starttls', smtp_cfg(tls=True)),
    ('tls-immediately', smtp_cfg(tls='immediate')),
    ('tls-immediately-auth-reuse', smtp_cfg(tls='immediate', auth=['PLAIN', 'LOGIN'], reuse=True)),
    ('starttls-auth-plain', smtp_cfg(tls=True, auth=['PLAIN'])),
    ('starttls-auth-login', smtp_cfg(tls=True, auth=['LOGIN'], mech='LOGIN')),
    ('auth-cram', smtp_cfg(auth=['CRAM-MD5'])),
    ('auth-cram-forced', smtp_cfg(auth=['CRAM-MD5', 'PLAIN'], mech='CRAM-MD5')),
    ('starttls-auth-multi-nopipe', smtp_cfg(tls=True, auth=['PLAIN', 'LOGIN', 'CRAM-MD5'], drop=['PIPELINING'])),
    ('helo', smtp_cfg(helo=True)),
    ('reuse', smtp_cfg(reuse=True)),
    ('reuse-concurrent', smtp_cfg(reuse=True, concurrent=True)),
    ('reuse-nopipe', smtp_cfg(reuse=True, drop=['PIPELINING'])),
    ('reuse-tls-size', smtp_cfg(reuse=True, tls=True, size=600)),
    ('no-8bitmime-qp', smtp_cfg(drop=['8BITMIME'], encoder='quopri')),
    ('no-8bitmime-b64', smtp_cfg(drop=['8BITMIME'], encoder='base64')),
    # ---- audit strata
    ('extra-exts', smtp_cfg(add=EXTRA_EXTS[:5], ehlo_fn=True)),
    ('extra-exts-reuse-nopipe', smtp_cfg(add=EXTRA_EXTS[3:], drop=['PIPELINING'], reuse=True)),
    ('starttls-required-credfn', smtp_cfg(tls=True, tls_required=True, auth=['PLAIN'], cred_fn=True, ehlo_fn=True)),
    # the table changes after STARTTLS: a clear-only keyword goes, AUTH appears, SIZE changes its parameter
    ('starttls-table-changes', smtp_cfg(tls=True, size=2000, add=[['X-CLEAR-ONLY', 'yes'], ['DSN', None]],
                                        post_tls={'drop': ['X-CLEAR-ONLY', 'ENHANCEDSTATUSCODES'],
                                                  'add': [['SIZE', '5000000'], ['X-SECURE', None]]})),
    ('starttls-table-changes-reuse', smtp_cfg(tls=True, reuse=True, add=[['X-CLEAR-ONLY', None]],
                                              post_tls={'drop': ['X-CLEAR-ONLY', 'PIPELINING'], 'add': []})),
    # three connections of one relay, every server with its own table
    ('three-servers', smtp_cfg(conn_drop=[[], ['SMTPUTF8', 'PIPELINING'], ['8BITMIME', 'ENHANCEDSTATUSCODES']],
                               add=[['DSN', None]])),
    ('three-servers-b', smtp_cfg(conn_drop=[['SMTPUTF8', '8BITMIME', 'DSN'], [], ['PIPELINING']], add=[['DSN', None]],
                                 ehlo_fn=True)),
]
LMTP_GRID = [
    ('lmtp-default', {'exts': ['8BITMIME', 'SMTPUTF8', 'ENHANCEDSTATUSCODES'], 'pipelining': True, 'tls': False,
                      'auth': False, 'reuse': False}),
    ('lmtp-nopipe', {'exts': ['8BITMIME', 'SMTPUTF8'], 'pipelining': False, 'tls': False, 'auth': False,
                     'reuse': False}),
    ('lmtp-size', {'exts': ['8BITMIME', 'SMTPUTF8', 'SIZE 100000', 'DSN'], 'pipelining': True, 'tls': False,
                   'auth': False, 'reuse': False}),
    ('lmtp-bare', {'exts': [], 'pipelining': False, 'tls': False, 'auth': False, 'reuse': False}),
    ('lmtp-tls-auth', {'exts': ['8BITMIME', 'SMTPUTF8'], 'pipelining': True, 'tls': True, 'auth': True,
                       'reuse': False}),
    ('lmtp-reuse', {'exts': ['8BITMIME', 'SMTPUTF8'], 'pipelining': True, 'tls': False, 'auth': False,
                    'reuse': True}),
    # audit: keywords in lower case, hyphenated, multi-word / numeric parameters; LHLO name from a callable
    ('lmtp-odd-exts', {'exts': ['8bitmime', 'SMTPUTF8', 'dsn', 'X-EXPERIMENTAL alpha beta=2', 'DELIVERBY 0',
                                'X-A-B-C', 'LIMITS RCPTMAX=500'], 'pipelining': True, 'tls': False, 'auth': False,
                       'reuse': False, 'ehlo_fn': True}),
]
HTTP_GRID = [
    ('http', {'reuse': False, 'https': False, 'concurrent': False}),
    ('http-reuse', {'reuse': True, 'https': False, 'concurrent': False}),
    ('http-reuse-concurrent', {'reuse': True, 'https': False, 'concurrent': True}),
    ('https', {'reuse': False, 'https': True, 'concurrent': False}),
    # audit: the edge runs a recording WsgiValidators class; X-Ehlo from a callable
    ('http-validators', {'reuse': True, 'https': False, 'concurrent': False, 'validators': True, 'ehlo_fn': True}),
]
# designed only (3 cases each): the edge built and started through its documented listener= argument
HTTP_LISTENER_GRID = [
    ('http-listener', {'reuse': False, 'https': False, 'concurrent': False, 'listener': True}),
    ('https-listener', {'reuse': True, 'https': True, 'concurrent': False, 'listener': True}),
]
GRID_ADDRS = [
    # (sender, recipients) -- one per address class, hand-written and valid
    ('s@x.test', ['r@x.test']),
    ('', ['r@x.test', 'r2@y.test']),
    ('"quoted local"@x.test', ['"a>b"@x.test', '"with@at"@x.test', '"sp ace, comma"@y.test']),
    ('"esc\\"aped"@x.test', ['plain+tag@x.test']),
    ('plain@x.test', ['"back\\\\slash"@x.test', '"two\\"quo\\"tes"@x.test']),
    ('plain@x.test', ['"a\\">b\\"c"@x.test', 'other@x.test']),
    ('\u00fcser@ex\u00e4mple.test', ['rcpt@\u00fc.test', '"\u00fc q"@x.test']),
    ('a@x.test', ['r1@x.test', 'r2@x.test', 'r1@x.test', 'r3@y.test', 'r2@x.test']),
    ("o'brien+tag/x=y@x.test", ['{curly}|pipe~@x.test', 'user@[127.0.0.1]', 'u@[IPv6:::1]']),
    ('l' * 64 + '@x.test', ['"' + 'q >' * 20 + 'ab"@' + '.'.join(['d' * 30] * 5) + '.test']),
    # normal forms: decomposed / jamo / singleton / ligature / full-width addresses, and the same string in NFC and in
    # NFD side by side as two recipients (two different mailboxes for the hop)
    ('e\u0301ric@cafe\u0301.test', ['\u00e9ric@x.test', 'e\u0301ric@x.test', '\u212bngstrom@\u2126.example',
                                     '\u1112\u1161\u11ab@\u1112\u1161\u11ab.test', '\ud55c@\ud55c.test']),
    ('o\ufb03ce@x.test', ['\uff55\uff53\uff45\uff52@\uff45\uff58.test', 'user@ex.test', '"a\u0308 o\u0308"@bu\u0308cher.example',
                          '"\u00e4 \u00f6"@b\u00fccher.example', '\u00c5ngstrom@x.test', '\u212bngstrom@x.test']),
    # audit: case, plus-addressing in upper case, a recipient without domain, source routes
    ('MiXed.Case+Tag@Example.TEST', ['UPPER@X.TEST', 'upper@x.test', 'Upper@X.test', 'Postmaster']),
    ('@a.test,@b.test:user@x.test', ['@relay.test:rcpt@x.test', 'r@x.test', '@a.test:"q:r,@s"@y.test']),
]


def build_msg(rnd, marker, sender, rcpts, bkind, ascii_headers=False, mime=False, hkind=None):
    body = gen_body(rnd, bkind)
    if hkind == 'header-only':
        body = b''
    return {'marker': marker, 'sender': sender, 'rcpts': list(rcpts),
            'data': gen_headers(rnd, marker, ascii_headers, mime, hkind) + body, 'bkind': bkind, 'script': None}


def many_recipients(rnd, n, allow_utf8=False):
    """Audit stratum: n recipients, mostly plain, some needing quoting, a few repeated."""
    out = []
    for i in range(n):
        r = rnd.random()
        if r < 0.8:
            out.append('rcpt%d@%s' % (i, rnd.choice(A_DOMAIN)))
        elif r < 0.9:
            out.append('"list member %d"@x.test' % i)
        elif r < 0.95 and out:
            out.append(rnd.choice(out))
        else:
            out.append(gen_address(rnd, rnd.choice(['atext', 'quoted-qp', 'long', 'mixed-case'] +
                                                   (['utf8-local'] if allow_utf8 else []))))
    return out


def random_envelope(rnd, allow_utf8=True):
    kinds = [k for k in ADDR_KINDS if allow_utf8 or 'utf8' not in k]
    sender = gen_address(rnd, rnd.choice(kinds + ['null', 'null']))
    rcpts = [gen_address(rnd, rnd.choice(kinds)) for _ in range(rnd.choice([1, 1, 2, 2, 3, 4, 5]))]
    if len(rcpts) >= 2 and rnd.random() < 0.3:
        rcpts[rnd.randrange(len(rcpts))] = rnd.choice(rcpts)          # duplicate
    if rnd.random() < 0.25:
        # the same address in another normal form next to it: a different mailbox as far as the hop is concerned
        for r in list(rcpts):
            other = unicodedata.normalize(rnd.choice(['NFC', 'NFD']), r)
            if other != r and other not in rcpts:
                rcpts.insert(rnd.randrange(len(rcpts) + 1), other)
                break
    if rnd.random() < 0.012:
        rcpts = many_recipients(rnd, rnd.choice([60, 90, 101, 130, 200]), allow_utf8)
    return sender, rcpts


# reply-text / Reply.command classes of a scripted answer (audit stratum).  The oracle compares codes only; the
# classes are inputs: what the library's own relays and queues put into a Reply must not change the code that
# crosses the hop.
REPLY_TEXTS = {'plain': 'scripted answer', 'quotes': 'user "bob" unknown', 'semicolon': 'no; message="x"; command="y"',
               'backslash': 'path C:\\mail\\', 'latin1': 'bo\u00eete pleine', 'utf8': '\u30e1\u30fc\u30eb full',
               'multiline': 'first line\r\nsecond line\r\nthird', 'empty': '', 'long': 'x' * 900}
REPLY_TEXT_KINDS = ['plain', 'plain', 'quotes', 'semicolon', 'backslash', 'latin1', 'utf8', 'multiline', 'multiline',
                    'empty', 'long']
REPLY_CMD_KINDS = [None, None, 'str', 'bytes', 'bytes']


def reply_classes(rnd, transport):
    """-> {'text': class, 'cmd': None|'str'|'bytes'}; the LMTP leg's independent server frames one-line texts only."""
    text = rnd.choice(REPLY_TEXT_KINDS)
    if transport == 'lmtp' and text in ('multiline', 'empty'):
        text = 'quotes'
    return {'text': text, 'cmd': rnd.choice(REPLY_CMD_KINDS)}


def add_script(rnd, transport, cfg, msg):
    """Scripted edge behaviour for one message (only for messages the hop must otherwise deliver)."""
    r = rnd.random()
    n = len(msg['rcpts'])
    msg['reply'] = reply_classes(rnd, transport)
    if transport == 'http':
        if r < 0.25:
            msg['script'] = [rnd.choice(['qerr', 'qerr', 'rerr']),
                             rnd.choice(['450', '451', '550', '554', '421', '535', '552'])]
        elif r < 0.28:
            msg['script'] = ['qerr-noreply', '451']
        return
    if transport == 'lmtp':
        if r < 0.15:
            msg['script'] = ['eod', rnd.randrange(n), rnd.choice(['550', '450', '552'])]
        elif r < 0.3 and n >= 2:
            msg['script'] = ['rcpt', [rnd.randrange(n)], rnd.choice(['550', '450'])]
        return
    if r < 0.12:
        msg['script'] = [rnd.choice(['qerr', 'qerr', 'rerr']), rnd.choice(['450', '451', '550', '554', '452', '552'])]
    elif r < 0.135:
        msg['script'] = ['qerr-noreply', '451']
    elif r < 0.24 and n >= 2:
        i = rnd.randrange(n)
        msg['script'] = ['rcpt', [k for k in range(n) if msg['rcpts'][k] == msg['rcpts'][i]],
                         rnd.choice(['550', '550', '450', '553'])]
    elif r < 0.28:
        msg['script'] = ['rcpt', list(range(n)), rnd.choice(['550', '450'])]
    elif r < 0.32:
        msg['script'] = ['mail', rnd.choice(['550', '450', '553'])]
    elif r < 0.36:
        msg['script'] = ['have_data', rnd.choice(['554', '451', '550'])]
    elif r < 0.39:
        msg['script'] = ['data', rnd.choice(['554', '451'])]


def advertised(transport, cfg, k=0):
    """Extension names in effect for the transaction of message k (SMTP edge config / LMTP downstream exts; HELO =
    none).  With STARTTLS the table in effect is the one after the handshake."""
    if transport == 'lmtp':
        return set(x.split()[0].upper() for x in cfg['exts'])
    if cfg['helo']:
        return set()
    adv = set(DEFAULT_EXTS) - set(cfg['drop']) - set(conn_drops(cfg, k))
    if cfg.get('tls') and cfg['tls'] != 'immediate' and cfg.get('post_tls'):
        adv -= set(cfg['post_tls']['drop'])
    return adv


def withheld_rcpts(transport, cfg, msg, k=0):
    """Recipients the relay must keep back: non-ASCII addresses while SMTPUTF8 is not in effect.  They must not
    reach the server and must not be reported delivered (the relay fails them itself, permanently)."""
    if transport == 'http' or 'SMTPUTF8' in advertised(transport, cfg, k):
        return []
    return [r for r in dict.fromkeys(msg['rcpts']) if not is_ascii(r)]


def may_refuse(transport, cfg, msg, k=0):
    """Is this message in a conditional class for this configuration?  (utf8-without-SMTPUTF8, 8bit-without-8BITMIME)"""
    if transport == 'http':
        return False
    adv = advertised(transport, cfg, k)
    utf8 = not all(is_ascii(a) for a in [msg['sender']] + msg['rcpts'])
    eight = any(c > 127 for c in msg['data'])
    return (utf8 and 'SMTPUTF8' not in adv) or (eight and '8BITMIME' not in adv)


def make_case(rnd, n, transport, label, cfg, envelopes=None, bkinds=None, scripted=True, hkinds=None):
    nmsg = 3 if cfg.get('reuse') or cfg.get('conn_drop') else 1
    msgs = []
    conv = transport == 'smtp' and cfg.get('encoder')
    for k in range(nmsg):
        if envelopes:
            sender, rcpts = envelopes[k % len(envelopes)]
        else:
            sender, rcpts = random_envelope(rnd)
        if bkinds:
            bk = bkinds[k % len(bkinds)]
        elif conv:
            bk = rnd.choice(['utf8text', 'utf8text', 'plain', 'dots'])
        else:
            bk = rnd.choice(BODY_KINDS) if rnd.random() > 0.015 else 'huge'
        if hkinds:
            hk = hkinds[k % len(hkinds)]
        else:
            hk = rnd.choice(HEADER_KINDS) if not conv and not envelopes and rnd.random() < 0.1 else None
        m = build_msg(rnd, 'c%d-m%d' % (n, k), sender, rcpts, bk, ascii_headers=bool(conv), mime=bool(conv), hkind=hk)
        if scripted and not cfg.get('concurrent') and not may_refuse(transport, cfg, m, k):
            add_script(rnd, transport, cfg, m)
        msgs.append(m)
    return {'n': n, 'transport': transport, 'label': label, 'cfg': cfg, 'msgs': msgs}


def force_script(rnd, transport, cfg, msg, script, reply):
    msg['script'], msg['reply'] = script, reply
    return msg


def designed_cases():
    n = 0
    # designed grid: every configuration x every hand-written address class (plain body), un-scripted
    for transport, grid in (('smtp', SMTP_GRID), ('lmtp', LMTP_GRID), ('http', HTTP_GRID)):
        for label, cfg in grid:
            for ai in range(len(GRID_ADDRS)):
                rnd = random.Random('c06-grid-%d' % n)
                envs = [GRID_ADDRS[(ai + k) % len(GRID_ADDRS)] for k in range(3)]
                yield make_case(rnd, n, transport, label, cfg, envs,
                                ['utf8text' if cfg.get('encoder') else 'plain', 'dots', 'nofinal'], scripted=False)
                n += 1
    for label, cfg in HTTP_LISTENER_GRID:
        for ai in (0, 2, 6):
            rnd = random.Random('c06-grid-%d' % n)
            yield make_case(rnd, n, 'http', label, cfg, [GRID_ADDRS[ai]], ['plain', 'dots', '8bit'], scripted=False)
            n += 1
    # designed: every configuration x every body kind, plain addresses with 2 recipients
    for transport, grid in (('smtp', SMTP_GRID), ('lmtp', LMTP_GRID), ('http', HTTP_GRID)):
        for label, cfg in grid:
            for bk in sorted(set(BODY_KINDS)):
                rnd = random.Random('c06-body-%d' % n)
                yield make_case(rnd, n, transport, label, cfg, [('s@x.test', ['r1@x.test', 'r2@y.test'])], [bk],
                                scripted=False)
                n += 1
    # designed: scripted reply codes on plain envelopes, every configuration
    for transport, grid in (('smtp', SMTP_GRID), ('lmtp', LMTP_GRID), ('http', HTTP_GRID)):
        for label, cfg in grid:
            if cfg.get('concurrent'):
                continue
            for k in range(4):
                rnd = random.Random('c06-script-%d' % n)
                c = make_case(rnd, n, transport, label, cfg,
                              [('s@x.test', ['r1@x.test', '"q r"@y.test', 'r3@x.test'])], ['plain'], scripted=False)
                for m in c['msgs']:
                    for _ in range(20):
                        add_script(rnd, transport, cfg, m)
                        if m['script']:
                            break
                yield c
                n += 1
    # ---------------------------------------------------------------- audit strata (designed)
    pick = lambda grid, names: [(l, c) for l, c in grid if l in names]          # noqa: E731
    plain_env = [('s@x.test', ['r1@x.test', 'r2@y.test'])]
    # many recipients (around the 100 mark and far beyond), every transport
    for transport, grid in (('smtp', pick(SMTP_GRID, ('default', 'no-pipelining', 'helo', 'starttls', 'no-smtputf8',
                                                       'reuse'))),
                            ('lmtp', pick(LMTP_GRID, ('lmtp-default', 'lmtp-nopipe'))),
                            ('http', pick(HTTP_GRID, ('http', 'https', 'http-reuse')))):
        for label, cfg in grid:
            for nr in (60, 101, 250):
                rnd = random.Random('c06-many-%d' % n)
                envs = [('list@x.test', many_recipients(rnd, nr, allow_utf8=True)) for _ in range(3)]
                yield make_case(rnd, n, transport, label, cfg, envs, ['plain'], scripted=False)
                n += 1
    # huge bodies; odd / long header blocks
    for transport, grid in (('smtp', pick(SMTP_GRID, ('default', 'no-pipelining', 'starttls', 'size-big', 'helo'))),
                            ('lmtp', pick(LMTP_GRID, ('lmtp-default', 'lmtp-nopipe'))),
                            ('http', pick(HTTP_GRID, ('http', 'https')))):
        for label, cfg in grid:
            for j in range(2):
                rnd = random.Random('c06-huge-%d' % n)
                yield make_case(rnd, n, transport, label, cfg, plain_env, ['huge'], scripted=False)
                n += 1
            for hk in HEADER_KINDS:
                for j in range(2):
                    rnd = random.Random('c06-hdr-%d' % n)
                    yield make_case(rnd, n, transport, label, cfg, plain_env, ['plain', 'dots', 'empty'],
                                    scripted=False, hkinds=[hk])
                    n += 1
    # reply classes: every queue-level answer kind x every reply-text class x Reply.command class
    for transport, grid in (('smtp', pick(SMTP_GRID, ('default', 'no-pipelining', 'bare'))),
                            ('http', pick(HTTP_GRID, ('http', 'https')))):
        for label, cfg in grid:
            for kind in ('qerr', 'rerr'):
                for text in sorted(REPLY_TEXTS):
                    for cmd in (None, 'str', 'bytes'):
                        rnd = random.Random('c06-reply-%d' % n)
                        c = make_case(rnd, n, transport, label, cfg, plain_env, ['plain'], scripted=False)
                        code = rnd.choice(['550', '554', '552', '450', '451'])
                        force_script(rnd, transport, cfg, c['msgs'][0], [kind, code], {'text': text, 'cmd': cmd})
                        yield c
                        n += 1
            rnd = random.Random('c06-reply-%d' % n)
            c = make_case(rnd, n, transport, label, cfg, plain_env, ['plain'], scripted=False)
            force_script(rnd, transport, cfg, c['msgs'][0], ['qerr-noreply', '451'], {'text': 'plain', 'cmd': None})
            yield c
            n += 1
    # validator-level answers with every reply-text class (SMTP edge, LMTP server)
    for label, cfg in pick(SMTP_GRID, ('default', 'no-pipelining', 'reuse')):
        for text in sorted(REPLY_TEXTS):
            for script in (['mail', '550'], ['rcpt', [1], '550'], ['rcpt', [0, 1, 2], '450'], ['data', '554'],
                           ['have_data', '554']):
                rnd = random.Random('c06-vreply-%d' % n)
                c = make_case(rnd, n, 'smtp', label, cfg, [('s@x.test', ['r1@x.test', '"q r"@y.test', 'r3@x.test'])],
                              ['plain'], scripted=False)
                for m in c['msgs']:
                    force_script(rnd, 'smtp', cfg, m, list(script), {'text': text, 'cmd': None})
                yield c
                n += 1


def case_bytes(case):
    return sum(len(m['data']) + 40 * len(m['rcpts']) for m in case['msgs'])


def chunk_for(rnd, case, sizes=None):
    """A read size for the 'chunked' stratum; one-byte reads only where the traffic is small (cost)."""
    total = case_bytes(case)
    sizes = sizes or CHUNK_SIZES
    ok = [x for x in sizes if total / x <= 6000] or [max(sizes)]
    return rnd.choice(ok)


def all_cases(tier, seed):
    n = 0
    for case in designed_cases():
        yield case
        n = case['n'] + 1
    # ---- stratum 'chunked': a transport that delivers at most N bytes per read, in both directions.
    # every designed case once more with a seeded N
    for case in designed_cases():
        rnd = random.Random('c06-chunk-%d-%d' % (seed, n))
        yield dict(case, n=n, chunk=chunk_for(rnd, case))
        n += 1
    # the extension-table cases (every configuration, plain envelope) with N = 1, 7, 16
    for transport, grid in (('smtp', SMTP_GRID), ('lmtp', LMTP_GRID)):
        for label, cfg in grid:
            for size in (1, 7, 16):
                rnd = random.Random('c06-chunk-ext-%d' % n)
                c = make_case(rnd, n, transport, label, cfg, [GRID_ADDRS[0]], ['plain'], scripted=False)
                c['chunk'] = size
                yield c
                n += 1
    # seeded random
    for i in range(NRANDOM[tier]):
        rnd = random.Random('c06-%d-%d' % (seed, i))
        for case in random_case(rnd, n):
            if rnd.random() < 0.1:
                case['chunk'] = chunk_for(rnd, case)
            yield case
        n += 1


def random_case(rnd, n):
    if True:
        r = rnd.random()
        if r < 0.68:
            if rnd.random() < 0.6:
                label, cfg = rnd.choice(SMTP_GRID)
            else:
                cfg = smtp_cfg(drop=sorted(x for x in DEFAULT_EXTS if rnd.random() < 0.3),
                               size=rnd.choice([None, None, 600, 5000, 1000000]),
                               tls=rnd.choice([False, False, False, False, False, True, True, 'immediate']),
                               helo=rnd.random() < 0.08, reuse=rnd.random() < 0.3,
                               add=[list(x) for x in EXTRA_EXTS if rnd.random() < 0.15],
                               ehlo_fn=rnd.random() < 0.2)
                if cfg['tls'] is True and rnd.random() < 0.4:
                    cfg['post_tls'] = {'drop': sorted(set(x for x in list(DEFAULT_EXTS) + [a[0] for a in cfg['add']]
                                                          if rnd.random() < 0.3)),
                                       'add': [list(x) for x in EXTRA_EXTS[5:] if rnd.random() < 0.3]}
                if not cfg['reuse'] and not cfg['helo'] and rnd.random() < 0.15:
                    cfg['conn_drop'] = [sorted(x for x in DEFAULT_EXTS if rnd.random() < 0.35) for _ in range(3)]
                # PLAIN/LOGIN are refused 504 by the library's server on a clear channel (by design); a relay
                # with credentials cannot use a server that offers no AUTH (HELO): neither is a hop failure
                if not cfg['helo']:
                    cfg['auth'] = rnd.choice([None, None, ['PLAIN'], ['LOGIN'], ['LOGIN', 'PLAIN'], ['CRAM-MD5']]
                                             if cfg['tls'] else [None, None, None, ['CRAM-MD5']])
                cfg['concurrent'] = cfg['reuse'] and rnd.random() < 0.4
                if ('8BITMIME' in cfg['drop'] or cfg['helo']) and not cfg['conn_drop']:
                    cfg['encoder'] = rnd.choice([None, None, 'quopri', 'base64'])
                if cfg['auth'] and rnd.random() < 0.3:
                    cfg['cred_fn'] = True
                if cfg['tls'] is True and not cfg['helo'] and rnd.random() < 0.3:
                    cfg['tls_required'] = True
                label = 'random'
            yield make_case(rnd, n, 'smtp', label, cfg)
        elif r < 0.82:
            label, cfg = rnd.choice(LMTP_GRID)
            yield make_case(rnd, n, 'lmtp', label, cfg)
        else:
            label, cfg = rnd.choice(HTTP_GRID)
            yield make_case(rnd, n, 'http', label, cfg)
        n += 1


def gen_cases(tier, seed, shard, nshards):
    for case in all_cases(tier, seed):
        if case['n'] % nshards == shard:
            yield case


# ------------------------------------------------------------------------------------------ recording edge parts

def ext_snapshot(extensions):
    return dict((k, (str(v) if v else None)) for k, v in extensions.extensions.items())


class CaptureQueue(object):
    """The edge's queue: records what the edge hands off; optionally answers with a scripted QueueError."""

    def __init__(self, lab):
        self.lab = lab
        self.got = []

    def enqueue(self, envelope):
        script = self.lab.script
        rec = {'env': envelope, 'msg_i': self.lab.msg_i, 'failed': None}
        self.got.append(rec)
        if script and script[0] in ('qerr', 'rerr', 'qerr-noreply'):
            rec['failed'] = script[1]
            if script[0] == 'qerr-noreply':
                return [(envelope, QueueError('scripted queue failure without a reply'))]
            reply = scripted_reply(script[1], '3.0', self.lab.reply)
            if script[0] == 'qerr':
                err = QueueError('scripted queue failure')
                err.reply = reply
            else:
                # what ProxyQueue hands back when its relay fails: the RelayError itself
                err = SmtpRelayError.factory(reply)
            return [(envelope, err)]
        return [(envelope, 'id-%d' % len(self.got))]


def scripted_reply(code, esc, classes):
    """The Reply a scripted edge component answers with: text and command by class (audit stratum)."""
    classes = classes or {}
    text = REPLY_TEXTS[classes.get('text') or 'plain']
    cmd = {None: None, 'str': 'RCPT', 'bytes': b'RCPT'}[classes.get('cmd')]
    msg = ('%s.%s %s' % (code[0], esc, text)) if text else ''
    return Reply(code, msg, command=cmd) if cmd is not None else Reply(code, msg)


def scripted_text(code, esc, classes, default):
    classes = classes or {}
    if not classes.get('text') or classes['text'] == 'plain':
        return '%s.%s %s' % (code[0], esc, default)
    text = REPLY_TEXTS[classes['text']]
    return ('%s.%s %s' % (code[0], esc, text)) if text else ''


def make_session_class(lab):
    class RecSession(SmtpSession):
        def _rec(self, stage, reply, *more):
            lab.records.append((lab.msg_i, stage, reply.code) + more)

        def EHLO(self, reply, ehlo_as):
            SmtpSession.EHLO(self, reply, ehlo_as)
            lab.adverts.append((self._vf_conn, ext_snapshot(self._vf_server.extensions) if reply.code == '250' else None))
            lab.ehlo_as.append(ehlo_as)

        def TLSHANDSHAKE2(self, ssl_socket):
            SmtpSession.TLSHANDSHAKE2(self, ssl_socket)
            # audit stratum: a server whose table changes once the channel is encrypted (documented hook point:
            # the handlers object is called after the handshake; Server.extensions is its public table)
            pt = lab.cfg.get('post_tls')
            if pt and lab.cfg['tls'] is True:
                for name in pt['drop']:
                    self._vf_server.extensions.drop(name)
                for name, param in pt['add']:
                    self._vf_server.extensions.add(name, param)

        def HELO(self, reply, helo_as):
            SmtpSession.HELO(self, reply, helo_as)
            lab.helos.append((helo_as, reply.code))

        def MAIL(self, reply, address, params):
            SmtpSession.MAIL(self, reply, address, params)
            self._rec('MAIL', reply, address, sorted(params))
            lab.mail_params.append(sorted(params))

        def RCPT(self, reply, address, params):
            SmtpSession.RCPT(self, reply, address, params)
            self._rec('RCPT', reply, address)

        def DATA(self, reply):
            SmtpSession.DATA(self, reply)
            self._rec('DATA', reply)

        def HAVE_DATA(self, reply, data, err):
            try:
                SmtpSession.HAVE_DATA(self, reply, data, err)
            finally:
                self._rec('EOD', reply, type(err).__name__ if err is not None else None)
    return RecSession


def make_validator_class(lab):
    class RecValidators(SmtpValidators):
        def handle_ehlo(self, reply, ehlo_as):
            if lab.cfg['helo']:
                reply.code, reply.message = '500', 'EHLO not understood (scripted)'

        def handle_auth(self, reply, creds):
            ok = bool(creds.verify(ClearIdentity(USER, SECRET)))
            lab.auths.append((creds.authcid, creds.authzid, ok))
            if not ok:
                reply.code, reply.message = '535', '5.7.8 credentials do not verify'

        def handle_mail(self, reply, sender, params):
            lab.rcpt_i = 0
            s = lab.script
            if s and s[0] == 'mail':
                reply.code, reply.message = s[1], scripted_text(s[1], '1.8', lab.reply, 'scripted sender answer')

        def handle_rcpt(self, reply, rcpt, params):
            # decided by address value (an index would shift when the server refuses a RCPT below the session)
            s = lab.script
            if s and s[0] == 'rcpt' and rcpt in lab.reject:
                reply.code, reply.message = s[2], scripted_text(s[2], '1.1', lab.reply, 'scripted recipient answer')

        def handle_data(self, reply):
            s = lab.script
            if s and s[0] == 'data':
                reply.code, reply.message = s[1], scripted_text(s[1], '5.0', lab.reply, 'scripted DATA answer')

        def handle_have_data(self, reply, data):
            s = lab.script
            if s and s[0] == 'have_data':
                reply.code, reply.message = s[1], scripted_text(s[1], '6.0', lab.reply, 'scripted content answer')
    return RecValidators


class Lab(object):
    """Common recording state; one per case."""

    def __init__(self, cfg):
        self.cfg = cfg
        self.script = None
        self.reply = None      # reply-text / command classes of the scripted answer
        self.reject = ()       # recipient addresses a 'rcpt' script rejects
        self.sock_conn = {}    # id(server-side socket) / id(client-side socket) -> connection number
        self.mail_params = []  # MAIL parameter names the edge saw (observed only)
        self.wsgi_seen = []    # (ehlo, sender, [recipients]) as the HTTP edge's validators saw them
        self.msg_i = 0
        self.rcpt_i = 0
        self.records = []      # (msg_i, stage, code, ...)  edge side, per command callback
        self.adverts = []      # server side: extension table per EHLO (None = EHLO refused)
        self.views = []        # client side: extension table after each EHLO/LHLO (+HELO fall-back)
        self.ehlo_as = []
        self.helos = []
        self.auths = []
        self.servers = []
        self.conns = 0
        self.greenlets = []

    def close(self):
        pass


def make_client_class(lab, base):
    class RecClient(base):
        def _ehlo(self):
            try:
                return base._ehlo(self)
            finally:
                if self.client is not None:
                    lab.views.append((lab.sock_conn.get(id(self.socket)), dict(self.client.extensions.extensions)))
    return RecClient


def encoder_of(name):
    from email.encoders import encode_base64, encode_quopri
    return {None: None, 'quopri': encode_quopri, 'base64': encode_base64}[name]


class SmtpLab(Lab):

    def __init__(self, cfg):
        Lab.__init__(self, cfg)
        self.capq = CaptureQueue(self)
        kw = {}
        if cfg['size']:
            kw['max_size'] = cfg['size']
        if cfg['tls']:
            kw['context'] = server_ctx()
            kw['tls_immediately'] = cfg['tls'] == 'immediate'
        if cfg['auth']:
            kw['auth'] = [a.encode('ascii') for a in cfg['auth']]     # pysasl wants bytes names
        self.edge = SmtpEdge(None, self.capq, validator_class=make_validator_class(self), hostname='edge.test',
                             session_class=make_session_class(self), command_timeout=15, data_timeout=15, **kw)
        rk = {'socket_creator': self.creator, 'ehlo_as': 'relay.test', 'connect_timeout': 15, 'command_timeout': 15,
              'data_timeout': 15, 'binary_encoder': encoder_of(cfg['encoder'])}
        if cfg.get('ehlo_fn'):
            rk['ehlo_as'] = lambda address: EHLO_FN_NAME         # documented: called with the destination address
        if cfg['reuse']:
            rk['idle_timeout'] = 5.0
        if cfg['tls'] == 'immediate':
            rk['tls_immediately'] = True
        if cfg.get('tls_required'):
            rk['tls_required'] = True
        if cfg['auth']:
            rk['credentials'] = (lambda: (USER, SECRET)) if cfg.get('cred_fn') else (USER, SECRET)
            if cfg['mech']:
                rk['auth_mechanism'] = cfg['mech'].encode('ascii')
        self.relay = StaticSmtpRelay('edge.test', 25, pool_size=1, context=client_ctx(),
                                     client_class=make_client_class(self, SmtpRelayClient), **rk)
        _LAB[0] = self

    def creator(self, address):
        a, b = gsocket.socketpair()
        a, b = to_chunk(a), to_chunk(b)
        self.sock_conn[id(a)] = self.sock_conn[id(b)] = self.conns
        self.conns += 1
        self.greenlets.append(gevent.spawn(self.edge.handle, b, ('127.0.0.1', 1234)))
        return a

    def expected_adverts(self, k=0):
        """The configured advertisement per EHLO of connection k (harness cross-check)."""
        cfg = self.cfg
        if cfg['helo']:
            return [None]
        gone = set(cfg['drop']) | set(conn_drops(cfg, k))
        base = dict((x, None) for x in DEFAULT_EXTS)
        for name, param in cfg.get('add') or ():
            base[name.upper()] = param
        for name in gone:
            base.pop(name, None)
        if cfg['size']:
            base['SIZE'] = str(cfg['size'])
        if cfg['auth']:
            base['AUTH'] = ' '.join(cfg['auth'])
        if cfg['tls'] and cfg['tls'] != 'immediate':
            first = dict(base)
            first['STARTTLS'] = None
            second = dict(base)
            pt = cfg.get('post_tls')
            if pt:
                for name in pt['drop']:
                    second.pop(name, None)
                for name, param in pt['add']:
                    second[name.upper()] = param
            return [first, second]
        return [base]

    def close(self):
        try:
            self.relay.kill()
        except Exception:
            pass
        gevent.joinall(self.greenlets, timeout=2)
        for g in self.greenlets:
            if not g.dead:
                g.kill(block=False)
        _LAB[0] = None


class LmtpLab(Lab):

    def __init__(self, cfg):
        Lab.__init__(self, cfg)
        self.ds_script = {}
        self.ds = Downstream(script=self._script, lmtp=True, pipelining=cfg['pipelining'],
                             extensions=[x.encode('ascii') for x in cfg['exts']],
                             tls_context=server_ctx() if cfg['tls'] else None, auth=cfg['auth'])
        rk = {'socket_creator': self.creator, 'ehlo_as': 'relay.test', 'connect_timeout': 15, 'command_timeout': 15,
              'data_timeout': 15}
        if cfg.get('ehlo_fn'):
            rk['ehlo_as'] = lambda address: EHLO_FN_NAME
        if cfg['reuse']:
            rk['idle_timeout'] = 5.0
        if cfg['auth']:
            rk['credentials'] = (USER, SECRET)
        self.relay = StaticLmtpRelay('lmtp.test', 24, pool_size=1, context=client_ctx(),
                                     client_class=make_client_class(self, LmtpRelayClient), **rk)

    def _script(self, ctx, stage):
        s = self.script
        if not s:
            return None
        text = REPLY_TEXTS.get((self.reply or {}).get('text') or 'plain')
        if s[0] == 'eod' and stage == 'eod%d' % s[1]:
            return ('reply', s[2], '%s.0.0 %s' % (s[2][0], text))
        if s[0] == 'rcpt' and stage in ['rcpt%d' % i for i in s[1]]:
            return ('reply', s[2], '%s.1.1 %s' % (s[2][0], text))
        return None

    def creator(self, address):
        self.conns += 1
        return to_chunk(self.ds.creator(address))      # the relay's side; the independent server reads as it likes

    def expected_views(self):
        cfg = self.cfg
        base = {}
        for x in cfg['exts']:
            name, _, param = x.partition(' ')
            base[name.upper()] = param or None
        if cfg['pipelining']:
            base['PIPELINING'] = None
        if cfg['auth']:
            base['AUTH'] = 'PLAIN LOGIN'
        if cfg['tls']:
            first = dict(base)
            first['STARTTLS'] = None
            return [first, base]
        return [base]

    def close(self):
        try:
            self.relay.kill()
        except Exception:
            pass
        gevent.joinall(self.ds.greenlets, timeout=2)
        self.ds.kill()


_http = {}


def http_server(https):
    """One WsgiEdge + pywsgi server per process and scheme; the capture queue is swapped per case."""
    key = 'https' if https else 'http'
    if key not in _http:
        edge = WsgiEdge(None, hostname='edge.test')
        ssl_args = {'ssl_context': server_ctx()} if https else None
        server = edge.build_server(('127.0.0.1', 0), None, ssl_args)
        chunk_handle(server)
        server.log = None
        try:
            from gevent.pywsgi import _NoopLog
            server.log = _NoopLog()
        except Exception:
            import io
            server.log = io.StringIO()
        server.start()
        _http[key] = (edge, server, server.server_port)
    return _http[key]


class ChunkHttpRelayClient(HttpRelayClient):
    """The real client; its connection object opens ChunkSockets (http.client's documented _create_connection hook
    that slimta.http itself sets)."""

    def _new_conn(self):
        HttpRelayClient._new_conn(self)
        self.conn._create_connection = chunk_create_connection


class ChunkHttpRelay(HttpRelay):

    def add_client(self):
        return ChunkHttpRelayClient(self)


class HttpLab(Lab):

    def __init__(self, cfg):
        Lab.__init__(self, cfg)
        self.capq = CaptureQueue(self)
        self.own = None
        if cfg.get('listener'):
            self.own = WsgiEdge(self.capq, hostname='edge.test', listener=('127.0.0.1', 0),
                                context=server_ctx() if cfg['https'] else None)
            self.edge, self.server = self.own, self.own.server
            chunk_handle(self.server)
            self.own.start()
            for _ in range(200):
                if getattr(self.server, 'started', False):
                    break
                gevent.sleep(0.005)
            port = self.server.server_port
        else:
            self.edge, self.server, port = http_server(cfg['https'])
        self.edge.queue = self.capq
        if cfg.get('validators'):
            self.edge.validator_class = make_wsgi_validators(self)
        url = '%s://127.0.0.1:%d/deliver' % ('https' if cfg['https'] else 'http', port)
        ehlo = (lambda: EHLO_FN_NAME) if cfg.get('ehlo_fn') else 'relay.test'     # documented: called without arguments
        self.relay = ChunkHttpRelay(url, pool_size=1, context=client_ctx() if cfg['https'] else None,
                                    ehlo_as=ehlo, timeout=15, idle_timeout=5.0 if cfg['reuse'] else None)

    def close(self):
        try:
            self.relay.kill()
        except Exception:
            pass
        if self.own is not None:
            try:
                self.own.kill()          # EdgeServer.kill(): stops the listening server
            except Exception:
                pass
            return
        self.edge.queue = None
        self.edge.validator_class = None


def make_wsgi_validators(lab):
    class RecWsgiValidators(edge_wsgi.WsgiValidators):
        """Observes what the HTTP edge shows its validators (audit stratum)."""

        def __init__(self, environ):
            edge_wsgi.WsgiValidators.__init__(self, environ)
            self.seen = [None, None, []]
            lab.wsgi_seen.append(self.seen)

        def validate_ehlo(self, ehlo):
            self.seen[0] = ehlo

        def validate_sender(self, sender):
            self.seen[1] = sender

        def validate_recipient(self, recipient):
            self.seen[2].append(recipient)
    return RecWsgiValidators


def shard_cleanup():
    for key, (edge, server, port) in list(_http.items()):
        try:
            server.stop(timeout=1)
        except Exception:
            pass
    _http.clear()
    vtls.cleanup()


# ------------------------------------------------------------------------------------------ the oracle

def outcome_of(status, value):
    """Normalise what Relay.attempt did: -> dict kind=ok|relay-error|exception|watchdog + details."""
    if status == 'watchdog':
        return {'kind': 'watchdog'}
    tag, v = value
    if tag == 'ret':
        return {'kind': 'ok', 'result': v}
    if isinstance(v, RelayError):
        rep = getattr(v, 'reply', None)
        return {'kind': 'relay-error', 'exc': v, 'code': getattr(rep, 'code', None),
                'command': getattr(rep, 'command', None), 'text': str(v)[:200],
                'permanent': isinstance(v, PermanentRelayError), 'transient': isinstance(v, TransientRelayError)}
    return {'kind': 'exception', 'exc': v, 'text': '%s: %s' % (type(v).__name__, str(v)[:200])}


def describe_result(res):
    if isinstance(res, dict):
        return dict((k, describe_result(v)) for k, v in res.items())
    if isinstance(res, RelayError):
        return '%s(%s)' % (type(res).__name__, getattr(res.reply, 'code', None))
    if isinstance(res, Reply):
        return 'Reply(%s %s)' % (res.code, res.message)
    return repr(res)


def describe_outcome(o):
    if o['kind'] == 'ok':
        return {'returned': describe_result(o['result'])}
    if o['kind'] == 'relay-error':
        return {'raised': type(o['exc']).__name__, 'code': o['code'], 'command': o['command'], 'text': o['text']}
    if o['kind'] == 'exception':
        return {'raised': o['text']}
    return {'watchdog': True}


def ext_key(transport, cfg):
    if transport == 'smtp':
        return ('smtp', tuple(cfg['drop']), cfg['size'], cfg['tls'], tuple(cfg['auth'] or ()), cfg['mech'],
                cfg['helo'], cfg['reuse'], cfg['concurrent'], cfg['encoder'],
                repr(cfg.get('add') or []), repr(cfg.get('post_tls')), repr(cfg.get('conn_drop')),
                bool(cfg.get('ehlo_fn')), bool(cfg.get('cred_fn')), bool(cfg.get('tls_required')))
    if transport == 'lmtp':
        return ('lmtp', tuple(cfg['exts']), cfg['pipelining'], cfg['tls'], cfg['auth'], cfg['reuse'],
                bool(cfg.get('ehlo_fn')))
    return ('http', cfg['reuse'], cfg['https'], cfg['concurrent'], bool(cfg.get('listener')),
            bool(cfg.get('validators')), bool(cfg.get('ehlo_fn')))


def default_cfg(transport, cfg):
    if transport == 'smtp':
        return ext_key(transport, cfg) == ext_key(transport, smtp_cfg())
    if transport == 'lmtp':
        return ext_key(transport, cfg) == ext_key(transport, LMTP_GRID[0][1])
    return ext_key(transport, cfg) == ext_key(transport, HTTP_GRID[0][1])


def address_mechanism(transport, addr, code, stage):
    f = addr_features(addr)
    if transport == 'smtp' and 'qp-dquote' in f and code == '501':
        return M_QP_REFUSED
    return 'unclassified/%s/valid-address-refused/%s-%s' % (transport, stage, code)


def altered_mechanism(transport, which, want, got):
    f = addr_features(want)
    if transport == 'smtp' and 'q-gt' in f and isinstance(got, str) and want.startswith(got) \
            and len(got) < len(want) and want[len(got)] == '>':
        # cut at a '>' that stands inside the quoted local part
        return M_QP_TRUNC if 'qp-dquote' in f else 'smtp/address/cut-at-gt-inside-quoted-local-part'
    return 'unclassified/%s/%s-altered' % (transport, which)


def content_mechanism(transport, cfg, orig, got, bclass):
    """Root-cause class of a content difference (got = flattened content as received)."""
    # control: is parse+flatten of the very same bytes a fixed point locally?  If not, the envelope layer (C20)
    # is the cause, not the hop.
    try:
        ctl = Envelope()
        ctl.parse(orig)
        if b''.join(ctl.flatten()) != orig:
            if 'ws-only-line' in header_class(orig) and b''.join(ctl.flatten()).replace(b'\r\n', b'') == \
                    orig.replace(b'\r\n', b''):
                # a white-space-only continuation line: every parse+flatten (= every hop) adds a blank line
                return 'envelope/whitespace-only-header-line/blank-line-added-by-every-hop'
            return 'envelope/parse-flatten-not-a-fixed-point-on-this-message'
    except Exception:
        return 'envelope/parse-flatten-raises-on-this-message'
    ho, _, bo = orig.partition(b'\r\n\r\n')
    hg, _, bg = got.partition(b'\r\n\r\n')
    part = 'header' if ho != hg else 'body'
    if part == 'body' and transport != 'http':
        # which framing feature is involved?
        if len(bg) < len(bo) and bo.startswith(bg.rstrip(b'\r\n')):
            return '%s/content-altered/body-truncated' % transport
        if bo.replace(b'\n.', b'\n') == bg.replace(b'\n.', b'\n') or bo.lstrip(b'.') == bg.lstrip(b'.'):
            return '%s/content-altered/dot-stuffing' % transport
    return 'unclassified/%s/content-altered/%s' % (transport, part)


def check_converted(orig, got, encoder):
    """7-bit clause: got is pure ASCII, has the same header fields (but Content-Transfer-Encoding) and decodes
    to the same text.  -> None or a description of the difference."""
    if any(c > 127 for c in got):
        return '8-bit data passed on although 8BITMIME was not advertised and the content was changed'
    ho, _, bo = orig.partition(b'\r\n\r\n')
    hg, _, bg = got.partition(b'\r\n\r\n')
    fo = [f for f in split_fields(ho + b'\r\n') if f[0] != b'content-transfer-encoding']
    fg = [f for f in split_fields(hg + b'\r\n') if f[0] != b'content-transfer-encoding']
    if fo != fg:
        return 'header fields differ after conversion'
    dec = email.message_from_bytes(got).get_payload(decode=True)
    if dec is None:
        return 'converted message has no decodable payload'
    # "same text" = same sequence of lines: the conversion re-parses the message with universal newlines
    # (exact line ends after conversion are C20's business and its known finding)
    dec, bo = re.sub(br'\r\n|\r|\n', b'\n', dec), re.sub(br'\r\n|\r|\n', b'\n', bo)
    if dec.rstrip(b'\n') != bo.rstrip(b'\n'):
        return 'decoded text differs'
    return None


class Judge(object):
    """Per-case oracle state: knows the transport/config, emits hits and violations on R."""

    def __init__(self, case, R, lab):
        self.case, self.R, self.lab = case, R, lab
        self.t = case['transport']
        self.cfg = case['cfg']

    def wit(self, msg, **kw):
        d = {'transport': self.t, 'config': self.case['label'], 'cfg': self.cfg, 'sender': msg['sender'],
             'recipients': msg['rcpts'], 'script': msg['script'], 'marker': msg['marker']}
        d.update(kw)
        return d

    # ---- envelope comparison (sender, recipients, content) of one received message
    def compare(self, msg, orig, sender, rcpts, content, want_rcpts, conditional):
        R, t = self.R, self.t
        bclass = body_class(orig.partition(b'\r\n\r\n')[2])
        R.hit('sender-compared')
        hclass = header_class(bytes(msg['data']))
        if any(unicodedata.normalize('NFC', a) != a for a in [msg['sender']] + list(want_rcpts)):
            R.hit('non-nfc-address-compared')
        if self.case.get('chunk'):
            R.hit('chunked-transport-hop')
            R.count('chunked-hop/%s/%d-bytes-per-read' % (t, self.case['chunk']))
        if len(msg['rcpts']) >= 60:
            R.hit('many-recipients-hop')
        if 'line>998' in bclass or 'line>998' in hclass:
            R.hit('long-line-hop')
        if '>=100kB' in bclass:
            R.hit('big-body-hop')
        if set(hclass) & {'no-blank-line', 'bare-lf', 'ws-only-line', 'no-colon-line', 'many-lines'}:
            R.hit('odd-header-block-hop')
        for h in hclass:
            R.count('header-class/%s' % h)
        # source routes: identical, or the route stripped (RFC 5321 allows a receiver to ignore it)
        if isinstance(sender, str) and sender != msg['sender'] and same_address(msg['sender'], sender):
            R.count('source-route-stripped/sender')
            sender = msg['sender']
        if isinstance(rcpts, list) and len(rcpts) == len(want_rcpts) and rcpts != want_rcpts and \
                all(isinstance(g, str) and same_address(w, g) for w, g in zip(want_rcpts, rcpts)):
            R.count('source-route-stripped/recipient')
            rcpts = list(want_rcpts)
        if sender != msg['sender']:
            R.violation(altered_mechanism(t, 'sender', msg['sender'], sender),
                        '%s hop: sender arrived altered: sent %r, edge received %r' % (t, msg['sender'], sender),
                        self.wit(msg, sent_sender=msg['sender'], received_sender=sender,
                                 address_class=addr_features(msg['sender'])))
        R.hit('recipients-compared')
        if rcpts != want_rcpts:
            mech = None
            # a received address that is a sent one cut at a quoted '>' (also when that recipient was scripted
            # to be rejected by value and therefore was not recognised by the validator)
            for g in (rcpts if isinstance(rcpts, list) else []):
                if g not in want_rcpts and any(altered_mechanism(t, 'recipient', w, g) == M_QP_TRUNC
                                               for w in msg['rcpts']):
                    mech = M_QP_TRUNC
            if mech:
                pass
            elif isinstance(rcpts, list) and sorted(rcpts) == sorted(want_rcpts):
                mech = '%s/recipients/order-changed' % t
            elif isinstance(rcpts, list) and len(rcpts) == len(want_rcpts):
                for w, g in zip(want_rcpts, rcpts):
                    if w != g:
                        mech = altered_mechanism(t, 'recipient', w, g)
                        break
            elif isinstance(rcpts, list) and len(rcpts) < len(want_rcpts):
                mech = 'unclassified/%s/recipient-dropped' % t
            R.violation(mech or 'unclassified/%s/recipient-list-differs' % t,
                        '%s hop: recipients arrived altered: sent %r, edge received %r' % (t, want_rcpts, rcpts),
                        self.wit(msg, sent_recipients=want_rcpts, received_recipients=rcpts))
        R.hit('content-compared')
        if content in (orig, orig + b'\r\n'):
            return
        envelope_cause = content_mechanism(t, self.cfg, orig, content, bclass)
        if not envelope_cause.startswith('envelope/'):
            envelope_cause = None
        if conditional and any(c > 127 for c in orig) and not envelope_cause:
            R.hit('7bit-conversion-judged')
            diff = check_converted(orig, content, self.cfg.get('encoder'))
            if diff is None:
                return
            R.violation('%s/7bit-conversion/%s' % (t, diff.replace(' ', '-')),
                        '%s hop without 8BITMIME: %s (encoder=%s)' % (t, diff, self.cfg.get('encoder')),
                        self.wit(msg, original=orig, received=content))
            return
        R.violation(envelope_cause or content_mechanism(t, self.cfg, orig, content, bclass),
                    '%s hop: content arrived altered (%d bytes sent, %d received; body class %s)'
                    % (t, len(orig), len(content), '+'.join(bclass)),
                    self.wit(msg, original=orig, received=content, body_class=bclass))

    # ---- non-ASCII recipients while SMTPUTF8 is not in effect: kept back by the relay, never reported delivered
    def withheld(self, msg, withheld, reported, received_rcpts, o):
        R, t = self.R, self.t
        for r in withheld:
            R.hit('utf8-recipient-without-smtputf8-judged')
            rep_ = reported.get(r)
            if rep_ is not None and rep_[0] == 'ok':
                R.violation('%s/utf8-without-smtputf8/recipient-reported-delivered' % t,
                            '%s: non-ASCII recipient %r without SMTPUTF8 is reported delivered (%s)' % (t, r, rep_[1]),
                            self.wit(msg, recipient=r, outcome=describe_outcome(o)))
            elif rep_ is not None and rep_[0] == 'fail':
                R.count('utf8-recipient-withheld/%s' % ('permanent' if rep_[2] else 'transient'))
            if received_rcpts is not None and r in received_rcpts:
                R.violation('%s/utf8-without-smtputf8/recipient-reached-the-server' % t,
                            '%s: non-ASCII recipient %r was offered to a server that does not advertise SMTPUTF8'
                            % (t, r), self.wit(msg, recipient=r, received_recipients=received_rcpts))

    # ---- extension tables (compared per connection: the k-th table the client holds after its k-th greeting on
    #      a connection against the k-th table the server of that connection advertised)
    def extensions(self, adverts, views, configured_of):
        """adverts / views: [(connection number, table)] in the order recorded (server side; None for LMTP);
        configured_of(k) -> the configured tables of connection k."""
        R, t = self.R, self.t
        nconn = max(1, self.lab.conns)
        by_conn_v = dict((k, []) for k in range(nconn))
        for k, table in views:
            by_conn_v.setdefault(k if k is not None else 0, []).append(table)
        if t == 'smtp':
            by_conn_a = dict((k, []) for k in range(nconn))
            for k, table in adverts:
                by_conn_a.setdefault(k if k is not None else 0, []).append(table)
            # harness cross-check: the server tables are what was configured, for every connection
            for k in range(nconn):
                if by_conn_a.get(k) != configured_of(k):
                    R.inconclusive('server extension tables differ from the configured advertisement')
                    return
        else:
            by_conn_a = dict((k, configured_of(k)) for k in range(nconn))
        cfg = self.cfg
        R.hit('extensions-compared', len(views))
        if self.case.get('chunk'):
            R.hit('chunked-extensions-compared', len(views))
        if cfg.get('add') or (t == 'lmtp' and self.case['label'] == 'lmtp-odd-exts'):
            R.hit('extra-extensions-compared')
        if t == 'smtp' and cfg.get('post_tls') and cfg['tls'] is True:
            R.hit('post-tls-extensions-compared')
        if t == 'smtp' and cfg.get('conn_drop') and nconn >= 2 and \
                len(set(repr(sorted((x or {}).items())) for k in range(nconn) for x in by_conn_a[k])) >= 2:
            R.hit('multi-connection-extensions-compared')
        for k in sorted(set(by_conn_a) | set(by_conn_v)):
            expect = [(a if a is not None else {}) for a in by_conn_a.get(k, [])]
            mine = by_conn_v.get(k, [])
            if mine == expect:
                continue
            j = next((i for i in range(min(len(mine), len(expect))) if mine[i] != expect[i]), None)
            if j is None:
                mech = 'unclassified/%s/extensions/number-of-greetings-differs' % t
                detail = {'connection': k, 'client_tables': mine, 'server_tables': expect}
            else:
                a, v = expect[j], mine[j]
                names = sorted(n for n in set(a) | set(v) if a.get(n, 0) != v.get(n, 0))
                kind = ('parameter-differs' if all(n in a and n in v for n in names) else
                        'name-missing-at-client' if all(n in a for n in names) else 'name-invented-at-client')
                # stable classes for the audit strata: which stratum's keywords are involved
                std = set(DEFAULT_EXTS) | {'SIZE', 'AUTH', 'STARTTLS'}
                shown = [n if n in std else 'extra-keyword' for n in names]
                mech = '%s/extensions/%s/%s' % (t, kind, '+'.join(sorted(set(shown))))
                if k > 0 and t == 'smtp' and cfg.get('conn_drop'):
                    mech += '/on-a-later-connection'
                detail = {'connection': k, 'greeting': j, 'server_advertised': a, 'client_sees': v, 'differing': names}
            R.violation(mech, '%s: the client\'s extension table differs from what the server advertised: %s'
                        % (t, detail.get('differing', 'count')), dict(detail, config=self.case['label'], cfg=self.cfg))
            break
        last = by_conn_a.get(nconn - 1) or [{}]
        self.R.observe('extension-table', (t, repr(sorted((last[-1] or {}).items()))))


def attempt(relay, env):
    try:
        return ('ret', relay.attempt(env, 0))
    except Exception as e:         # noqa -- whatever attempt raises is the observation
        return ('exc', e)


def run_messages(case, lab, R):
    """Run the case's messages through lab.relay; -> list of (msg, env, orig, outcome)."""
    msgs = case['msgs']
    prepared = []
    for m in msgs:
        env = Envelope(m['sender'], list(m['rcpts']))
        env.parse(bytes(m['data']))
        prepared.append((m, env, b''.join(env.flatten())))
    out = []
    if case['cfg'].get('concurrent'):
        lab.msg_i = -1
        results = [None] * len(prepared)

        def one(k):
            results[k] = attempt(lab.relay, prepared[k][1])
        st, _ = watchdog_call(lambda: gevent.joinall([gevent.spawn(one, k) for k in range(len(prepared))]), WATCHDOG)
        for k, (m, env, orig) in enumerate(prepared):
            R.eval()
            out.append((m, env, orig, outcome_of('watchdog' if results[k] is None else 'ok', results[k])))
        return out
    for k, (m, env, orig) in enumerate(prepared):
        lab.msg_i = k
        lab.script = m['script']
        lab.reply = m.get('reply')
        lab.reject = [m['rcpts'][i] for i in m['script'][1]] if m['script'] and m['script'][0] == 'rcpt' else ()
        R.eval()
        st, val = watchdog_call(lambda: attempt(lab.relay, env), WATCHDOG)
        out.append((m, env, orig, outcome_of(st, val)))
        lab.script = None
        if st == 'watchdog':
            break
    return out


def nontrivial_key(case, m, orig):
    t, cfg = case['transport'], case['cfg']
    classes = sorted(set([addr_features(m['sender'])] + [addr_features(r) for r in m['rcpts']]))
    nt = any(needs_care(a) or a == '' for a in [m['sender']] + m['rcpts']) or len(m['rcpts']) >= 2 or \
        not default_cfg(t, cfg)
    key = (t, tuple(classes), ext_key(t, cfg), body_class(orig.partition(b'\r\n\r\n')[2]), header_class(orig),
           min(len(m['rcpts']), 60), case.get('chunk') or 0)
    return nt, key


# --- expected per-message behaviour ---------------------------------------------------------------------

def size_class(cfg, orig):
    """'over' / 'under' / 'near' the configured SIZE limit (SMTP only)."""
    lim = cfg.get('size')
    if not lim or cfg.get('helo'):
        return 'under'
    n = len(orig)
    if n > lim + 60:
        return 'over'
    if n < lim - 60:
        return 'under'
    return 'near'


def judge_smtp_http(case, lab, R, runs):
    J = Judge(case, R, lab)
    t, cfg = case['transport'], case['cfg']
    got = lab.capq.got
    concurrent = cfg.get('concurrent')
    used = set()
    for k, (m, env, orig, o) in enumerate(runs):
        nt, key = nontrivial_key(case, m, orig)
        if nt:
            R.nontrivial(key)
        R.observe('hop-shape', key)
        if o['kind'] == 'watchdog':
            R.inconclusive('watchdog: Relay.attempt did not return within %ds (%s)' % (WATCHDOG, t))
            continue
        # which captured envelopes belong to this message
        if concurrent:
            mine = [i for i, r in enumerate(got) if i not in used and
                    str(r['env'].headers.get('X-Verif-Msg', '')).strip() == m['marker']]
        else:
            mine = [i for i, r in enumerate(got) if r['msg_i'] == k]
        used.update(mine)
        recs = [r for r in lab.records if r[0] == k] if not concurrent else []
        script = m['script']
        ck = k if cfg.get('conn_drop') else 0          # 'three servers': message k travels on connection k
        cond = may_refuse(t, cfg, m, ck)
        sz = size_class(cfg, orig) if t == 'smtp' else 'under'
        delivered = [i for i in mine if got[i]['failed'] is None]
        qscript = bool(script) and script[0] in ('qerr', 'rerr', 'qerr-noreply')
        rclass = (m.get('reply') or {}) if script else {}
        if script and rclass.get('text') not in (None, 'plain') or rclass.get('cmd'):
            R.hit('reply-text-class-judged')
            R.count('reply-class/%s/%s' % (rclass.get('text'), rclass.get('cmd')))
        if script and script[0] == 'rerr':
            R.hit('queue-relay-error-judged')

        # ---- what the relay reported, per recipient
        distinct = list(dict.fromkeys(m['rcpts']))
        reported = {}          # rcpt -> ('ok', code) | ('fail', code, permanent) ; None = unknown shape
        if o['kind'] == 'ok':
            res = o['result']
            if isinstance(res, dict):
                for r in distinct:
                    v = res.get(r)
                    if isinstance(v, RelayError):
                        reported[r] = ('fail', v.reply.code, isinstance(v, PermanentRelayError))
                    elif isinstance(v, Reply):
                        reported[r] = ('ok', v.code)
                    else:
                        reported[r] = ('ok', None)
                if set(res) != set(distinct):
                    R.violation('unclassified/%s/result-keys-differ-from-recipients' % t,
                                '%s: result keys %r != recipients %r' % (t, sorted(res), sorted(distinct)),
                                J.wit(m, outcome=describe_outcome(o)))
            else:
                code = res.code if isinstance(res, Reply) else None
                for r in distinct:
                    reported[r] = ('ok', code)
        elif o['kind'] == 'relay-error':
            for r in distinct:
                reported[r] = ('fail', o['code'], o['permanent'])
        else:
            for r in distinct:
                reported[r] = ('crash', None, None)
        any_ok = any(v[0] == 'ok' for v in reported.values())

        # ---- consistency: reported delivered <=> received exactly once
        if len(delivered) > 1:
            R.violation('unclassified/%s/message-received-more-than-once' % t,
                        '%s: one attempt, %d envelopes received' % (t, len(delivered)),
                        J.wit(m, outcome=describe_outcome(o)))
        if any_ok and not delivered:
            R.violation('unclassified/%s/reported-delivered-but-not-received' % t,
                        '%s: Relay.attempt reports success but the edge handed nothing to its queue' % t,
                        J.wit(m, outcome=describe_outcome(o), edge_records=recs))
            continue
        if delivered and not any_ok:
            R.violation('unclassified/%s/received-but-reported-failed' % t,
                        '%s: the edge accepted and queued the message but Relay.attempt reports %s'
                        % (t, describe_outcome(o)), J.wit(m, outcome=describe_outcome(o), edge_records=recs))

        # ---- reply-code clause
        if t == 'smtp' and not concurrent:
            judge_reply_smtp(J, m, o, recs, reported, withheld_rcpts(t, cfg, m, ck))
        elif t == 'http' and not concurrent and not mine:
            # the request never reached the edge's queue (refused by the HTTP server below the edge, or the edge
            # application failed before it had an answer): the edge "gave" no SMTP code; an un-scripted message is
            # judged below as a refused valid hop
            R.count('reply-clause-skipped/http-request-not-handled-by-the-edge')
        elif t == 'http' and not concurrent:
            want = script[1] if script else '250'
            R.hit('reply-code-compared')
            codes = set(v[1] for v in reported.values())
            shape_ok = all((v[0] == 'ok') == (want[0] == '2') for v in reported.values()) and \
                all(v[0] != 'fail' or v[2] == (want[0] == '5') for v in reported.values())
            if codes != {want} or not shape_ok:
                # the reply classes whose X-Smtp-Reply header the edge cannot build are root causes of their own
                why = ('bytes-command' if rclass.get('cmd') == 'bytes' else
                       'multi-line-text' if rclass.get('text') == 'multiline' else
                       'non-latin1-text' if rclass.get('text') == 'utf8' else None)
                mech = 'http/reply-code/edge-%sxx-reported-differently' % want[0]
                if why and mine and o['kind'] == 'relay-error':
                    mech = 'http/reply-code/reply-with-%s/edge-code-not-reported' % why
                R.violation(mech,
                            'http: the edge answered %s (reply classes %s), Relay.attempt reports %s'
                            % (want, rclass or '-', describe_outcome(o)),
                            J.wit(m, edge_code=want, reply_classes=rclass, outcome=describe_outcome(o)))

        # ---- delivery clause
        expect_refusal = bool(script) or sz == 'over'
        if not delivered:
            if expect_refusal or cond or sz == 'near':
                if cond and not script:
                    R.hit('conditional-class-refused')
                    R.count('conditional-refused/%s' % o['kind'])
                    if o['kind'] == 'relay-error' and any(c > 127 for c in orig) and not o['permanent'] and \
                            all(is_ascii(a) for a in [m['sender']] + m['rcpts']):
                        R.violation('%s/8bit-without-8bitmime-refused-transiently' % t,
                                    '%s: 8-bit data without 8BITMIME refused with a transient error %s' % (t, o['code']),
                                    J.wit(m, outcome=describe_outcome(o)))
                continue
            # an un-scripted hop of a valid envelope was refused
            R.hit('valid-hop-refused')
            stage = (o.get('command') or b'?')
            stage = stage.decode('latin-1') if isinstance(stage, bytes) else str(stage)
            if o['kind'] == 'relay-error' and stage in ('MAIL', 'RCPT'):
                addr = m['sender'] if stage == 'MAIL' else m['rcpts'][0]
                mech = address_mechanism(t, addr, o['code'], stage)
            elif o['kind'] == 'relay-error' and t == 'http' and not mine and len(m['rcpts']) >= 90:
                # one X-Envelope-Recipient header per recipient: the request is refused before the edge sees it
                mech = 'http/many-recipients/request-refused-before-the-edge'
            elif o['kind'] == 'relay-error' and t == 'http' and not mine and cfg.get('reuse') and k > 0 and \
                    'IncompleteRead' in o['text']:
                # the previous request on this connection ended in a broken error response of the HTTP server
                mech = 'http/reuse/request-after-a-broken-error-response-fails/IncompleteRead'
            elif o['kind'] == 'relay-error':
                mech = 'unclassified/%s/valid-hop-refused/%s-%s' % (t, stage, o['code'])
            else:
                mech = 'unclassified/%s/valid-hop-raised/%s' % (t, type(o['exc']).__name__)
            R.violation(mech, '%s: valid envelope not delivered: %s' % (t, describe_outcome(o)),
                        J.wit(m, outcome=describe_outcome(o), edge_records=recs, crashes=list(_crashes[-3:])))
            continue
        if qscript:
            continue                     # the queue "failed" by script; nothing to compare
        if expect_refusal and script and script[0] in ('mail', 'data', 'have_data'):
            R.violation('unclassified/%s/delivered-although-edge-refused' % t,
                        '%s: edge refused at %s but a message was queued' % (t, script[0]), J.wit(m))
            continue
        R.hit('%s-hop-delivered' % t)
        if cfg.get('tls') or cfg.get('https'):
            R.hit('tls-hop')
        if cfg.get('helo'):
            R.hit('helo-fallback-hop')
        # un-scripted valid message: every recipient must have been accepted
        rec = got[delivered[0]]
        e2 = rec['env']
        want_rcpts = list(m['rcpts'])
        scripted = [m['rcpts'][i] for i in script[1]] if script and script[0] == 'rcpt' else []
        want_rcpts = [r for r in want_rcpts if r not in scripted]
        # non-ASCII recipients without SMTPUTF8: the relay keeps them back; the ASCII ones must arrive as usual
        held = withheld_rcpts(t, cfg, m, ck)
        J.withheld(m, held, reported, list(e2.recipients), o)
        want_rcpts = [r for r in want_rcpts if r not in held]
        if t == 'smtp':
            # recipients the edge itself refused without a script (server-level 501 etc.): reported here, the
            # list comparison then uses the addresses the relay reports as accepted
            bad = [r for r in distinct if reported[r][0] == 'fail' and r not in scripted and r not in held]
            for r in bad:
                R.hit('valid-hop-refused')
                R.violation(address_mechanism(t, r, reported[r][1], 'RCPT'),
                            '%s: valid recipient %r refused %s by the edge (no script)' % (t, r, reported[r][1]),
                            J.wit(m, refused=r, outcome=describe_outcome(o), edge_records=recs))
            want_rcpts = [r for r in want_rcpts if r not in bad]
        try:
            content = b''.join(e2.flatten())
        except Exception:
            R.violation('envelope/flatten-raises-on-received-message',
                        '%s: flatten() of the received envelope raises' % t,
                        J.wit(m, error=traceback.format_exc(limit=3)[-300:], original=orig))
            continue
        J.compare(m, orig, e2.sender, list(e2.recipients), content, want_rcpts, cond)
        if t == 'smtp' and cfg.get('auth'):
            R.hit('auth-hop')
            if not e2.client.get('auth') or e2.client['auth'][0] != USER:
                R.violation('unclassified/smtp/auth/identity-differs',
                            'smtp: edge recorded auth=%r, relay used %r' % (e2.client.get('auth'), USER), J.wit(m))
        # ---- client info recorded with the message: who the relay said it was, over what.  OBSERVATION ONLY: the
        #      statement of C06 names sender, recipients, header block, body, extensions and reply code, not the
        #      edge's bookkeeping of the session; agreements / disagreements are counted in the evidence, never a
        #      violation.
        R.hit('client-info-observed')
        if t == 'smtp':
            # TLS is in effect when implicit, or when STARTTLS was advertised (never after the HELO fall-back)
            tls_on = cfg.get('tls') == 'immediate' or (cfg.get('tls') and not cfg.get('helo'))
            proto = ('SMTP' if cfg.get('helo') else 'ESMTP') + ('S' if tls_on else '') + \
                ('A' if cfg.get('auth') else '')
            want_info = {'name': ehlo_name(cfg), 'protocol': proto, 'ip': '127.0.0.1',
                         'auth': e2.client.get('auth') if cfg.get('auth') else None}
        else:
            want_info = {'name': ehlo_name(cfg), 'protocol': 'HTTPS' if cfg.get('https') else 'HTTP',
                         'ip': '127.0.0.1'}
        for field in sorted(want_info):
            if e2.client.get(field) != want_info[field]:
                what = '%s/%s-differs' % (t, field)
                if field == 'protocol' and cfg.get('helo') and e2.client.get(field) == 'E' + want_info[field]:
                    what = 'smtp/protocol-says-ESMTP-after-refused-EHLO-and-HELO'
                R.count('client-info/disagrees/%s' % what)
                R.observe('client-info-disagreement', (what, repr(e2.client.get(field)), repr(want_info[field])))
            else:
                R.count('client-info/agrees/%s/%s' % (t, field))
        if len(R.samples) < R.MAX_SAMPLES and nt and (case['n'] % 5 == 0):
            R.sample({'transport': t, 'config': case['label'], 'sender': m['sender'], 'recipients': m['rcpts'],
                      'received_sender': e2.sender, 'received_recipients': list(e2.recipients),
                      'content_bytes': len(orig), 'outcome': describe_outcome(o)})
    # captured envelopes nobody sent
    stray = [i for i in range(len(got)) if i not in used]
    if stray:
        R.violation('unclassified/%s/unattributed-envelope-received' % t,
                    '%s: %d received envelope(s) cannot be attributed to a sent message' % (t, len(stray)),
                    {'config': case['label'], 'cfg': cfg,
                     'received': [(got[i]['env'].sender, list(got[i]['env'].recipients)) for i in stray]})
    if cfg.get('reuse') and all(o['kind'] != 'watchdog' for _, _, _, o in runs):
        if t == 'smtp':
            if lab.conns == 1:
                R.hit('reuse-one-connection')
            R.observe('connections-per-reuse-case', (t, lab.conns))
        else:
            R.hit('http-reuse-case')
    if t == 'http' and cfg.get('validators') and not concurrent:
        # what the edge showed its validators, request by request
        sent = [(ehlo_name(cfg), m['sender'], list(m['rcpts'])) for m, _, _, o in runs if o['kind'] != 'watchdog']
        seen = [(x[0], x[1], list(x[2])) for x in lab.wsgi_seen]
        handled = len(lab.capq.got)
        if len(seen) != len(sent) and len(seen) == handled:
            # a request that never reached the edge application (judged above) is not part of this clause
            R.count('validators-clause-skipped/request-not-handled-by-the-edge')
            sent = seen
        R.hit('http-validators-compared', len(seen))
        if len(seen) == len(sent):
            # the X-Ehlo value is client info: observed, not judged
            for a, b in zip(seen, sent):
                R.count('client-info/%s/http/validators-ehlo' % ('agrees' if a[0] == b[0] else 'disagrees'))
            seen = [(b[0], a[1], a[2]) for a, b in zip(seen, sent)]
        if seen != sent:
            j = next((i for i in range(min(len(seen), len(sent))) if seen[i] != sent[i]), None)
            what = 'count' if j is None else ['ehlo', 'sender', 'recipients'][
                next(f for f in range(3) if seen[j][f] != sent[j][f])]
            R.violation('http/validators/%s-differs' % what,
                        'http: the edge\'s validators saw %r, the relay sent %r'
                        % (seen[j] if j is not None else len(seen), sent[j] if j is not None else len(sent)),
                        {'config': case['label'], 'cfg': cfg})
    if t == 'smtp':
        R.observe('mail-params', repr(sorted(set(tuple(p) for p in lab.mail_params))))
        if cfg.get('conn_drop') and lab.conns != len(runs):
            R.inconclusive('three-servers case: %d connections for %d messages' % (lab.conns, len(runs)))
        else:
            J.extensions(list(lab.adverts), list(lab.views), lab.expected_adverts)
        if cfg.get('auth') and lab.auths:
            if any(a[0] != USER or not a[2] for a in lab.auths):
                R.violation('unclassified/smtp/auth/credentials-differ',
                            'smtp: the edge\'s validator saw credentials %r' % (lab.auths,),
                            {'config': case['label'], 'cfg': cfg})
        if any(x != ehlo_name(cfg) for x in lab.ehlo_as + [h[0] for h in lab.helos]):
            R.violation('unclassified/smtp/ehlo-identity-differs', 'smtp: edge saw EHLO/HELO %r'
                        % (lab.ehlo_as + lab.helos,), {'config': case['label']})


def judge_reply_smtp(J, m, o, recs, reported, held=()):
    """The result the relay reports carries the code the edge gave (edge side = recording session).
    held = recipients the relay keeps back itself (never offered to the edge): not part of this clause."""
    R = J.R
    m = dict(m, rcpts=[r for r in m['rcpts'] if r not in held])
    distinct = list(dict.fromkeys(m['rcpts']))
    mail = [r for r in recs if r[1] == 'MAIL']
    rcpt = [r for r in recs if r[1] == 'RCPT']
    data = [r for r in recs if r[1] == 'DATA']
    eod = [r for r in recs if r[1] == 'EOD']
    # the code the edge gave *for each recipient*: its RCPT code when that was an error, else the first
    # error of MAIL / DATA / end-of-data, else the end-of-data code
    if not mail:
        R.count('reply-clause-skipped/no-edge-record')       # refused below the session (e.g. 501): nothing to compare
        return
    msg_level = None
    if mail[-1][2][0] != '2':
        msg_level = mail[-1][2]
    elif rcpt and len(rcpt) == len(m['rcpts']) and all(r[2][0] != '2' for r in rcpt):
        msg_level = rcpt[0][2]
    elif data and data[-1][2][0] != '3':
        msg_level = data[-1][2]
    elif eod:
        msg_level = eod[-1][2]
    if msg_level is None or len(rcpt) != len(m['rcpts']) and mail[-1][2][0] == '2':
        R.count('reply-clause-skipped/incomplete-edge-record')
        return
    R.hit('reply-code-compared')
    per_rcpt_reject = False
    for rname in distinct:
        idx = [i for i, x in enumerate(m['rcpts']) if x == rname]
        codes_here = [rcpt[i][2] for i in idx] if len(rcpt) == len(m['rcpts']) else []
        errs = [c for c in codes_here if c[0] != '2']
        if msg_level[0] == '2' and errs:
            want = errs[-1] if len(set(errs)) == 1 else errs[0]
            per_rcpt_reject = True
        else:
            want = msg_level
        rep = reported.get(rname)
        ok = rep is not None and rep[1] == want and (rep[0] == 'ok') == (want[0] == '2') and \
            (rep[0] != 'fail' or rep[2] == (want[0] == '5'))
        if not ok:
            stage = ('RCPT' if errs and msg_level[0] == '2' else 'MAIL' if mail[-1][2][0] != '2' else
                     'all-RCPT' if rcpt and all(r[2][0] != '2' for r in rcpt) else
                     'DATA' if data and data[-1][2][0] != '3' else 'end-of-data')
            R.violation('smtp/reply-code/edge-%s-%sxx-reported-differently' % (stage, want[0]),
                        'smtp: the edge answered %s at %s for %r, Relay.attempt reports %s'
                        % (want, stage, rname, rep), J.wit(m, edge_records=recs, outcome=describe_outcome(o)))
            return
    if per_rcpt_reject:
        R.hit('per-recipient-rejection-judged')


def judge_lmtp(case, lab, R, runs):
    J = Judge(case, R, lab)
    t, cfg = 'lmtp', case['cfg']
    txns = [tx for c in lab.ds.conns for tx in c.txns]
    by_marker = {}
    for tx in txns:
        by_marker.setdefault(tx.get('marker'), []).append(tx)
    cmds = [(c.n, v, l) for c in lab.ds.conns for v, l in c.commands]
    # RCPT lines of each transaction: the k-th MAIL command of a connection opened its k-th transaction
    rcpt_lines = {}
    for c in lab.ds.conns:
        k, cur = -1, None
        for v, l in c.commands:
            if v == 'MAIL':
                k += 1
                cur = rcpt_lines.setdefault(id(c.txns[k]), []) if k < len(c.txns) else None
            elif v == 'RCPT' and cur is not None:
                cur.append(l)
            elif v in ('DATA', 'RSET', 'QUIT', 'LHLO'):
                cur = None
    for k, (m, env, orig, o) in enumerate(runs):
        nt, key = nontrivial_key(case, m, orig)
        if nt:
            R.nontrivial(key)
        R.observe('hop-shape', key)
        if o['kind'] == 'watchdog':
            R.inconclusive('watchdog: Relay.attempt did not return within %ds (lmtp)' % WATCHDOG)
            continue
        script = m['script']
        cond = may_refuse(t, cfg, m)
        rclass = (m.get('reply') or {}) if script else {}
        if script and rclass.get('text') not in (None, 'plain'):
            R.hit('reply-text-class-judged')
        mine = [tx for tx in by_marker.get(m['marker'], []) if tx['content'] is not None]
        distinct = list(dict.fromkeys(m['rcpts']))
        reported = {}
        if o['kind'] == 'ok' and isinstance(o['result'], dict):
            for r in distinct:
                v = o['result'].get(r)
                reported[r] = ('fail', v.reply.code, isinstance(v, PermanentRelayError)) \
                    if isinstance(v, RelayError) else ('ok', getattr(v, 'code', None))
        elif o['kind'] == 'relay-error':
            for r in distinct:
                reported[r] = ('fail', o['code'], o['permanent'])
        else:
            for r in distinct:
                reported[r] = ('crash', None, None) if o['kind'] != 'ok' else ('ok', None)
        any_ok = any(v[0] == 'ok' for v in reported.values())
        if len(mine) > 1:
            R.violation('unclassified/lmtp/message-received-more-than-once', 'lmtp: %d transactions carry the message'
                        % len(mine), J.wit(m))
        if any_ok and not mine:
            R.violation('unclassified/lmtp/reported-delivered-but-not-received',
                        'lmtp: Relay.attempt reports success but the server received no content',
                        J.wit(m, outcome=describe_outcome(o)))
            continue
        if not mine:
            if cond:
                R.hit('conditional-class-refused')
                R.count('conditional-refused/%s' % o['kind'])
                continue
            R.hit('valid-hop-refused')
            stage = o.get('command') or b'?'
            stage = stage.decode('latin-1') if isinstance(stage, bytes) else str(stage)
            mech = ('unclassified/lmtp/valid-hop-refused/%s-%s' % (stage, o['code']) if o['kind'] == 'relay-error'
                    else 'unclassified/lmtp/valid-hop-raised/%s' % type(o['exc']).__name__)
            R.violation(mech, 'lmtp: valid envelope not delivered: %s' % describe_outcome(o),
                        J.wit(m, outcome=describe_outcome(o), commands=[l for _, _, l in cmds][-12:]))
            continue
        tx = mine[0]
        R.hit('lmtp-hop-delivered')
        if cfg['tls']:
            R.hit('tls-hop')
        # sender / recipients from the raw lines, parsed independently
        sp = parse_path(tx['raw_mail'])
        sender = sp[0].decode('utf-8', 'replace') if sp else None
        rl = rcpt_lines.get(id(tx), [])
        rc = []
        for l in rl:
            p = parse_path(l)
            rc.append(p[0].decode('utf-8', 'replace') if p else None)
        # non-ASCII recipients without SMTPUTF8: kept back by the relay, never offered to the server
        held = withheld_rcpts(t, cfg, m)
        J.withheld(m, held, reported, rc, o)
        # reply clause: per-recipient results vs what the server answered
        want_codes = {}
        for i, r in enumerate(m['rcpts']):
            c = '250'
            if script and script[0] == 'rcpt' and i in script[1]:
                c = script[2]
            want_codes.setdefault(r, []).append(c)
        if script and script[0] == 'eod':
            acc = [r for i, r in enumerate(m['rcpts'])]
            want_codes[acc[script[1]]] = [script[2]]
        R.hit('reply-code-compared')
        rejected = False
        for r in distinct:
            if r in held:
                continue
            cs = want_codes[r]
            bad = [c for c in cs if c[0] != '2']
            want = bad[0] if bad else '250'
            rejected = rejected or bool(bad)
            rep = reported.get(r)
            # duplicates: the relay keys results by address; with a duplicate the last answer may win
            dup = m['rcpts'].count(r) > 1
            ok = rep is not None and (rep[1] == want or (dup and rep[1] in cs + ['250'])) and \
                (rep[0] != 'fail' or rep[2] == (rep[1][0] == '5'))
            if not ok:
                R.violation('lmtp/reply-code/server-%sxx-reported-differently' % want[0],
                            'lmtp: the server answered %s for %r, Relay.attempt reports %s' % (want, r, rep),
                            J.wit(m, outcome=describe_outcome(o)))
                break
        if rejected:
            R.hit('per-recipient-rejection-judged')
        J.compare(m, orig, sender, rc, tx['content'], [r for r in m['rcpts'] if r not in held], cond)
    if cfg['reuse'] and lab.conns == 1:
        R.hit('reuse-one-connection')
    views = [(0 if lab.conns <= 1 else None, v) for _, v in lab.views]
    if lab.conns <= 1:
        J.extensions(None, views, lambda k: lab.expected_views())
    else:
        R.count('extensions-clause-skipped/lmtp-several-connections')
    if cfg['auth']:
        R.hit('auth-hop')
    # client info (observation only, see judge_smtp_http): the name given with every LHLO vs the configured one
    names = [l.split(None, 1)[1].strip().decode('latin-1') if len(l.split(None, 1)) > 1 else ''
             for c in lab.ds.conns for v, l in c.commands if v == 'LHLO']
    if names:
        R.hit('client-info-observed')
        for x in names:
            if x != ehlo_name(cfg):
                R.count('client-info/disagrees/lmtp/name-differs')
                R.observe('client-info-disagreement', ('lmtp/name-differs', repr(x), repr(ehlo_name(cfg))))
            else:
                R.count('client-info/agrees/lmtp/name')


def run_case(case, R):
    _hook_hub()
    del _crashes[:]
    t = case['transport']
    cfg = dict(case['cfg'])
    if t == 'smtp':
        for k, v in smtp_cfg().items():
            cfg.setdefault(k, v)
    case = dict(case, cfg=cfg)
    _CHUNK[0] = case.get('chunk') or None
    try:
        lab = {'smtp': SmtpLab, 'lmtp': LmtpLab, 'http': HttpLab}[t](cfg)
    except Exception as e:
        if t == 'http' and cfg.get('listener'):
            R.eval()
            R.hit('http-edge-setup-judged')
            R.violation('http/edge-setup/listener-%s-tls-context-raises-%s'
                        % ('with' if cfg['https'] else 'without', type(e).__name__),
                        'http: WsgiEdge(queue, listener=..., context=%s) cannot be constructed: %s: %s'
                        % ('ctx' if cfg['https'] else 'None', type(e).__name__, e),
                        {'config': case['label'], 'cfg': cfg, 'traceback': traceback.format_exc(limit=4)[-600:]})
            return
        raise
    try:
        runs = run_messages(case, lab, R)
        gevent.sleep(0)
        if t == 'lmtp':
            judge_lmtp(case, lab, R, runs)
        else:
            judge_smtp_http(case, lab, R, runs)
        R.observe('config', ext_key(t, cfg))
        R.count('hops/%s' % t, len(runs))
    finally:
        lab.close()
        _CHUNK[0] = None
