"""C07 -- the SMTP server enforces command order, resets transaction state, answers every command line
exactly once and ends the session on 221/421.

The real slimta.smtp.server.Server is driven by a scripted client: the server asks for more input by
calling recv() when nothing is pending; everything written to the socket and every callback logged since
the previous recv() boundary belongs to the lines handed over at that boundary.  STOP-AND-WAIT framing hands
over one unit per boundary (exact attribution, no after-the-fact alignment).  PIPELINED framings hand over
several complete lines in ONE segment -- everything up to the next line a pipelining client has to wait at
(DATA, AUTH, STARTTLS: "burst"), or groups of 2 / 3 / 5 lines; message content is followed by further
lines in the same segment.  There the client-visible reply stream is judged as the client sees it: the i-th
final reply answers the i-th line of the segment, nothing may follow a 221/421 reply (no reply, no callback
of a line behind it), and when handle() exits every line the server took must have been answered ON THE
WIRE (replies that were produced but never reached the socket are 'replies-never-reached-client').
Callbacks are attributed to the line whose bytes the server consumed last (bytes returned by its reads
minus len(Server.io.recv_buffer), read-only); the implementation flags are compared at rest only (end of a
segment).  A message body (+ end-of-data line) is supplied only if the reply to DATA was 354, an AUTH
response line only after a 334.  Verdict 'raise' makes the callback / validator raise: the line is still
owed exactly one final reply.  XCMD is a command the application added to its handler object (verdicts of
every reply class).  Two handler kinds: a recording handler object implementing the whole
callback API, and the real slimta.edge.smtp.SmtpSession (sub-classed only to log the calls the Server
makes) with a validator class that applies the scripted verdict and a stub hand-off that collects
envelopes.  Extension sets without STARTTLS run on vf.sock.ScriptSocket; sets offering STARTTLS run over a
real socketpair whose server end is wrapped by a thin recv/sendall-hooking proxy, and the harness performs
a real TLS client handshake when (and only when) STARTTLS was answered 220.

Oracle = online spec automaton written from the STATEMENT only.  State: greeted, helo_done, mail_ok,
accepted recipients, authed, tls, ended.  It is advanced from OBSERVED replies (a transition happens when
the server says 250/354/235/220..., not when the harness thinks it should) and asserts per unit:
  (i)   callback admissibility: EHLO/HELO only after the greeting was accepted; MAIL only after an accepted
        EHLO/HELO with no open transaction; RCPT only after an accepted MAIL; DATA only after >= 1 accepted
        RCPT; message-received only after a 354.  Out-of-order or malformed => 4xx/5xx and NO callback.
        A well-formed in-order EHLO/HELO/MAIL/RCPT/DATA must reach its callback exactly once.
  (ii)  exactly one reply per command line / per stage (DATA: 354 then one final after content; AUTH: 334s
        then one final), judged with an independent reply splitter.
  (iii) reset: RSET-250, EHLO-250, HELO-250 and every completed or rejected message put the automaton in
        'no transaction'; clause (i) then demands that the next RCPT / DATA is refused without callback.
  (iv)  a final reply 221/421 -- from any command, incl. the reply to message content and codes chosen by a
        handler/validator -- ends the session: the server must not call recv() again, handle() must exit,
        nothing is written afterwards.
  (v)   the envelope handed off by SmtpSession == (sender of the last accepted MAIL, recipients accepted
        since, in order); a hand-off happens only while message content is being answered.
  (vi)  read-only invariant: Server.bannered / ehlo_as / have_mailfrom / have_rcptto / authed / encrypted and
        SmtpSession.envelope agree with the automaton after every unit.
After a successful STARTTLS the statement says nothing about what is remembered, so helo_done (and an open
transaction) become 'unknown' until the next EHLO/HELO/RSET/MAIL resolves them; clauses touching an unknown
are skipped (C08 owns the STARTTLS boundary).
Only the first violation of a session is reported (afterwards automaton and implementation may have parted);
if that first one is the read-only invariant (vi), the first behavioural violation (i)-(v) after it is reported too.

Exploration: (1) STATE-GRAPH CLOSURE per (extension set, handler kind): BFS over abstract states
(automaton state incl. 'sender is the null reverse-path' x implementation flags x envelope shape); every newly
reached state is expanded with every symbol by replaying its witness prefix on a fresh server until no new state
appears.  The BFS lives in
gen_cases(): run_case() registers the states each 'bfs' case reached in a module-level table that the
generator (consumed lazily, case by case, by the same worker) reads to decide what to yield next -- so every
BFS step is an ordinary replayable case.  (2) all sequences of length 2 after no prefix, after EHLO, after EHLO MAIL RCPT, after EHLO MAIL<> RCPT and
(STARTTLS sets) after EHLO STARTTLS EHLO; thorough adds
all sequences of length 3 over a reduced 31-symbol alphabet after the same prefixes and over the full alphabet after EHLO
for the configurations without STARTTLS.  (3) seeded random walks up to 12 units (full alphabet incl. the session-ending EXTRA symbols, which the BFS
also tries from every abstract state).  (4) pipelined strata: a closing verdict (421 / 221 / raise / QUIT / a line the
server aborts on) and the non-closing rejections at every command position of two template sessions x framings
{burst, 2, 3, 5, stop-and-wait}; every symbol with lines before and behind it in one segment; all pairs over a
reduced alphabet in one burst; random walks in a random pipelined framing.  (5) CONCURRENT sessions: 2..3 sessions
on Server objects of one class and one extension set, each with its own handlers object and its own scripted socket,
each in its own greenlet; a socket read with no data ready really blocks its greenlet (Gate) and the feeder hands out
turns (greeting, then one stop-and-wait unit per turn) in a scripted order: every interleaving of three pairs of short
sessions, seeded random orders for sessions drawn from a pool (custom commands editing their reply, 421/221, handler
failure, rejected messages, AUTH, STARTTLS) and random walks.  Oracle: the per-session automaton as usual, and each
session's reply stream (bytes), step/callback trace, exit, close code and final flags equal those of the same session
run alone ('concurrent/<field>-differs-from-session-alone/<command family>').
"""
import re
import base64
import random
import collections

import gevent
import gevent.event
from gevent import socket as gsocket, ssl as gssl

from vf.core import watchdog_call
from vf.sock import ScriptSocket
from vf import tls as vtls
from slimta.smtp.server import Server
from slimta.smtp import ConnectionLost
from slimta.queue import QueueError
from slimta.smtp.auth import AuthSession
from pysasl import SASLAuth
import slimta.edge.smtp as edge_smtp
from slimta.edge.smtp import SmtpSession, SmtpValidators

PROPERTY = 'C07'
LEVEL = 'exploration'
LEVEL_TEXT = ('Real Server (+ real SmtpSession in half of the configurations) driven stop-and-wait and with pipelined '
              'framings (several complete lines per segment) on a scripted '
              'socket (or a socketpair with real TLS when STARTTLS is offered). Online spec automaton advanced from '
              'observed replies; exact recv-boundary attribution; in a pipelined segment the client-visible reply stream is '
              'judged by position and must be complete when handle() exits. Explored: BFS closure of the abstract state graph '
              '(automaton state x implementation flags x envelope shape) per (extension set, handler kind) with every '
              'alphabet symbol tried from every abstract state; all symbol sequences of length 2 (thorough: 3, see RULE) after '
              '{no prefix, EHLO, EHLO MAIL RCPT, EHLO MAIL<> RCPT}; seeded random walks to 12 units; pipelined strata (closing verdict / '
              'handler failure at every position of template sessions x 5 framings, every symbol inside a segment, pairs in one burst, '
              'pipelined random walks); 2-3 concurrent sessions interleaved unit by unit, compared with each session run alone '
              '(distinct_observed.interleaving counts the distinct executed turn orders). Exhaustive only for the abstract graph (monitor '
              '"bfs-closure-reached" counts closed configurations; one witness prefix per abstract state) and for the '
              'bounded-depth enumeration when the generator was not cut; everything else is sampling. Held = held on '
              'the sequences run.')
LEVEL_NOTE = ('Replies are observed where the server hands them to its socket (sendall on the scripted socket / on the proxy / '
              'on the TLS socket after the handshake); in socketpair mode the client end additionally reads them off the wire. '
              'Trusted: ScriptSocket / the socketpair proxy (recv and sendall hooks), the unit-feeding rule, the reply '
              'splitter, the spec automaton (~150 lines written from the statement), the recording handler / validator '
              'class that apply scripted verdicts by current unit (never by call ordinal).')
TECHNIQUE = 'runtime monitoring: online spec-automaton checker with exact recv-boundary attribution; BFS state-graph closure'
RULE = ('case = (extension set in {default,SIZE,STARTTLS,AUTH,ALL}, handler kind in {rec, session}, banner verdict, '
        'sequence of symbols); symbol = command form (EHLO, EHLO address literal, HELO, MAIL ok / null reverse-path <> (also with '
        'SIZE) / 4 malformed / SIZE ok / SIZE over / 8-bit, RCPT ok / <postmaster> / empty <> / 3 malformed, DATA+content small / empty / over-limit, DATA with argument, RSET, RSET arg, NOOP, QUIT, '
        'QUIT arg, STARTTLS, STARTTLS arg, AUTH PLAIN initial-response / challenge / empty identity / LOGIN / cancel / bad base64 / unknown '
        'mechanism / bare, unknown verb, non-verb, empty line, over-long (4200-byte) unknown / NOOP / MAIL lines, bare-LF line, 8-bit EHLO / MAIL / RCPT, '
        'application-defined command XCMD, CLOSE, TLSHANDSHAKE, BANNER_, HAVE_DATA) x handler verdict for '
        'that callback in {accept,450,550,421} (also 221, 451, 554, callback raises; XCMD also 354 and untouched reply) x framing in '
        '{stop-and-wait, burst, 2-, 3-, 5-line groups}. Generated by (1) BFS closure of the abstract '
        'state graph, (2) all sequences of length 2 after {nothing, EHLO, EHLO MAIL RCPT, EHLO MAIL<> RCPT, and EHLO STARTTLS EHLO where offered} (thorough: also length 3 over a reduced 31-symbol alphabet after the same prefixes and over the full alphabet after EHLO for configurations without STARTTLS), (3) seeded random walks up to 12 units, (4) pipelined strata: closing / non-closing verdict at every position of 2 template sessions x 5 framings, '
        'every symbol inside one segment after 3-4 prefixes, all pairs over a reduced alphabet in one burst (quick: a quarter of the configurations, rotating with the seed), '
        'random walks in a random pipelined framing, (5) 2-3 concurrent sessions (own greenlet, handlers object and socket each; reads block when no data is ready) '
        'with the feeder interleaving them unit by unit: every interleaving of 3 pairs of short sessions, seeded random orders over a pool of 15 sessions and random walks; '
        'each must equal the same session run alone. '
        'One case = one session = one evaluation. non-trivial & distinct = distinct (config, sequence) that reaches an '
        'open transaction (MAIL accepted) or contains a rejected command followed by a command that depends on it '
        '(EHLO/HELO -> MAIL, MAIL -> RCPT/DATA, RCPT -> DATA)')
ASSUMPTIONS = ['concurrent stratum: greenlets switch only where the server waits for input (scripted sockets never block in send), so sessions '
               'interleave at unit granularity (and inside real TLS handshakes); shared state that lives only within one command cannot show',
               'pipelined client is RFC 2920-conformant in one respect: nothing is sent behind DATA, AUTH (and its responses) or STARTTLS '
               'before their reply was seen (bytes behind those are C05/C08/C09\'s subject); anything else may share a segment',
               'in a pipelined segment callbacks are attributed to a line through Server.io.recv_buffer (read-only) and replies by '
               'their position in the stream; implementation flags are compared with the automaton only at the end of a segment',
               'a line the server never took because it aborted the session at an earlier line of the same segment (exception leaving '
               'handle() after its 4xx/5xx reply, no 221/421) is counted (lines-never-taken-after-server-exit), not a violation: the same abort is only '
               'an observation in stop-and-wait framing',
               'scripted verdicts are a function of the current unit only; a callback raises only where the verdict says so '
               '(HandlerBoom); the statement does not say which reply a failing callback produces, only that there is exactly one',
               'slimta.edge.smtp.PtrLookup is replaced by a stub (no DNS in the sandbox); the hand-off stub always succeeds',
               'AUTH credentials are never verified by the harness handler beyond applying the scripted verdict',
               'after a successful STARTTLS the automaton treats helo_done / an open transaction as unknown (statement is '
               'silent; see C08)',
               'TLS: self-signed certificate, client does not verify it']
REQUIRED_HITS = ['order-oracle', 'reply-count-oracle', 'reset-oracle', 'close-code-oracle', 'handoff-envelope-oracle',
                 'flags-invariant', 'bfs-closure-reached', 'tls-handshake-performed', 'auth-334-exchange',
                 'pipelined-reply-stream-oracle', 'pipelined-close-mid-group', 'handler-exception-oracle',
                 'concurrent-sessions-oracle']
SHARDS = {'quick': 16, 'thorough': 16}
BUDGET = {'quick': 58, 'thorough': 800}
EXHAUSTIVE = {'quick': False, 'thorough': False}

NWALKS = {'quick': 10000, 'thorough': 100000}
NPIPEWALKS = {'quick': 10000, 'thorough': 100000}
LIMIT = 100
EXTS = ['default', 'SIZE', 'STARTTLS', 'AUTH', 'ALL']
KINDS = ['rec', 'session']
CONFIGS = [(e, k) for e in EXTS for k in KINDS]
EXT_FEATURES = {'default': (), 'SIZE': ('SIZE',), 'STARTTLS': ('STARTTLS',), 'AUTH': ('AUTH',),
                'ALL': ('SIZE', 'STARTTLS', 'AUTH')}

# ---------------------------------------------------------------- alphabet

VTEXT = {'450': ('450', '4.0.0 try again later'), '550': ('550', '5.0.0 refused'),
         '421': ('421', '4.0.0 closing connection'), '221': ('221', '2.0.0 closing connection'),
         '451': ('451', '4.3.0 local error'), 'qfail': ('451', '4.3.0 Error queuing message'), '554': ('554', '5.5.0 no'), '354': ('354', 'go on')}
LONG = 4200          # an over-long line: longer than the 4096-byte reads of slimta.smtp.io.IO


def except_types():
    """The exception types slimta/smtp/server.py has except-clauses for (read off its source once), plus the plain ones
    an application callback fails with.  -> {name: zero-argument factory}"""
    import ast
    import inspect
    import builtins
    import slimta.smtp.server as srvmod
    names = set(['RuntimeError', 'TypeError', 'OSError'])
    for node in ast.walk(ast.parse(inspect.getsource(srvmod))):
        if isinstance(node, ast.ExceptHandler) and node.type is not None:
            for t in (node.type.elts if isinstance(node.type, ast.Tuple) else [node.type]):
                names.add(t.id if isinstance(t, ast.Name) else getattr(t, 'attr', ''))
    out = {}
    for n in sorted(names):
        obj = getattr(srvmod, n, None) or getattr(builtins, n, None)
        if not (isinstance(obj, type) and issubclass(obj, BaseException)) or obj in (Exception, BaseException):
            continue
        if issubclass(obj, UnicodeDecodeError):
            out[n] = lambda obj=obj: obj('ascii', b'caf\xe9', 3, 4, 'ordinal not in range(128)')
            continue
        for args in ((), ('scripted failure',)):
            try:
                obj(*args)
            except Exception:
                continue
            out[n] = lambda obj=obj, args=args: obj(*args)
            break
    return out


EXC_TYPES = except_types()
# the server's own control-flow signals: raised by a callback they end the session the way the server ends it itself
# (no reply is owed for them; the session must be over)
SIGNAL_EXC = ('StopIteration', 'ConnectionLost')
VERB_LABEL = {}      # 'V<spelling>' unit -> the class its mechanism names carry (filled by verb_spellings())


class HandlerBoom(Exception):
    """Scripted verdict 'raise': the application's callback / validator fails."""

CLOSE_CODES = ('221', '421')
_PLAIN = base64.b64encode(b'\x00user\x00pass')
BODY_SMALL = b'Subject: t\r\n\r\nhello\r\n'
BODY_BIG = (b'X' * 70 + b'\r\n') * 3
EOD = b'.\r\n'

# base -> (kind, line template, own callback, continuation)
#   kind: helo | mail | mailp (well-formed MAIL whose parameter the server may legitimately refuse) | rcpt |
#         rcptp (RCPT the server may legitimately refuse without callback) | data |
#         free (own callback at most once, nothing else demanded) | bad (malformed / unknown: error, no callback)
BASES = {
    'EHLO': ('helo', b'EHLO c%d.test', 'EHLO', None),
    'HELO': ('helo', b'HELO c%d.test', 'HELO', None),
    # ... an address literal as EHLO identity, ...
    'EHLOlit': ('helo', b'EHLO [127.0.0.1]', 'EHLO', None),
    'EHLOnoarg': ('bad', b'EHLO', None, None),
    'HELOnoarg': ('bad', b'HELO', None, None),
    'MAIL': ('mail', b'MAIL FROM:<s%d@x.test>', 'MAIL', None),
    'MAILsize': ('mailp', b'MAIL FROM:<s%d@x.test> SIZE=10', 'MAIL', None),
    # 'falsy but valid' arguments: the null reverse-path of every bounce / DSN (address == ''), ...
    'MAILnull': ('mail', b'MAIL FROM:<>', 'MAIL', None),
    'MAILnullsize': ('mailp', b'MAIL FROM:<> SIZE=10', 'MAIL', None),
    'MAILsizeover': ('bad', b'MAIL FROM:<s%d@x.test> SIZE=99999', None, None),
    'MAILbadparam': ('bad', b'MAIL FROM:<s%d@x.test> SIZE=abc', None, None),
    'MAILnobr': ('bad', b'MAIL FROM:s%d@x.test', None, None),
    'MAILnofrom': ('bad', b'MAIL TO:<s%d@x.test>', None, None),
    'MAILbare': ('bad', b'MAIL', None, None),
    'MAIL8bit': ('bad', b'MAIL FROM:<\xff%d@x.test>', None, None),
    'RCPT': ('rcpt', b'RCPT TO:<r%d@x.test>', 'RCPT', None),
    # ... the domain-less <postmaster>, an empty forward-path (the server may refuse it: lenient like mailp), ...
    'RCPTpm': ('rcpt', b'RCPT TO:<postmaster>', 'RCPT', None),
    'RCPTnull': ('rcptp', b'RCPT TO:<>', 'RCPT', None),
    'RCPTnobr': ('bad', b'RCPT TO:r%d@x.test', None, None),
    'RCPTnoto': ('bad', b'RCPT FROM:<r%d@x.test>', None, None),
    'RCPTbare': ('bad', b'RCPT', None, None),
    'DATA': ('data', b'DATA', 'DATA', BODY_SMALL),
    'DATAempty': ('data', b'DATA', 'DATA', b''),
    'DATAbig': ('data', b'DATA', 'DATA', BODY_BIG),
    'DATAarg': ('bad', b'DATA now', None, None),
    'RSET': ('free', b'RSET', 'RSET', None),
    'RSETarg': ('bad', b'RSET now', None, None),
    'NOOP': ('free', b'NOOP', 'NOOP', None),
    'QUIT': ('free', b'QUIT', 'QUIT', None),
    'QUITarg': ('bad', b'QUIT now', None, None),
    'STARTTLS': ('free', b'STARTTLS', 'STARTTLS', None),
    'STARTTLSarg': ('bad', b'STARTTLS now', None, None),
    'AUTH': ('free', b'AUTH PLAIN ' + _PLAIN, 'AUTH', []),
    'AUTHchal': ('free', b'AUTH PLAIN', 'AUTH', [_PLAIN]),
    'AUTHlogin': ('free', b'AUTH LOGIN', 'AUTH', [base64.b64encode(b'user'), base64.b64encode(b'pass')]),
    # ... and an empty authentication identity / password.
    'AUTHempty': ('free', b'AUTH PLAIN ' + base64.b64encode(b'\x00\x00'), 'AUTH', []),
    'AUTHcancel': ('bad', b'AUTH PLAIN', None, [b'*']),
    'AUTHbadb64': ('bad', b'AUTH PLAIN !!!!', None, []),
    'AUTHmech': ('bad', b'AUTH NOSUCHMECH', None, []),
    'AUTHbare': ('bad', b'AUTH', None, []),
    'UNK': ('bad', b'FOO bar', None, None),
    'EMPTY': ('bad', b'', None, None),
    # not even a verb; over-long lines (longer than one read of the server); a line ended by a bare LF;
    # 8-bit bytes in the other address-carrying commands
    'UNKnum': ('bad', b'123 go', None, None),
    'UNKlong': ('bad', b'FOO ' + b'x' * LONG, None, None),
    'NOOPlong': ('free', b'NOOP ' + b'x' * LONG, 'NOOP', None),
    'MAILlong': ('mailp', b'MAIL FROM:<' + b'a' * LONG + b'@x.test>', 'MAIL', None),
    'NOOPlf': ('free', b'NOOP\n', 'NOOP', None),
    'EHLO8bit': ('bad', b'EHLO \xff\xfe', None, None),
    'RCPT8bit': ('bad', b'RCPT TO:<\xff%d@x.test>', None, None),
    # case-insensitive verbs and keywords, optional space after the colon, quoted local part holding '>', mail
    # parameters with and without value; a path that never closes, an unbalanced quote
    'EHLOlc': ('helo', b'ehlo c%d.test', 'EHLO', None),
    'MAILlc': ('mail', b'mail from:<s%d@x.test>', 'MAIL', None),
    'RCPTlc': ('rcpt', b'rcpt to:<r%d@x.test>', 'RCPT', None),
    'MAILsp': ('mailp', b'MAIL FROM: <s%d@x.test>', 'MAIL', None),
    'MAILquoted': ('mail', b'MAIL FROM:<"a>b"@x.test>', 'MAIL', None),
    'MAILparams': ('mail', b'MAIL FROM:<s%d@x.test> BODY=8BITMIME SMTPUTF8', 'MAIL', None),
    'MAILnoclose': ('bad', b'MAIL FROM:<s%d@x.test', None, None),
    'MAILquote': ('bad', b'MAIL FROM:<"s%d@x.test>', None, None),
    'RCPTnoclose': ('bad', b'RCPT TO:<r%d@x.test', None, None),
    'AUTHjunk': ('bad', b'AUTH PLAIN ' + base64.b64encode(b'no-separators'), None, []),
    # a command the application added to its handler object (Server._command_custom): verdicts of every class
    'XCMD': ('free', b'XCMD arg%d', 'XCMD', None),
    'CLOSE': ('bad', b'CLOSE', None, None),
    'TLSHANDSHAKE': ('bad', b'TLSHANDSHAKE', None, None),
    'BANNER_': ('bad', b'BANNER_', None, None),
    'HAVE_DATA': ('bad', b'HAVE_DATA x', None, None),
}
# the argument the callback must receive, where it is not the default of the kind
ARGS = {'MAILnull': '', 'MAILnullsize': '', 'RCPTpm': 'postmaster', 'RCPTnull': '', 'EHLOlit': '[127.0.0.1]',
        'MAILlong': 'a' * LONG + '@x.test', 'MAILquoted': '"a>b"@x.test'}
AUTH_BASES = ('AUTH', 'AUTHchal', 'AUTHlogin', 'AUTHempty', 'AUTHcancel', 'AUTHbadb64', 'AUTHmech', 'AUTHbare', 'AUTHjunk')
V4 = ('ok', '450', '550', '421')


EXTRA_BASES = ('UNKnum', 'UNKlong', 'NOOPlong', 'MAILlong', 'NOOPlf', 'EHLO8bit', 'RCPT8bit', 'EHLOlc', 'MAILlc', 'RCPTlc',
               'MAILsp', 'MAILquoted', 'MAILparams', 'MAILnoclose', 'MAILquote', 'RCPTnoclose', 'AUTHjunk')


def build_alphabet():
    a = []
    for b in ('EHLO', 'HELO', 'MAIL', 'RCPT', 'RSET', 'NOOP', 'QUIT', 'STARTTLS', 'AUTH'):
        a += [b if v == 'ok' else b + '/' + v for v in V4]
    a += ['XCMD']
    a += ['AUTHchal', 'AUTHchal/550', 'AUTHlogin', 'AUTHempty', 'MAILsize', 'MAILsize/550', 'MAIL/221']
    a += ['MAILnull' if v == 'ok' else 'MAILnull/' + v for v in V4]
    a += ['MAILnullsize', 'MAILnullsize/550', 'RCPTpm', 'RCPTnull', 'RCPTnull/550', 'EHLOlit']
    a += ['DATA/450', 'DATA/550', 'DATA/421', 'DATA', 'DATA/ok/450', 'DATA/ok/550', 'DATA/ok/421', 'DATA/ok/221',
          'DATAempty', 'DATAempty/ok/550', 'DATAbig', 'DATAbig/ok/421']
    a += [b for b in BASES if BASES[b][0] == 'bad' and b not in EXTRA_BASES]
    return a


ALPHABET = build_alphabet()
# Not part of the bounded-depth enumeration (they end the session or are variants of symbols that are), but tried from
# every abstract state by the BFS, used by the random walks and by the pipelined strata: the handler / validator
# raises, 221 chosen by more callbacks, custom-command verdicts of every reply class.
EXTRA = (['%s/raise' % b for b in ('EHLO', 'HELO', 'MAIL', 'RCPT', 'DATA', 'RSET', 'NOOP', 'QUIT', 'STARTTLS', 'AUTH')]
         + ['DATA/ok/raise', 'DATA/ok/qfail', 'EHLO/221', 'RCPT/221', 'DATA/221', 'RSET/221', 'RCPT/451', 'MAIL/554']
         + ['XCMD/' + v for v in ('450', '550', '421', '221', '354', 'asis', 'raise')] + list(EXTRA_BASES))
# the session-ending variants of a command (pipelined strata: a closing verdict at every command position)
CLOSERS = {'EHLO': ['EHLO/421', 'EHLO/221', 'EHLO/raise', 'EHLO8bit'], 'HELO': ['HELO/421', 'HELO/raise'],
           'MAIL': ['MAIL/421', 'MAIL/221', 'MAIL/raise', 'MAIL8bit'],
           'RCPT': ['RCPT/421', 'RCPT/221', 'RCPT/raise', 'RCPT8bit'],
           'DATA': ['DATA/421', 'DATA/221', 'DATA/raise', 'DATA/ok/421', 'DATA/ok/221', 'DATA/ok/raise'],
           'RSET': ['RSET/421', 'RSET/221', 'RSET/raise'], 'NOOP': ['NOOP/421', 'NOOP/raise', 'QUIT'],
           'QUIT': ['QUIT', 'QUIT/421', 'QUIT/raise'], 'XCMD': ['XCMD/421', 'XCMD/221', 'XCMD/raise'],
           'STARTTLS': ['STARTTLS/421', 'STARTTLS/raise'], 'AUTH': ['AUTH/421', 'AUTH/raise', 'AUTHchal/421']}
# ... and the verdicts that must NOT end it (contrast)
NONCLOSERS = {'EHLO': ['EHLO/550'], 'MAIL': ['MAIL/450', 'MAIL/550'], 'RCPT': ['RCPT/450', 'RCPT/550'],
              'DATA': ['DATA/550', 'DATA/ok/550', 'DATA/ok/qfail', 'DATAbig', 'DATAempty'], 'RSET': ['RSET/550'], 'NOOP': ['UNK', 'EMPTY'],
              'QUIT': ['QUIT/450', 'QUITarg'], 'XCMD': ['XCMD/550', 'XCMD/asis', 'XCMD/354'], 'AUTH': ['AUTH/550']}
# a callback fails with each of the exception types the server has an except-clause for
RAISE_CALLBACKS = ('EHLO', 'HELO', 'MAIL', 'RCPT', 'DATA', 'DATA/ok', 'RSET', 'NOOP', 'QUIT', 'STARTTLS', 'AUTH', 'XCMD')
RAISES_ALL = ['%s/raise:%s' % (c, t) for c in RAISE_CALLBACKS for t in sorted(EXC_TYPES)]
RAISES_CORE = (['%s/raise:UnicodeDecodeError' % c for c in RAISE_CALLBACKS]
               + ['%s/raise:%s' % (c, t) for c in ('MAIL', 'DATA/ok') for t in sorted(EXC_TYPES) if t != 'UnicodeDecodeError'])
RAISE_FOLLOW = ['DATA', 'RCPT', 'DATA', 'MAIL', 'RCPT', 'RSET', 'RCPT', 'DATA', 'QUIT']
SYNC_PREFIXES = ('DATA', 'AUTH', 'STARTTLS')      # a pipelining client waits for the reply to these before it sends more
# reduced alphabet for the depth-3 enumeration of the thorough tier
ALPHA3 = ['EHLO', 'EHLO/550', 'HELO', 'MAIL', 'MAIL/550', 'MAIL/421', 'MAILnull', 'MAILnull/550', 'MAILnobr', 'MAILsize',
          'RCPT', 'RCPT/450', 'RCPTnull',
          'RCPT/550', 'RCPTnobr', 'DATA', 'DATA/550', 'DATA/ok/550', 'DATA/ok/421', 'DATAempty', 'DATAbig', 'DATAarg',
          'RSET', 'RSET/550', 'RSETarg', 'NOOP', 'QUIT', 'QUIT/450', 'STARTTLS', 'AUTH', 'AUTH/550', 'AUTHchal', 'UNK',
          'EMPTY']
WALK_WEIGHTS = {'EHLO': 6, 'HELO': 2, 'MAIL': 8, 'RCPT': 8, 'DATA': 6, 'RSET': 3, 'DATAempty': 2, 'DATAbig': 2,
                'STARTTLS': 3, 'AUTH': 3, 'AUTHchal': 2, 'MAILsize': 2, 'MAILnull': 5, 'MAILnullsize': 2, 'RCPTpm': 2,
                'RCPTnull': 2, 'EHLOlit': 2}


class Unit(object):
    __slots__ = ('sym', 'base', 'kind', 'line', 'own', 'cont', 'v1', 'v2', 'arg', 'idx', 'sync')

    def __init__(self, sym, idx):
        p = sym.split('/')
        self.sym, self.base, self.idx = sym, p[0], idx
        self.v1 = p[1] if len(p) > 1 else 'ok'
        self.v2 = p[2] if len(p) > 2 else 'ok'
        self.kind, tmpl, self.own, self.cont = BASES[self.base]
        self.line = (tmpl % idx if b'%d' in tmpl else tmpl)
        if not self.line.endswith(b'\n'):
            self.line += b'\r\n'
        self.sync = self.base.startswith(SYNC_PREFIXES)
        if self.base in ARGS:
            self.arg = ARGS[self.base]
        else:
            self.arg = {'helo': 'c%d.test', 'mail': 's%d@x.test', 'mailp': 's%d@x.test',
                        'rcpt': 'r%d@x.test'}.get(self.kind, '%d') % idx


# ---------------------------------------------------------------- independent reply splitter

_reply_line = re.compile(br'^(\d\d\d)([ -])(.*)$', re.S)


def split_replies(raw):
    """-> ([(code, text)], [junk]) using nothing from slimta."""
    replies, junk, cur = [], [], None
    parts = raw.split(b'\r\n')
    tail = parts.pop()
    for ln in parts:
        m = _reply_line.match(ln)
        if not m:
            junk.append(ln)
            continue
        code = m.group(1).decode('ascii')
        if cur is None:
            cur = [code, []]
        elif cur[0] != code:
            junk.append(ln)
        cur[1].append(m.group(3))
        if m.group(2) == b' ':
            replies.append((cur[0], b'\n'.join(cur[1]).decode('latin-1')))
            cur = None
    if cur is not None:
        junk.append(b'<unterminated multi-line reply>')
    if tail:
        junk.append(tail)
    return replies, junk


def and3(*vals):
    if any(v is False for v in vals):
        return False
    if any(v is None for v in vals):
        return None
    return True


def not3(v):
    return None if v is None else (not v)


# ---------------------------------------------------------------- one monitored session

PROTO_CBS = ('EHLO', 'HELO', 'MAIL', 'RCPT', 'DATA', 'HAVE_DATA', 'RSET', 'NOOP', 'QUIT', 'AUTH', 'STARTTLS', 'XCMD',
             'BANNER_')      # BANNER_ belongs to the greeting only: from a command line it is a foreign callback


class Run(object):
    """Driver + log + spec automaton + online checker for one session."""

    def __init__(self, ext, kind, banner, syms, framing=1):
        self.ext, self.kind, self.banner = ext, kind, banner
        self.units = [Unit(s, i + 1) for i, s in enumerate(syms)]
        self.framing = framing    # lines per segment: 1 = stop-and-wait, n >= 2 = n-line groups, 0 = one burst
        self.srv = None
        self.session = None
        self.delivered = lambda: self.fed_total      # set by the wire: bytes the server's reads have returned so far
        # log since the previous recv boundary
        self.out, self.cbs, self.events = [], [], []
        self.total_out = 0
        self.stream = []          # every byte written to the client, whole session
        self.gate = None          # concurrent stratum: the session runs only when the feeder gives it a turn
        # driver: the group of (unit index, stage) slots in flight, the stream offset at which each one ends
        self.group, self.ends, self.fed_total, self.next_pos, self.ngroups = [], [], 0, 0, 0
        self.multi = False        # the group being judged holds more than one line
        self.gi, self.glast, self.final, self.how, self.taken = 0, True, False, None, 0
        self.pos = -1             # index of the current unit; -1 = banner phase
        self.stage = 0
        self.cur = None
        self.fed_eof = False
        self.steps = []
        self.exit = None
        # spec automaton (from the statement)
        self.greeted = False
        self.helo = False         # True / False / None (unknown after STARTTLS)
        self.mail = False         # True / False / None
        self.sender = None
        self.rcpts = []
        self.certain = True       # sender/recipient lists are exactly known
        self.authed = False
        self.tls = False
        self.ended = None         # close code seen
        self.ended_by = None
        self.why = 'initial'      # why there is no open transaction
        # verdict bookkeeping
        self.viol = []
        self._state_before, self._spec_before, self._stage_cb = 'connect', None, False
        self.states = []          # abstract state after the banner and after every finished unit
        self.hits = collections.Counter()
        self.nt_open = False
        self.rejected = set()     # kinds of commands that were refused so far
        self.nt_dep = False
        self.commands = 0
        self.observations = collections.Counter()

    # ---- which line of the group in flight is the server working on?
    def locate(self):
        """Index of the slot whose bytes the server consumed last.  With one line in flight this is trivially 0;
        in a pipelined group it is read off the server's line buffer (read-only): the bytes its reads have returned
        so far minus what is still waiting in Server.io.recv_buffer is the stream offset the server has got to."""
        if len(self.group) <= 1 or self.srv is None:
            return 0
        consumed = self.delivered() - len(self.srv.io.recv_buffer)
        for i, e in enumerate(self.ends):
            if consumed <= e:
                return i
        return len(self.group) - 1

    def current(self):
        if not self.group:
            return None
        return self.units[self.group[self.locate()][0]]

    # ---- called by handlers / sockets
    def verdict(self, name):
        u = self.current()
        if u is None:
            return self.banner if name == 'BANNER_' and self.pos == -1 else 'ok'
        if name == 'HAVE_DATA':
            return u.v2 if u.kind == 'data' else 'ok'
        return u.v1 if name == u.own else 'ok'

    def apply(self, name, reply):
        v = self.verdict(name)
        if v == 'raise':
            raise HandlerBoom('scripted failure of the %s callback' % name)
        if v.startswith('raise:'):
            raise EXC_TYPES[v[6:]]()
        if name == 'XCMD':
            if v == 'ok':
                reply.code, reply.message = '250', '2.0.0 custom command done'
            elif v != 'asis':
                reply.code, reply.message = VTEXT[v]
        elif v != 'ok' and reply is not None:
            reply.code, reply.message = VTEXT[v]

    def cb(self, name, arg, reply, exc=None):
        self.cbs.append((name, arg, getattr(reply, 'code', None), type(exc).__name__ if exc else None, self.locate()))

    def sent(self, data):
        self.out.append(data)
        self.stream.append(data)
        self.total_out += len(data)

    def event(self, name, detail=None):
        self.events.append((name, detail, self.locate()))

    def handoff(self, envelope):
        self.events.append(('HANDOFF', (envelope.sender, list(envelope.recipients)), self.locate()))
        if self.verdict('HAVE_DATA') == 'qfail':
            return [(envelope, QueueError('scripted'))]      # the queue refused the message: the edge answers 451
        return [(envelope, 'id-%d' % len(self.steps))]

    # ---- violations
    def state_class(self):
        if not self.greeted:
            s = 'pre-greeting'
        elif self.helo is not True:
            s = 'pre-helo' if self.helo is False else 'helo-unknown-after-starttls'
        elif self.mail is None:
            s = 'txn-unknown-after-starttls'
        elif not self.mail:
            s = 'no-txn-after-' + self.why
        else:
            s = 'mail-open' if not self.rcpts else 'rcpt-open'
        return s

    def violate(self, clause, what, with_state=True, tag=None, **detail):
        u = self.cur
        parts = [clause, tag or (VERB_LABEL.get(u.base, u.base) if u is not None else 'BANNER_')]
        if u is not None and tag is None:
            # the scripted verdict is part of the class only if a callback actually ran (and could apply it)
            parts.append('verdict-' + (u.v2 if (u.kind == 'data' and self.stage >= 1) else u.v1)
                         if self._stage_cb else 'no-callback')
        if with_state:
            parts.append(self._state_before)
        if self.multi:
            # seen while several complete lines were delivered in one segment (a framing-independent defect also
            # shows under its plain name in the stop-and-wait strata)
            parts.append('in-pipelined-group')
        detail.update({'unit_index': self.pos, 'unit': u.sym if u is not None else None, 'stage': self.stage,
                       'spec_state_before_unit': self._spec_before, 'framing': self.framing,
                       'group': [self.units[i].sym + ('' if not st else ':stage%d' % st) for i, st in self.group]})
        self.viol.append(('/'.join(parts), what, detail))

    # ---- the recv boundary
    def boundary(self):
        """The server asks for input and nothing is pending.  Judge what happened since the previous boundary,
        then return the bytes of the next group of lines, or None for end-of-stream."""
        if self.fed_eof:
            return None
        more = self.close_group()
        if self.ended is not None:
            # (iv) the group just judged ended with a 221/421 reply -- and the server is reading again
            self.violate('session-continues-after-%s' % self.ended, 'the server called recv() again after sending '
                         'the final reply %s (%s): the session was not ended' % (self.ended, self.ended_by),
                         with_state=False, tag=self.ended_by)
            self.fed_eof = True
            return None
        return self.next_group(more)

    def next_group(self, more):
        """What the client sends next, in ONE segment: the continuation of the unit answered last (message content
        after 354, an AUTH response after 334) and then further command lines -- none (stop-and-wait), up to
        `framing` slots, or (burst) everything up to the next line a pipelining client has to wait at
        (DATA, AUTH, STARTTLS: Unit.sync)."""
        slots, data, ends = [], b'', []
        limit = self.framing if self.framing else 10 ** 9
        if more is not None:
            slots.append((self.pos, self.stage))
            data += more
            ends.append(len(data))
            if self.units[self.pos].base in AUTH_BASES:
                limit = 1                  # a SASL exchange is never pipelined
        while len(slots) < limit and self.next_pos < len(self.units) and self.ended is None:
            u = self.units[self.next_pos]
            slots.append((self.next_pos, 0))
            self.next_pos += 1
            data += u.line
            ends.append(len(data))
            if u.sync:
                break
        if not slots:
            self.group, self.ends, self.cur = [], [], None
            self.fed_eof = True
            return None
        self.group = slots
        self.ends = [self.fed_total + e for e in ends]
        self.fed_total += len(data)
        self.ngroups += 1
        # while the group is in flight "the current unit" of the wire hooks is its last line (sync lines are last)
        self.pos, self.stage = slots[-1]
        self.cur = self.units[self.pos]
        return data

    def _snapshot_before(self):
        self._state_before = self.state_class()
        self._spec_before = self.spec_tuple()

    def spec_tuple(self):
        return (self.greeted, self.helo, self.mail, min(len(self.rcpts), 2), self.authed, self.tls, self.ended,
                self.mail is True and self.sender == '')

    def finish(self, how):
        """handle() has exited."""
        self.exit = self.how = how
        if not self.fed_eof:
            # the server stopped on its own: judge the last group
            self.close_group(final=True)
            if self.ended is None:
                self.observations['session-ended-by-server-without-221/421:' + how] += 1
        elif self.out or self.cbs:
            # something happened after end-of-stream was signalled (or after the read that followed a close code)
            reps, _ = split_replies(b''.join(self.out))
            names = [c[0] for c in self.cbs if c[0] in PROTO_CBS]
            if self.ended is not None and (reps or names):
                self.violate('output-after-close', 'after the closing reply %s and one more read the server still '
                             'produced replies %s / callbacks %s' % (self.ended, [r[0] for r in reps], names),
                             with_state=False, tag=self.ended_by)
            elif reps or names:
                self.observations['output-after-eof'] += 1
        if self.ended is not None:
            self.hits['close-code-oracle'] += 1

    # ---- judging one group of lines = everything between two recv boundaries
    def taken_upto(self, cbs):
        """handle() exited by itself: the last slot of the group the server demonstrably took (a callback ran for
        it, or its bytes left the server's line buffer)."""
        p = max([c[4] for c in cbs] or [-1])
        consumed = self.delivered() - len(self.srv.io.recv_buffer)
        for i, e in enumerate(self.ends):
            if e <= consumed:
                p = max(p, i)
        return p

    def close_group(self, final=False):
        """Judge the replies the client received and the callbacks that ran since the group was sent.  The client
        sees ONE ordered reply stream: the i-th final reply answers the i-th line of the group (a group holds an
        intermediate-reply command only as its last line), so every slot is owed exactly one reply; the last slot
        takes whatever is left (more than one = too many).  After a slot whose reply is 221/421 nothing more may
        arrive and no later line may reach a callback.  If handle() exited by itself (final), only the lines the
        server demonstrably took are owed a reply -- and those replies must have reached the client."""
        raw = b''.join(self.out)
        cbs, events = self.cbs, self.events
        self.out, self.cbs, self.events = [], [], []
        replies, junk = split_replies(raw)
        if b'' in junk:
            # the library's time-out reply is deliberately preceded by an empty line (Reply.newline_first): not a reply,
            # not garbage either
            self.observations['empty-line-before-reply'] += junk.count(b'')
            junk = [j for j in junk if j != b'']
        self.final = final
        if self.pos == -1:
            self.multi = False
            codes = [r[0] for r in replies]
            names = [c[0] for c in cbs if c[0] in PROTO_CBS and c[0] != 'BANNER_']
            self._stage_cb = bool(names)
            self.steps.append({'unit': '<banner>', 'line': None, 'stage': 0, 'replies': codes, 'group': 0,
                               'callbacks': [(c[0], c[1], c[2]) + ((c[3],) if c[3] else ()) for c in cbs],
                               'events': [e[0] for e in events]})
            if junk:
                self.violate('malformed-reply-bytes', 'bytes written to the client are not well-formed reply lines: '
                             '%r' % junk[:3], raw=raw)
            self.hits['reply-count-oracle'] += 1
            if any(c[3] for c in cbs):
                self.hits['handler-exception-oracle'] += 1
            self.judge_banner(codes, cbs, names, final)
            return None
        group = self.group
        n = len(group)
        if not n:
            return None
        self.multi = n > 1
        if self.multi:
            self.hits['pipelined-reply-stream-oracle'] += 1
        taken = self.taken = self.taken_upto(cbs) if final else n - 1
        if junk:
            self.pos, self.stage = group[0]
            self.cur = self.units[self.pos]
            self.violate('malformed-reply-bytes', 'bytes written to the client are not well-formed reply lines: %r'
                         % junk[:3], raw=raw)
        left = list(replies)
        more = None
        for gi, (idx, stage) in enumerate(group):
            u = self.units[idx]
            self.pos, self.cur, self.stage, self.gi, self.glast = idx, u, stage, gi, gi == n - 1
            later = [c[0] for c in cbs if c[4] >= gi and c[0] in PROTO_CBS]
            if self.ended is not None:
                # a line behind the closing reply, in the same segment
                if left or later:
                    self.violate('session-continues-after-%s' % self.ended, 'after the closing reply %s (%s) the server '
                                 'went on with the lines already buffered: replies %s, callbacks %s'
                                 % (self.ended, self.ended_by, [r[0] for r in left], later),
                                 with_state=False, tag=self.ended_by)
                else:
                    self.hits['pipelined-close-mid-group'] += 1
                    self.observations['pipelined-close-with-lines-behind:%s-%s' % (self.ended_by, self.ended)] += 1
                break
            if final and gi > taken and not left and gi > 0:
                # the server left (exception / connection dropped) at an earlier line of the segment without taking
                # this one: like a line the stop-and-wait client never got to send
                self.observations['lines-never-taken-after-server-exit:' + self.how] += 1
                break
            if stage == 0:
                self.commands += 1
                self._snapshot_before()
            if final and self.multi and not left and any(c[3] in SIGNAL_EXC for c in cbs if c[4] == gi):
                self.judge_slot(u, [], [c for c in cbs if c[4] == gi], [e for e in events if e[2] == gi])
                break
            if final and self.multi and not left:
                # taken by the server (gi <= taken), handle() is gone, and the reply never reached the client
                lastu = self.units[group[taken][0]]
                self._stage_cb = False
                self.violate('replies-never-reached-client', 'handle() exited (%s) after taking %d line(s) of the '
                             'segment (callbacks %s), but the client received only %d of the replies: the reply to %s '
                             'and everything after it was lost'
                             % (self.how, taken + 1, [c[0] for c in cbs], len(replies), u.sym), with_state=False,
                             tag='handle-' + self.how.replace('exception:', 'raised-'), last_line_taken=lastu.sym,
                             exit=self.how, replies_received=[r[0] for r in replies])
                break
            mine = left if self.glast else left[:1]
            left = left[len(mine):]
            r = self.judge_slot(u, mine, [c for c in cbs if c[4] == gi], [e for e in events if e[2] == gi])
            if self.glast:
                more = r
        return more

    def judge_slot(self, u, replies, cbs, events):
        codes = [r[0] for r in replies]
        names = [c[0] for c in cbs if c[0] in PROTO_CBS]
        self._stage_cb = bool(names)
        self.steps.append({'unit': u.sym, 'line': u.line if self.stage == 0 else None, 'stage': self.stage,
                           'replies': codes, 'group': self.ngroups,
                           'callbacks': [(c[0], c[1], c[2]) + ((c[3],) if c[3] else ()) for c in cbs],
                           'events': [e[0] for e in events]})
        self.hits['reply-count-oracle'] += 1
        if any(c[3] for c in cbs):
            self.hits['handler-exception-oracle'] += 1
        hand = [e for e in events if e[0] == 'HANDOFF']
        if hand and not (u.kind == 'data' and self.stage == 1):
            self.violate('handoff-outside-content', 'an envelope was handed off while answering %s' % u.sym,
                         envelope=hand[0][1])
        if not codes and any(c[3] in SIGNAL_EXC for c in cbs):
            self.observations['callback-raised-server-signal-no-reply:' + [c[3] for c in cbs if c[3] in SIGNAL_EXC][0]] += 1
        elif len(codes) != 1:
            self.violate('reply-count-%s' % ('0' if not codes else 'gt1'),
                         '%d replies %s to one %s (exactly one expected)'
                         % (len(codes), codes, 'command line' if self.stage == 0 else 'continuation/content'),
                         replies=replies, callbacks=names)
        code = codes[-1] if codes else None
        for c in cbs:
            if c[0] in ('CLOSE', 'TLSHANDSHAKE') and u.base == c[0]:
                self.observations['client-verb-ran-lifecycle-callback:' + c[0]] += 1
        if u.kind == 'data' and self.stage == 1:
            return self.judge_content(u, code, cbs, names, hand)
        if u.base in AUTH_BASES and self.stage >= 1:
            return self.judge_auth_more(u, code, names)
        return self.judge_command(u, code, cbs, names, events)

    def judge_banner(self, codes, cbs, names, final):
        self._state_before, self._spec_before = 'connect', None
        if not codes and any(c[3] in SIGNAL_EXC for c in cbs):
            self.observations['callback-raised-server-signal-no-reply:' + [c[3] for c in cbs if c[3] in SIGNAL_EXC][0]] += 1
        elif len(codes) != 1:
            self.violate('reply-count-%s' % ('0' if not codes else 'gt1'), '%d greeting replies %s' % (len(codes), codes))
        if names:
            self.violate('foreign-callback', 'callbacks %s before any command' % names)
        code = codes[-1] if codes else None
        self.greeted = (code == '220')
        if code in CLOSE_CODES:
            self.ended, self.ended_by = code, 'BANNER_-reply'
        self.end_unit()
        return None

    def admissible(self, u):
        if u.kind == 'helo':
            return self.greeted
        if u.kind in ('mail', 'mailp'):
            return and3(self.greeted, self.helo, not3(self.mail))
        if u.kind in ('rcpt', 'rcptp'):
            return self.mail
        if u.kind == 'data':
            if self.mail is True and self.certain:
                return len(self.rcpts) >= 1
            return False if self.mail is False else None
        if u.kind == 'bad':
            return False
        return None       # free

    def judge_command(self, u, code, cbs, names, events):
        adm = self.admissible(u)
        own = u.own
        foreign = [n for n in names if n != own]
        if foreign:
            self.violate('foreign-callback', 'command %s invoked callback(s) %s' % (u.sym, foreign), callbacks=names)
        nown = names.count(own) if own else 0
        if u.kind != 'free':
            self.hits['order-oracle'] += 1
        if adm is False:
            if u.kind in ('rcpt', 'rcptp', 'data') and self.why != 'initial':
                self.hits['reset-oracle'] += 1
            if nown:
                clause = 'callback-out-of-order'
                if u.kind in ('rcpt', 'rcptp', 'data', 'mail', 'mailp') and self.greeted and self.helo is True and not self.mail \
                        and self.why not in ('initial', 'mail-rejected'):
                    clause = 'state-survives-' + self.why
                self.violate(clause, '%s callback invoked although the command is out of order (automaton: %s)'
                             % (own, self._state_before), callbacks=names, reply=code)
            elif code is not None and code[0] not in '45' and not (u.base in AUTH_BASES and code == '334'):
                self.violate('no-error-reply', '%s command %s answered %s instead of 4xx/5xx (automaton: %s)'
                             % ('malformed' if u.kind == 'bad' else 'out-of-order', u.sym, code, self._state_before),
                             reply=code)
        else:
            if nown > 1:
                self.violate('callback-twice', '%s callback invoked %d times for one command' % (own, nown))
            if adm is True and u.kind in ('helo', 'mail', 'rcpt', 'data') and nown == 0:
                self.violate('in-order-command-refused-without-callback', 'well-formed in-order %s was answered %s '
                             'without consulting the %s callback (automaton: %s)' % (u.sym, code, own, self._state_before),
                             reply=code)
            if nown == 1 and u.kind in ('helo', 'mail', 'mailp', 'rcpt', 'rcptp'):
                got = [c[1] for c in cbs if c[0] == own][0]
                if got != u.arg:
                    self.violate('callback-argument-mismatch', '%s callback got %r, the command carried %r'
                                 % (own, got, u.arg))
            if adm is None and nown == 1 and u.kind in ('mail', 'mailp') and self.helo is None:
                self.helo = True          # the server consulted MAIL: it regards EHLO/HELO as done (unknown resolved)
        # intermediate replies
        if u.kind == 'data' and code == '354':
            self.stage = 1
            return u.cont + EOD
        if u.base in AUTH_BASES and code == '334':
            self.hits['auth-334-exchange'] += 1
            self.stage = 1
            self._auth_left = list(u.cont)
            return (self._auth_left.pop(0) if self._auth_left else b'*') + b'\r\n'
        # final reply of the unit: advance the automaton from what was observed
        if code is not None and code[0] in '45':
            self.rejected.add(u.kind.replace('mailp', 'mail').replace('rcptp', 'rcpt') if u.kind != 'bad' else {'MAIL': 'mail', 'RCPT': 'rcpt', 'EHLO': 'helo',
                                                              'HELO': 'helo'}.get(u.base[:4], 'other'))
        dep = {'mail': 'helo', 'mailp': 'helo', 'rcpt': 'mail', 'rcptp': 'mail', 'data': 'rcpt'}.get(u.kind)
        if dep and (dep in self.rejected or (u.kind == 'data' and 'mail' in self.rejected)):
            self.nt_dep = True
        if u.kind == 'helo' and code == '250':
            self.helo = True
            self.reset(u.base.lower())
        elif u.kind in ('mail', 'mailp'):
            if code == '250' and nown:
                self.mail, self.sender, self.rcpts, self.certain = True, u.arg, [], True
                self.nt_open = True
            elif adm is True and code is not None and code[0] in '45':
                self.why = 'mail-rejected'
        elif u.kind in ('rcpt', 'rcptp') and code == '250' and nown:
            self.rcpts.append(u.arg)
        elif u.base == 'RSET' and code == '250':
            self.reset('rset')
        elif u.own == 'AUTH' and code == '235':
            self.authed = True
        elif u.base == 'STARTTLS' and code == '220':
            self.after_starttls(events)
        self.final_code(code, (own or u.base) + '-reply')
        return None

    def after_starttls(self, events):
        if any(e[0] == 'HANDSHAKE' for e in events):
            self.hits['tls-handshake-performed'] += 1
            self.tls = True
            self.helo = None
            if self.mail:
                self.mail, self.certain = None, False
        else:
            self.violate('starttls-220-without-handshake', 'STARTTLS was answered 220 but the server did not start a '
                         'TLS handshake')

    def judge_auth_more(self, u, code, names):
        foreign = [n for n in names if n != u.own]
        if foreign or names.count('AUTH') > 1:
            self.violate('foreign-callback', 'AUTH exchange invoked callback(s) %s' % names)
        if u.own is None and names:
            self.violate('callback-out-of-order', 'AUTH callback invoked for a malformed/cancelled exchange %s' % u.sym)
        if code == '334':
            self.stage += 1
            return (self._auth_left.pop(0) if self._auth_left else b'*') + b'\r\n'
        if u.own is None and code is not None and code[0] not in '45':
            self.violate('no-error-reply', 'malformed/cancelled AUTH exchange %s answered %s' % (u.sym, code))
        if code == '235':
            self.authed = True
        self.final_code(code, 'AUTH-reply')
        return None

    def judge_content(self, u, code, cbs, names, hand):
        self.hits['order-oracle'] += 1
        if names != ['HAVE_DATA']:
            self.violate('content-callbacks', 'message content produced callbacks %s (exactly one HAVE_DATA expected)'
                         % names)
        if self.kind == 'session':
            self.hits['handoff-envelope-oracle'] += 1
            if len(hand) > 1:
                self.violate('handoff-twice', 'one message handed off %d times' % len(hand))
            elif hand:
                got = hand[0][1]
                if self.certain and (got[0] != self.sender or got[1] != self.rcpts):
                    self.violate('handoff-envelope-mismatch', 'envelope handed off %r != (last accepted MAIL %r, '
                                 'recipients accepted since %r)' % (got, self.sender, self.rcpts), envelope=got)
            elif code == '250':
                self.violate('accepted-without-handoff', 'message content answered 250 but nothing was handed off')
        self.reset('message-completed' if code == '250' else 'message-rejected')
        self.final_code(code, 'HAVE_DATA-reply')
        return None

    def reset(self, why):
        self.mail, self.sender, self.rcpts, self.certain, self.why = False, None, [], True, why

    def final_code(self, code, by):
        if code in CLOSE_CODES:
            self.ended, self.ended_by = code, by
        self.end_unit()

    # ---- (vi) invariant at the hook + abstract state
    def impl_flags(self):
        s = self.srv
        feats = tuple(f for f in ('SIZE', 'STARTTLS', 'AUTH') if f in s.extensions)
        return (bool(s.bannered), bool(s.ehlo_as), bool(s.have_mailfrom), bool(s.have_rcptto), bool(s.authed),
                bool(s.encrypted), feats)

    def env_shape(self):
        if self.session is None:
            return None
        e = self.session.envelope
        return None if e is None else (e.sender is not None, e.sender == '', min(len(e.recipients), 2))

    def end_unit(self):
        if self.pos != -1 and not (self.glast or (self.final and self.gi == self.taken)):
            return       # mid-group: the implementation is already further on (its state is read at rest only)
        f = self.impl_flags()
        self.states.append((self.spec_tuple(), f, self.env_shape()))
        if self.ended is not None or (self.final and self.pos != -1):
            return       # the session is over (closing reply, or handle() has exited): nothing can observe its state any more
        self.hits['flags-invariant'] += 1
        bad = []
        if f[0] != self.greeted:
            bad.append(('bannered', self.srv.bannered, self.greeted))
        if self.helo is not None and f[1] != self.helo:
            bad.append(('ehlo_as', self.srv.ehlo_as, self.helo))
        if self.mail is not None:
            if f[2] != self.mail:
                bad.append(('have_mailfrom', self.srv.have_mailfrom, self.mail))
            if self.certain and f[3] != bool(self.rcpts):
                bad.append(('have_rcptto', self.srv.have_rcptto, bool(self.rcpts)))
        if f[4] != self.authed:
            bad.append(('authed', self.srv.authed, self.authed))
        if f[5] != self.tls:
            bad.append(('encrypted', self.srv.encrypted, self.tls))
        if self.session is not None and self.mail is not None and self.certain:
            e = self.session.envelope
            if (e is not None) != self.mail:
                bad.append(('SmtpSession.envelope', None if e is None else (e.sender, list(e.recipients)),
                            'open transaction' if self.mail else 'no transaction'))
            elif e is not None and (e.sender != self.sender or list(e.recipients) != self.rcpts):
                bad.append(('SmtpSession.envelope-content', (e.sender, list(e.recipients)), (self.sender, self.rcpts)))
        if bad:
            last = self.steps[-1]
            self.violate('flags-disagree:' + '+'.join(b[0] for b in bad),
                         'after %s (replies %s) implementation state disagrees with the automaton: %s'
                         % (last['unit'], last['replies'],
                            '; '.join('%s=%r, automaton says %r' % b for b in bad)),
                         tag='after-%s-%s' % (VERB_LABEL.get(self.cur.base, self.cur.base) if self.cur else 'BANNER_',
                                              (last['replies'] or ['none'])[-1]), with_state=False,
                         automaton_after=self.state_class())


# ---------------------------------------------------------------- handlers

class RecHandler(object):
    """The whole callback API as the current Server calls it; applies the scripted verdict, never raises."""

    def __init__(self, run):
        self.run = run

    def _do(self, name, reply, arg=None):
        try:
            self.run.apply(name, reply)
        except BaseException as e:
            self.run.cb(name, arg, reply, e)
            raise
        self.run.cb(name, arg, reply)

    def XCMD(self, reply, arg, server):
        self._do('XCMD', reply, arg.decode('latin-1') if arg is not None else None)

    def BANNER_(self, reply):
        self._do('BANNER_', reply)

    def EHLO(self, reply, ehlo_as):
        self._do('EHLO', reply, ehlo_as)

    def HELO(self, reply, helo_as):
        self._do('HELO', reply, helo_as)

    def MAIL(self, reply, address, params):
        self._do('MAIL', reply, address)

    def RCPT(self, reply, address, params):
        self._do('RCPT', reply, address)

    def DATA(self, reply):
        self._do('DATA', reply)

    def HAVE_DATA(self, reply, data, err):
        if err is not None:
            reply.code, reply.message = '552', '5.3.4 Message exceeded size limit'
            self.run.cb('HAVE_DATA', type(err).__name__, reply)
            return
        self._do('HAVE_DATA', reply, len(data) if data is not None else None)

    def RSET(self, reply):
        self._do('RSET', reply)

    def NOOP(self, reply):
        self._do('NOOP', reply)

    def QUIT(self, reply):
        self._do('QUIT', reply)

    def AUTH(self, reply, creds):
        self._do('AUTH', reply, getattr(creds, 'authcid', None))

    def STARTTLS(self, reply, extensions):
        self._do('STARTTLS', reply)

    def TLSHANDSHAKE(self):
        self.run.cb('TLSHANDSHAKE', None, None)

    def CLOSE(self):
        self.run.cb('CLOSE', None, None)


class _NoPtrLookup(object):
    def __init__(self, ip):
        pass

    def start(self):
        pass

    def finish(self, runtime=None):
        return None


edge_smtp.PtrLookup = _NoPtrLookup      # no resolver threads / DNS in the sandbox (see ASSUMPTIONS)


def _logged(name):
    base = getattr(SmtpSessionX, name)

    def method(self, *args):
        exc = None
        try:
            return base(self, *args)
        except BaseException as e:
            exc = e
            raise
        finally:
            reply = args[0] if args and hasattr(args[0], 'code') else None
            arg = args[1] if len(args) > 1 and isinstance(args[1], str) else None
            if name == 'XCMD' and len(args) > 1 and isinstance(args[1], bytes):
                arg = args[1].decode('latin-1')
            self._c07.cb(name, arg, reply, exc)
    method.__name__ = name
    return method


# The real SmtpSession (plus one application-defined command); every upper-case method the Server can call is logged
# after it ran.
def _session_xcmd(self, reply, arg, server):
    # an application's session_class adding its own command
    self._c07.apply('XCMD', reply)


SmtpSessionX = type('SmtpSessionX', (SmtpSession,), {'XCMD': _session_xcmd})


class LoggedSession(SmtpSessionX):
    _c07 = None


for _n in dir(SmtpSessionX):
    if _n.isupper() and not _n.startswith('_') and callable(getattr(SmtpSessionX, _n)):
        setattr(LoggedSession, _n, _logged(_n))


# ---------------------------------------------------------------- verbs spelled after internal names

REAL_VERBS = {'EHLO': b' c%d.test', 'HELO': b' c%d.test', 'MAIL': b' FROM:<s%d@x.test>', 'RCPT': b' TO:<r%d@x.test>', 'DATA': b'',
              'RSET': b'', 'NOOP': b'', 'QUIT': b'', 'STARTTLS': b'', 'AUTH': b' PLAIN ' + _PLAIN, 'XCMD': b' arg%d'}


def internal_names():
    """Every name the server's dispatch-by-name can resolve: Server._command_* and the public callables of the handler
    objects (collected by introspection, so a callback added later is included)."""
    names = set(n[len('_command_'):] for n in dir(Server) if n.startswith('_command_'))
    for cls in (SmtpSession, SmtpSessionX, RecHandler):
        names |= set(n for n in dir(cls) if not n.startswith('_') and callable(getattr(cls, n, None)))
    return sorted(names)


def _mixed(t):
    return ''.join(c.lower() if i % 2 else c.upper() for i, c in enumerate(t))


def verb_spellings():
    """-> (all, core): wire spellings that are NOT a command of the protocol but resemble an internal name: '_' written as
    '-', '_' or '.', a trailing '-' / '_', lower and mixed case; real verbs with a trailing or embedded '-' / '_';
    a few punctuation-bearing unknown verbs.  All of them are 'bad' units: one error reply, no callback."""
    allv, core, label = [], [], [None]

    def add(text, arg, is_core=False):
        key = 'V<%s%s>' % (text, '+arg' if arg else '')
        if key in BASES or not text or text.isalpha():
            return
        BASES[key] = ('bad', text.encode('ascii') + arg, None, None)
        VERB_LABEL[key] = label[0]
        allv.append(key)
        if is_core:
            core.append(key)
    for name in internal_names():
        label[0] = 'verb-spelled-like-' + name
        if name in REAL_VERBS:
            arg = REAL_VERBS[name]
            for i, t in enumerate((name + '-', name + '_', name[:2] + '-' + name[2:], name.lower() + '-')):
                add(t, arg, is_core=(i == 0 and name in ('MAIL', 'EHLO', 'DATA', 'QUIT', 'XCMD')))
            continue
        parts = name.rstrip('_').split('_')
        for sep in '-_.':
            t = sep.join(parts) + (sep if name.endswith('_') else '')
            for j, form in enumerate((t.upper(), t.lower(), _mixed(t))):
                add(form, b' x', is_core=(sep == '-' and j == 0) or (sep == '-' and j == 1 and '_' in name.rstrip('_')))
                if j == 0:
                    add(form, b'', is_core=(sep == '-' and '_' in name))
        if not name.endswith('_'):
            add(name.upper() + '-', b' x', is_core=name.isalpha() and name.isupper())
            add(name.upper() + '_', b' x')
        if not name.isalpha():
            add(name, b' x')                 # digits / underscore exactly as in the source
    label[0] = 'punctuated-unknown-verb'
    for t in ('X-FOO', 'X_FOO', 'FOO.BAR', 'X-FOO-BAR', 'x-foo', '-FOO', 'FOO-'):
        add(t, b' bar', is_core=t in ('X-FOO', 'X_FOO', 'FOO.BAR'))
        add(t, b'')
    return allv, core


VERBS_ALL, VERBS_CORE = verb_spellings()


def make_validators(run):
    class Validators(SmtpValidators):
        def handle_banner(self, reply, address):
            run.apply('BANNER_', reply)

        def handle_ehlo(self, reply, ehlo_as):
            run.apply('EHLO', reply)

        def handle_helo(self, reply, helo_as):
            run.apply('HELO', reply)

        def handle_auth(self, reply, creds):
            run.apply('AUTH', reply)

        def handle_mail(self, reply, sender, params):
            run.apply('MAIL', reply)

        def handle_rcpt(self, reply, recipient, params):
            run.apply('RCPT', reply)

        def handle_data(self, reply):
            run.apply('DATA', reply)

        def handle_have_data(self, reply, data):
            if run.verdict('HAVE_DATA') != 'qfail':       # 'qfail' is delivered by the hand-off, not by the validator
                run.apply('HAVE_DATA', reply)

        def handle_rset(self, reply):
            run.apply('RSET', reply)

        def handle_queued(self, reply, results):
            pass

        def handle_tls(self):
            pass
    return Validators


# ---------------------------------------------------------------- wires

class _HookedSSL(gssl.SSLSocket):
    """gevent SSLSocket whose recv/sendall report to the harness (class swapped in after the handshake)."""

    def recv(self, *a, **k):
        self._c07.before_recv()
        d = gssl.SSLSocket.recv(self, *a, **k)
        self._c07.got += len(d)
        return d

    def sendall(self, data, *a, **k):
        self._c07.run.sent(bytes(data))
        return gssl.SSLSocket.sendall(self, data, *a, **k)


class _PlainEnd(object):
    """Server end of the socketpair before TLS: delegates to the real socket, reports recv/sendall."""

    def __init__(self, real, wire):
        self.real, self.wire = real, wire

    def recv(self, n, *flags):
        self.wire.before_recv()
        d = self.real.recv(n)
        self.wire.got += len(d)
        return d

    def sendall(self, data, *flags):
        self.wire.run.sent(bytes(data))
        return self.real.sendall(data)

    def send(self, data, *flags):
        self.sendall(data)
        return len(data)

    def __getattr__(self, name):
        return getattr(self.real, name)


class _CtxProxy(object):
    """Given to Server as ``context``: performs the real server-side handshake on the real socket while the
    harness's client performs the real client-side handshake -- iff the client saw 220 to STARTTLS."""

    def __init__(self, wire):
        self.wire = wire

    def __getattr__(self, name):
        return getattr(self.wire.sctx, name)

    def wrap_socket(self, sock, server_side=False, **kw):
        w = self.wire
        run = w.run
        codes = [r[0] for r in split_replies(b''.join(run.out))[0]]
        if not (run.cur is not None and run.cur.base == 'STARTTLS' and codes and codes[-1] == '220') \
                or not isinstance(sock, _PlainEnd):
            run.event('HANDSHAKE-UNEXPECTED')
            run.violate('tls-handshake-without-220', 'the server started a TLS handshake although the client was not '
                        'told 220 (replies since the last read: %s)' % codes)
            raise gssl.SSLError('client did not start a handshake')
        w.drain()        # a real client has read the plaintext 220 before it starts the handshake
        g = gevent.spawn(w.cctx.wrap_socket, w.b, server_hostname='verif.test')
        try:
            ss = w.sctx.wrap_socket(sock.real, server_side=True)
        except BaseException:
            g.kill()
            raise
        g.join(20)
        if g.value is None:
            w.broken = 'client handshake did not finish'
            raise gssl.SSLError('client handshake did not finish')
        w.client = g.value
        ss.__class__ = _HookedSSL
        ss._c07 = w
        w.server_ssl = ss
        run.event('HANDSHAKE')
        return ss


class PairWire(object):
    _ctx = {}

    def __init__(self, run):
        self.run = run
        if not PairWire._ctx:
            PairWire._ctx['s'] = vtls.server_context()
            PairWire._ctx['c'] = vtls.client_context()
        self.sctx, self.cctx = PairWire._ctx['s'], PairWire._ctx['c']
        self.a, self.b = gsocket.socketpair()
        self.client = self.b
        self.server_ssl = None
        self.broken = None
        self.sock = _PlainEnd(self.a, self)
        self.context = _CtxProxy(self)
        self.client_seen = []
        self.put = self.got = 0       # plaintext bytes the client sent / the server's reads returned
        run.delivered = lambda: self.got

    def drain(self):
        """The client reads whatever the server has written so far (never blocks)."""
        c = self.client
        try:
            c.settimeout(0.0)
            while True:
                d = c.recv(65536)
                if not d:
                    break
                self.client_seen.append(d)
        except (BlockingIOError, gssl.SSLWantReadError, gsocket.timeout, gssl.SSLError, OSError):
            pass
        try:
            c.settimeout(None)
        except OSError:
            pass

    def before_recv(self):
        if self.got < self.put:
            return       # not a boundary: the server has not yet read everything the client sent (segment > one read)
        self.drain()
        if self.run.gate is not None:
            self.run.gate.wait_turn()
        data = self.run.boundary()
        if data is None:
            self.close_client()
        else:
            self.put += len(data)
            self.client.sendall(data)

    def close_client(self):
        try:
            self.client.close()
        except Exception:
            pass

    def close(self):
        self.close_client()
        for s in (self.server_ssl, self.a, self.b):
            try:
                if s is not None:
                    s.close()
            except Exception:
                pass


def script_wire(run):
    def on_recv(ss):
        if ss.segments:
            return
        if run.gate is not None:
            run.gate.wait_turn()      # no data ready: this greenlet really blocks until the feeder picks the session
        data = run.boundary()
        if data is not None:
            ss.feed(data)

    def on_send(ss, data):
        run.sent(data)
    sock = ScriptSocket([], eof=True, on_recv=on_recv, on_send=on_send)
    run.delivered = lambda: sock.consumed
    return sock


_SASL = {}


def build_session(ext, kind, banner, syms, framing=1):
    """-> (run, wire or None, go): a fresh Server + handlers object + scripted socket; go() runs handle()."""
    run = Run(ext, kind, banner, syms, framing)
    feats = EXT_FEATURES[ext]
    wire = None
    kw = {}
    if 'STARTTLS' in feats:
        wire = PairWire(run)
        sock = wire.sock
        kw['context'] = wire.context
    else:
        sock = script_wire(run)
    addr = ('127.0.0.1', 4321)
    if kind == 'session':
        handler = LoggedSession(addr, make_validators(run), run.handoff)
        handler._c07 = run
        run.session = handler
    else:
        handler = RecHandler(run)
    srv = Server(sock, handler, address=addr, **kw)
    if 'SIZE' in feats:
        srv.extensions.add('SIZE', LIMIT)
    if 'AUTH' in feats:
        # what Server(auth=True) does, minus the ~10 ms entry-point scan of SASLAuth.defaults() per session
        if 'sasl' not in _SASL:
            _SASL['sasl'] = SASLAuth.defaults()
        srv.extensions.add('AUTH', AuthSession(_SASL['sasl'], srv.io))
    run.srv = srv

    def go():
        try:
            srv.handle()
            return 'returned'
        except ConnectionLost:
            return 'connection-lost'
        except Exception as e:        # the server re-raises handler/decoding errors after its 4xx/5xx reply
            return 'exception:' + type(e).__name__
    return run, wire, go


def run_session(ext, kind, banner, syms, framing=1):
    run, wire, go = build_session(ext, kind, banner, syms, framing)
    try:
        if wire is None:
            how = go()
        else:
            st, how = watchdog_call(go, 60)
            if st != 'ok':
                how = 'watchdog'
            elif wire.broken:
                how = 'watchdog:' + wire.broken
    finally:
        if wire is not None:
            wire.close()
    if how.startswith('watchdog'):
        run.exit = how
    else:
        run.finish(how)
    return run


# ---------------------------------------------------------------- concurrent sessions

class Gate(object):
    """One per concurrent session.  The session's greenlet blocks in wait_turn() whenever its server asks for input
    and none is ready (and before handle() starts); the feeder wakes exactly one session at a time and waits until
    that session blocks again or is over.  So between two turns of a session any number of turns of the others run."""

    def __init__(self):
        self.turn, self.idle, self.done = gevent.event.Event(), gevent.event.Event(), False

    def wait_turn(self):
        self.idle.set()
        self.turn.wait()
        self.turn.clear()


def run_concurrent(ext, specs, schedule):
    """specs: [(kind, banner, syms)], all on Server objects of one class with one extension set, each with its own
    handlers object and its own scripted socket.  schedule: session indexes, one per turn (a turn of a session that is
    already over is skipped; when the schedule is used up the rest runs round-robin).
    -> (runs, executed turn order, problem or None)."""
    built = [build_session(ext, k, b, y) for k, b, y in specs]
    gates = [Gate() for _ in built]
    for (run, wire, go), gate in zip(built, gates):
        run.gate = gate
    results = [None] * len(built)

    def body(i):
        run, wire, go = built[i]
        try:
            gates[i].wait_turn()          # the greeting is a turn like any other
            results[i] = go()
        finally:
            gates[i].done = True
            gates[i].idle.set()
    lets = [gevent.spawn(body, i) for i in range(len(built))]
    order, problem = [], None

    def give(i):
        g = gates[i]
        if g.done:
            return True
        if not g.idle.wait(30):
            return False
        if g.done:
            return True
        g.idle.clear()
        order.append(i)
        g.turn.set()
        return g.idle.wait(30)
    try:
        todo = list(schedule)
        rr = 0
        while not all(g.done for g in gates) and len(order) < 2000:
            if todo:
                i = todo.pop(0)
            else:
                i, rr = rr % len(gates), rr + 1
            if not give(i):
                problem = 'watchdog (a concurrent session did not come back within 30 s)'
                break
    finally:
        for gl in lets:
            if not gl.dead:
                gl.kill(block=True, timeout=5)
        for run, wire, go in built:
            if wire is not None:
                if wire.broken and problem is None:
                    problem = 'watchdog: ' + wire.broken
                wire.close()
    runs = []
    for i, (run, wire, go) in enumerate(built):
        if results[i] is None:
            problem = problem or 'a concurrent session never finished'
            run.exit = 'watchdog'
        else:
            run.finish(results[i])
        runs.append(run)
    return runs, order, problem


def summary(run):
    """Everything observable of one session at the public boundary (+ the read-only flags at its end)."""
    flags = run.impl_flags() if run.srv is not None else None
    return {'exit': run.exit, 'ended': (run.ended, run.ended_by),
            'steps': [(st['unit'], st['stage'], tuple(st['replies']), tuple(tuple(c) for c in st['callbacks']),
                       tuple(st['events'])) for st in run.steps],
            'reply-stream': b''.join(run.stream), 'final-flags': (flags, run.env_shape()),
            'automaton-verdict': tuple(v[0] for v in run.viol)}


_SOLO = {}


def solo_summary(ext, kind, banner, syms):
    key = (ext, kind, banner, tuple(syms))
    if key not in _SOLO:
        if len(_SOLO) > 4000:
            _SOLO.clear()
        run = run_session(ext, kind, banner, list(syms))
        _SOLO[key] = (summary(run), len(run.steps) + 1)      # turns = greeting + every boundary incl. the last read
    return _SOLO[key]


# ---------------------------------------------------------------- mechanisms

# Root causes confirmed by triage (mechanism strings produced by Run.violate -> stable public name).  Everything
# else is reported as 'unclassified/<clause>/<symbol>/<verdict>/<state class>'.
KNOWN_ROOT_CAUSES = [
    # Server._get_message_data sends the reply chosen by the message-received callback but never applies
    # _check_close_code(): after a 421 / 221 the server keeps reading commands.
    (r'^session-continues-after-421/HAVE_DATA-reply$', 'session-continues-after-421/HAVE_DATA-reply'),
    (r'^session-continues-after-221/HAVE_DATA-reply$', 'session-continues-after-221/HAVE_DATA-reply'),
    # SmtpSession.HAVE_DATA returns early (validator refused the content / MessageTooBig) without dropping
    # self.envelope: the Server has forgotten the transaction, the session object has not.
    (r'^flags-disagree:SmtpSession\.envelope/after-DATA(empty|big)?-[45]\d\d$',
     'stale-session-envelope-after-rejected-message'),
]


def classify(raw):
    for pattern, name in KNOWN_ROOT_CAUSES:
        if re.match(pattern, raw):
            return name
    return 'unclassified/' + raw


# ---------------------------------------------------------------- generator (incl. BFS closure, see docstring)

_BFS = {}     # (ext, kind) -> {'seen': {state: (banner, syms)}, 'queue': deque, 'closed': bool, 'transitions': int}


def _case(mode, ext, kind, banner, syms, framing=1):
    c = {'mode': mode, 'ext': ext, 'kind': kind, 'banner': banner, 'units': list(syms)}
    if framing != 1:
        c['framing'] = framing
    return c


def alphabet_for(ext, extra=False, verbs='core'):
    """extra: + the EXTRA symbols and the verbs spelled after internal names (core subset, or all of them)."""
    feats = EXT_FEATURES[ext]
    out = []
    for s in ALPHABET + ((EXTRA + (VERBS_ALL + RAISES_ALL if verbs == 'all' else VERBS_CORE + RAISES_CORE)) if extra else []):
        b = s.split('/')[0]
        # without the extension these are all the same "unknown command": keep one representative each
        if 'AUTH' not in feats and b in AUTH_BASES and s != 'AUTH':
            continue
        if 'STARTTLS' not in feats and b.startswith('STARTTLS') and s != 'STARTTLS':
            continue
        out.append(s)
    return out


def gen_bfs(ext, kind):
    G = _BFS[(ext, kind)] = {'seen': {}, 'queue': collections.deque(), 'closed': False, 'transitions': 0}
    for banner in V4:
        yield _case('bfs', ext, kind, banner, [])
    alpha = alphabet_for(ext, extra=True)
    while G['queue']:
        state = G['queue'].popleft()
        banner, prefix = G['seen'][state]
        if state[0][6] is not None:
            continue                       # session ended: nothing can be expanded
        for s in alpha:
            yield _case('bfs', ext, kind, banner, prefix + [s])
    G['closed'] = True
    yield {'mode': 'bfs-closed', 'ext': ext, 'kind': kind, 'banner': 'ok', 'units': []}


# prefixes of the bounded-depth enumeration: nothing, greeted+EHLO, and an open transaction with one recipient
DEPTH_PREFIXES = ([], ['EHLO'], ['EHLO', 'MAIL', 'RCPT'], ['EHLO', 'MAILnull', 'RCPT'])
# ... and, where STARTTLS is offered, an encrypted greeted session (the only place AUTH PLAIN/LOGIN is allowed)
TLS_PREFIXES = (['EHLO', 'STARTTLS', 'EHLO'],)
# random walks: the weight of a symbol is multiplied when it is the natural continuation of the previous one
FOLLOW = {'EHLO': {'MAIL': 5}, 'HELO': {'MAIL': 5}, 'MAIL': {'RCPT': 6}, 'RCPT': {'RCPT': 2, 'DATA': 4, 'DATAempty': 3,
                                                                                   'DATAbig': 3},
          'DATA': {'MAIL': 5}, 'RSET': {'MAIL': 3, 'RCPT': 3}, 'STARTTLS': {'EHLO': 5}, 'AUTH': {'MAIL': 4}}


def family(sym):
    """MAIL / RCPT / DATA / EHLO for every well-formed variant of those commands, else the base itself."""
    base = sym.split('/')[0]
    kind = BASES[base][0]
    if kind in ('mail', 'mailp'):
        return 'MAIL'
    if kind in ('rcpt', 'rcptp'):
        return 'RCPT'
    if kind == 'helo':
        return base[:4]
    return base


def gen_walk(rnd, alpha):
    base_w = [WALK_WEIGHTS.get(s, 1) for s in alpha]
    fams = [family(s) for s in alpha]
    syms, prev = [], None
    for _ in range(rnd.randint(3, 12)):
        f = FOLLOW.get(prev, {})
        w = [bw * f.get(fm, 1) for fm, bw in zip(fams, base_w)] if f else base_w
        s = rnd.choices(alpha, w)[0]
        syms.append(s)
        prev = family(s) if '/' not in s or s.startswith('DATA') else None    # only an accepted command leads on
        if prev is not None and prev.startswith('DATA'):
            prev = 'DATA'
    return syms


# pipelined strata.  The line a closing verdict is put on always has at least one more line behind it.
FRAMINGS = (0, 2, 3, 5)          # 0 = one burst up to the next line the client must wait at
TEMPLATES = {
    'plain': ['EHLO', 'NOOP', 'MAIL', 'RCPT', 'RCPT', 'DATA', 'XCMD', 'MAIL', 'RCPT', 'RSET', 'HELO', 'MAILnull', 'RCPTpm',
              'DATA', 'QUIT', 'NOOP', 'NOOP'],
    'tls-auth': ['EHLO', 'STARTTLS', 'EHLO', 'AUTH', 'NOOP', 'MAIL', 'RCPT', 'DATA', 'RSET', 'QUIT', 'NOOP'],
}
PIPE_PREFIXES = ([], ['EHLO'], ['EHLO', 'MAIL', 'RCPT'])
PIPE_TAIL = ['NOOP', 'RSET']


def gen_pipelined(tier, seed=0):
    # (a) a closing verdict (421 / 221 / handler failure / QUIT / a line the server aborts on) at every command
    #     position of a template session, and the non-closing rejections for contrast; every framing incl. stop-and-wait
    for ext, kind in CONFIGS:
        for tname, tmpl in sorted(TEMPLATES.items()):
            variants = [list(tmpl)]
            for i, b in enumerate(tmpl):
                for v in CLOSERS.get(family(b), []) + NONCLOSERS.get(family(b), []):
                    variants.append(tmpl[:i] + [v] + tmpl[i + 1:])
            for syms in variants:
                for fr in FRAMINGS + (1,):
                    yield _case('pipe-close', ext, kind, 'ok', syms, fr)
        for banner in ('421', 'raise', '550'):
            yield _case('pipe-close', ext, kind, banner, TEMPLATES['plain'], 0)
    # (b) every symbol (full alphabet incl. EXTRA) with lines before and behind it in the same segment
    for ext, kind in CONFIGS:
        alpha = alphabet_for(ext, extra=True)
        for prefix in PIPE_PREFIXES + (TLS_PREFIXES if 'STARTTLS' in EXT_FEATURES[ext] else ()):
            for a in alpha:
                for fr in (0, 2):
                    yield _case('pipe-single', ext, kind, 'ok', prefix + [a] + PIPE_TAIL, fr)
    # (c) all pairs over the reduced alphabet + closers, one burst
    alpha2 = ALPHA3 + ['MAIL/raise', 'RCPT/421', 'RCPT/raise', 'DATA/421', 'DATA/ok/221', 'DATA/ok/raise', 'XCMD', 'XCMD/421',
                       'NOOP/421', 'EHLO/421', 'MAIL8bit', 'UNKlong']
    for ci, (ext, kind) in enumerate(CONFIGS):
        alpha = [x for x in alpha2 if x in alphabet_for(ext, extra=True)]
        for pi, prefix in enumerate((['EHLO'], ['EHLO', 'MAIL', 'RCPT'])):
            if tier != 'thorough' and (ci + pi + seed) % 4:
                continue         # quick: a quarter of the (configuration, prefix) pairs, rotating with the seed
            for a in alpha:
                for b in alpha:
                    yield _case('pipe-depth', ext, kind, 'ok', prefix + [a, b, 'NOOP'], 0)


# measured CPU seconds of one BFS closure / of everything else in a tier (only used to balance the shards)
BFS_COST = {'default': 1.0, 'SIZE': 1.0, 'AUTH': 1.5, 'STARTTLS': 5.0, 'ALL': 11.0}
REST_COST = {'quick': 230.0, 'thorough': 9000.0}


def share_table(tier, nshards):
    """-> list of shard ids (100 slots): the shards that run a (TLS-heavy) BFS closure take fewer of the other cases."""
    bfs = [sum(BFS_COST[e] for i, (e, k) in enumerate(CONFIGS) if i % nshards == sh) for sh in range(nshards)]
    target = (REST_COST[tier] + sum(bfs)) / nshards
    w = [max(target - b, target * 0.2) for b in bfs]
    table, acc = [], [0.0] * nshards
    for _ in range(100):
        sh = min(range(nshards), key=lambda i: (acc[i] + 1) / w[i])
        acc[sh] += 1
        table.append(sh)
    return table


# concurrent stratum: sessions that must not influence each other (different sequences, different verdicts)
CONC_POOL = [
    ['EHLO', 'MAIL', 'RCPT', 'DATA', 'QUIT'],
    ['EHLO', 'RCPT', 'DATA', 'MAIL/550', 'RCPT'],
    ['HELO', 'MAILnull', 'RCPTpm', 'RSET', 'RCPT', 'DATA'],
    ['EHLO', 'XCMD/421'],
    ['EHLO', 'XCMD', 'UNK', 'XCMD/550', 'EMPTY', 'XCMD/asis', 'STARTTLS'],
    ['EHLO', 'MAIL', 'RCPT/550', 'DATA', 'RCPT', 'DATA/ok/550', 'RCPT', 'DATA'],
    ['EHLO', 'MAILsize', 'RCPT', 'DATAbig', 'MAIL', 'RCPT', 'DATA/ok/qfail', 'NOOP'],
    ['EHLO', 'AUTH', 'MAIL', 'RCPT', 'DATA/ok/221'],
    ['EHLO', 'STARTTLS', 'EHLO', 'AUTH', 'MAIL', 'RCPT', 'DATA', 'AUTH'],
    ['EHLO', 'MAIL/421'],
    ['EHLO', 'NOOP/raise'],
    ['EHLO', 'MAIL', 'RCPT', 'RCPT', 'DATAempty', 'NOOP/450', 'QUIT/550', 'QUIT'],
    ['EHLO', 'AUTHchal', 'AUTHlogin', 'MAIL', 'RCPT/421'],
    ['EHLO', 'MAIL', 'EHLO', 'RCPT', 'MAIL', 'HELO', 'RCPT', 'STARTTLS', 'MAIL'],
    ['MAIL', 'EHLO/550', 'MAIL', 'EHLO', 'MAIL/450', 'MAIL', 'RCPT', 'DATA/550', 'DATA'],
]
# every interleaving of these pairs (turn counts are measured by running each session alone)
CONC_PAIRS = [(['EHLO', 'MAIL', 'RCPT', 'DATA'], ['EHLO', 'RCPT', 'DATA']),
              (['EHLO', 'XCMD/550', 'UNK', 'NOOP'], ['EHLO', 'UNK', 'XCMD', 'UNK']),
              (['EHLO', 'MAIL', 'RCPT/550', 'DATA'], ['EHLO', 'MAIL', 'RSET', 'RCPT'])]
NCONC = {'quick': 2400, 'thorough': 40000}


def merges(a, b):
    """All interleavings of a turns of session 0 with b turns of session 1."""
    if not a or not b:
        yield [0] * a + [1] * b
        return
    for m in merges(a - 1, b):
        yield [0] + m
    for m in merges(a, b - 1):
        yield [1] + m


def gen_concurrent(tier, seed, shard, table):
    n = 0
    for ext, kinds, pairs in (('default', ('rec', 'session'), (0, 1, 2)), ('AUTH', ('session', 'rec'), (0, 1)),
                              ('SIZE', ('rec', 'rec'), (2,)), ('ALL', ('session', 'session'), (0,))):
        if ext == 'ALL' and tier != 'thorough':
            continue              # real TLS sockets: thorough only (the seeded part below has some in quick)
        for pi in pairs:
            a, b = CONC_PAIRS[pi]
            specs = [(kinds[0], 'ok', a), (kinds[1], 'ok', b)]
            for sched in _pair_schedules(ext, specs):
                if table[n % 100] == shard:
                    yield {'mode': 'conc-all', 'ext': ext, 'sessions': [list(x) for x in specs], 'schedule': sched}
                n += 1
    rnd = random.Random('c07-conc-%d-%d' % (seed, shard))
    for i in range(NCONC[tier] // max(1, len(set(table)))):
        ext = rnd.choice(EXTS if rnd.random() < 0.25 else ['default', 'SIZE', 'AUTH'])
        alpha = alphabet_for(ext, extra=True)
        specs = []
        for _ in range(rnd.choice((2, 2, 3))):
            syms = list(rnd.choice(CONC_POOL)) if rnd.random() < 0.7 else ['EHLO'] + gen_walk(rnd, alpha)[:7]
            specs.append((rnd.choice(KINDS), 'ok' if rnd.random() < 0.9 else rnd.choice(['450', '421', 'raise']), syms))
        total = sum(len(y) * 2 + 3 for _, _, y in specs)
        sched = [rnd.randrange(len(specs)) for _ in range(total)]
        yield {'mode': 'conc-walk', 'ext': ext, 'sessions': [list(x) for x in specs], 'schedule': sched}


def _pair_schedules(ext, specs):
    ta = solo_summary(ext, *specs[0])[1]
    tb = solo_summary(ext, *specs[1])[1]
    return merges(ta, tb)


def gen_cases(tier, seed, shard, nshards):
    mine = [c for i, c in enumerate(CONFIGS) if i % nshards == shard]
    for ext, kind in mine:
        for c in gen_bfs(ext, kind):
            yield c
    table = share_table(tier, nshards)
    # pipelined framings (several complete lines per segment), systematic part
    for i, c in enumerate(gen_pipelined(tier, seed)):
        if table[i % 100] == shard:
            yield c
    # every spelling of a verb that resembles an internal name, at four points of a session (stop-and-wait and one burst)
    n = 0
    for ext, kind in CONFIGS:
        for banner, prefix in (('550', []), ('ok', []), ('ok', ['EHLO']), ('ok', ['EHLO', 'MAIL', 'RCPT'])):
            for v in VERBS_ALL:
                for fr in (1, 0):
                    if table[n % 100] == shard:
                        yield _case('verbs', ext, kind, banner, prefix + [v, 'EHLO', 'MAIL', 'RCPT', 'DATA'], fr)
                    n += 1
    # every callback failing with every exception type the server has an except-clause for, then the commands that must
    # find the transaction gone if the session survives
    for ext, kind in CONFIGS:
        for sym in RAISES_ALL:
            cb = sym.split('/')[0]
            prefix = {'EHLO': [], 'HELO': [], 'MAIL': ['EHLO'], 'AUTH': ['EHLO'], 'STARTTLS': ['EHLO']}.get(cb, ['EHLO', 'MAIL', 'RCPT'])
            for fr in (1, 0):
                if table[n % 100] == shard:
                    yield _case('raises', ext, kind, 'ok', prefix + [sym] + RAISE_FOLLOW, fr)
                n += 1
        for t in sorted(EXC_TYPES):
            if table[n % 100] == shard:
                yield _case('raises', ext, kind, 'raise:' + t, ['EHLO', 'MAIL', 'RCPT', 'DATA', 'QUIT'])
            n += 1
    # concurrent sessions
    for c in gen_concurrent(tier, seed, shard, table):
        yield c
    # seeded random walks: stop-and-wait, then pipelined
    rnd = random.Random('c07-%d-%d' % (seed, shard))
    for i in range((NWALKS[tier] + NPIPEWALKS[tier]) // nshards):
        ext, kind = rnd.choice(mine) if (mine and rnd.random() < 0.7) else rnd.choice(CONFIGS)
        alpha = alphabet_for(ext, extra=True, verbs='all')
        syms = gen_walk(rnd, alpha)
        if rnd.random() < 0.8:
            syms[0] = rnd.choice(['EHLO', 'EHLO', 'HELO'])
        banner = 'ok' if rnd.random() < 0.95 else rnd.choice(['450', '550', '421', 'raise'])
        if i < NWALKS[tier] // nshards:
            yield _case('walk', ext, kind, banner, syms)
        else:
            yield _case('pipe-walk', ext, kind, banner, syms, rnd.choice(FRAMINGS))
    # all sequences up to the depth bound
    n = 0
    for ext, kind in CONFIGS:
        alpha = alphabet_for(ext)
        for prefix in DEPTH_PREFIXES + (TLS_PREFIXES if 'STARTTLS' in EXT_FEATURES[ext] else ()):
            for a in alpha:
                for b in alpha:
                    if table[n % 100] == shard:
                        yield _case('depth', ext, kind, 'ok', prefix + [a, b])
                    n += 1
    if tier == 'thorough':
        for ext, kind in CONFIGS:
            feats = EXT_FEATURES[ext]
            alpha = [s for s in ALPHA3 if s in alphabet_for(ext)]
            for prefix in DEPTH_PREFIXES:
                for a in alpha:
                    for b in alpha:
                        for c in alpha:
                            if table[n % 100] == shard:
                                yield _case('depth', ext, kind, 'ok', prefix + [a, b, c])
                            n += 1
        # full alphabet at depth 3 after EHLO for the configurations that run on the scripted socket
        for ext, kind in CONFIGS:
            if 'STARTTLS' in EXT_FEATURES[ext]:
                continue
            alpha = alphabet_for(ext)
            for a in alpha:
                for b in alpha:
                    for c in alpha:
                        if table[n % 100] == shard:
                            yield _case('depth', ext, kind, 'ok', ['EHLO', a, b, c])
                        n += 1


# ---------------------------------------------------------------- the check

def run_conc_case(case, R):
    ext, specs, schedule = case['ext'], [(k, b, list(y)) for k, b, y in case['sessions']], list(case['schedule'])
    R.eval()
    solos = [solo_summary(ext, k, b, y)[0] for k, b, y in specs]
    runs, order, problem = run_concurrent(ext, specs, schedule)
    R.count('sessions/' + case['mode'])
    R.count('concurrent/sessions-run-together', len(specs))
    if problem or any(so['exit'].startswith('watchdog') for so in solos):
        R.inconclusive('concurrent: %s ext=%s' % (problem or 'solo watchdog', ext))
        return
    key = (ext, tuple((k, b, tuple(y)) for k, b, y in specs))
    R.observe('interleaving', (key, tuple(order)))
    # how finely were the sessions mixed: number of points where the turn passes to another session
    R.count('concurrent/session-switches', sum(1 for a, b in zip(order, order[1:]) if a != b))
    mid = False
    for i, (run, solo) in enumerate(zip(runs, solos)):
        R.hit('concurrent-sessions-oracle')
        R.count('commands', run.commands)
        for h, n in run.hits.items():
            R.hit(h, n)
        got = summary(run)
        if run.nt_open:
            mid = True
        for field in ('reply-stream', 'steps', 'exit', 'ended', 'final-flags', 'automaton-verdict'):
            if got[field] == solo[field]:
                continue
            where, what = '-', '%r != alone %r' % (got[field], solo[field])
            if field in ('steps', 'reply-stream'):
                a, b = got['steps'], solo['steps']
                j = next((j for j in range(min(len(a), len(b))) if a[j] != b[j]), min(len(a), len(b)))
                where = a[j][0] if j < len(a) else b[j][0] if j < len(b) else '<end>'
                where = family(where) if where.split('/')[0] in BASES else where
                what = ('at step %d: %r, alone: %r' % (j, a[j] if j < len(a) else None, b[j] if j < len(b) else None)
                        if field == 'steps' or j < max(len(a), len(b)) else
                        'same codes and callbacks, different reply text: %r, alone: %r'
                        % (got[field][-300:], solo[field][-300:]))
            R.violation('concurrent/%s-differs-from-session-alone/%s' % (field, where),
                        'session %d of %d concurrent sessions (%s, %s): %s' % (i, len(specs), ext, specs[i][0], what),
                        {'ext': ext, 'sessions': [list(x) for x in specs], 'schedule': schedule, 'executed_turns': order,
                         'session': i, 'field': field, 'steps': run.steps, 'steps_alone': solo['steps'],
                         'automaton_violations': [v[:2] for v in run.viol[:3]]})
            break
    if mid:
        R.nontrivial(('conc', key, tuple(order)))
        R.count('nontrivial/concurrent-with-open-transaction')


def run_case(case, R):
    if case.get('mode', '').startswith('conc'):
        return run_conc_case(case, R)
    ext, kind, banner, syms = case['ext'], case['kind'], case['banner'], list(case['units'])
    mode = case.get('mode', 'seq')
    framing = case.get('framing', 1)
    G = _BFS.get((ext, kind))
    if mode == 'bfs-closed':
        if G is not None and G['closed']:
            R.hit('bfs-closure-reached')
            R.count('bfs-closed-configurations')
            R.count('bfs-states', len(G['seen']))
            R.count('bfs-transitions', G['transitions'])
            R.count('bfs-states/%s-%s' % (ext, kind), len(G['seen']))
            R.count('bfs-transitions/%s-%s' % (ext, kind), G['transitions'])
        return
    R.eval()
    run = run_session(ext, kind, banner, syms, framing)
    R.count('sessions/' + mode)
    if mode.startswith('pipe'):
        R.count('sessions/framing-%s' % ({0: 'burst', 1: 'stop-and-wait'}.get(framing, '%d-line-groups' % framing)))
    R.count('commands', run.commands)
    if run.exit is not None and run.exit.startswith('watchdog'):
        R.inconclusive('watchdog (%s) ext=%s' % (run.exit, ext))
        return
    for h, n in run.hits.items():
        R.hit(h, n)
    for o, n in run.observations.items():
        R.count('observed/' + o, n)
    R.count('exit/' + run.exit)
    if run.exit.startswith('exception') and run.ended == '421' and run.steps:
        # not a C07 violation (one error reply, no callback, session ends) but worth seeing: a client line made the
        # server take its 'unhandled error' path
        R.count('observed/421-unhandled-error-path:%s:%s' % (run.steps[-1]['unit'].split('/')[0], kind))
    cfg = (ext, kind)
    for i, st in enumerate(run.states):
        R.observe('abstract-state', (cfg, st))
        if i and framing == 1:
            R.observe('abstract-transition', (cfg, run.states[i - 1], syms[i - 1], st))
    R.observe('reply-code-sequence', tuple(tuple(s['replies']) for s in run.steps))
    if framing != 1:
        R.observe('pipelined-group-shape', tuple(collections.Counter(s['group'] for s in run.steps).values()))
    if run.nt_open or run.nt_dep:
        R.nontrivial((ext, kind, banner, tuple(syms), framing))
        if run.nt_open:
            R.count('nontrivial/open-transaction')
        if run.nt_dep:
            R.count('nontrivial/rejected-then-dependent')
    if G is not None and run.states:
        if mode == 'bfs':
            if len(run.states) == len(syms) + 1:
                G['transitions'] += 1
                final = run.states[-1]
                if final not in G['seen']:
                    G['seen'][final] = (banner, syms)
                    G['queue'].append(final)
        elif G['closed']:
            for st in run.states:
                R.count('closure-selfcheck/states-compared')
                if st not in G['seen']:
                    R.count('closure-selfcheck/state-outside-bfs-closure')
                    R.observe('state-outside-bfs-closure', (cfg, st))
    if len(syms) >= 4 and (run.nt_open and run.nt_dep):
        R.sample({'ext': ext, 'kind': kind, 'banner': banner, 'steps': run.steps, 'exit': run.exit})
    if run.viol:
        # the first violation of the session; if that one is the read-only invariant (vi), also the first
        # behavioural one (i)-(v) that follows, so that the evidence shows whether the divergence is visible
        # at the public boundary.  Everything later may be a cascade and is only listed by name.
        report = [run.viol[0]]
        if run.viol[0][0].startswith('flags-disagree'):
            report += [v for v in run.viol[1:] if not v[0].startswith('flags-disagree')][:1]
        R.count('violating-sessions')
        for raw, what, detail in report:
            detail = dict(detail)
            detail.update({'ext': ext, 'kind': kind, 'banner': banner, 'units': syms, 'framing': framing, 'steps': run.steps,
                           'exit': run.exit, 'raw_mechanism': raw,
                           'all_violations_of_this_session': [v[0] for v in run.viol[:6]]})
            R.violation(classify(raw), what, detail)


def shard_cleanup():
    vtls.cleanup()
