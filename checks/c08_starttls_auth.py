"""C08 -- nothing crosses the STARTTLS boundary; AUTH only when permitted.

Real code, real TLS: slimta.smtp.server.Server (or slimta.edge.smtp.SmtpEdge.handle with the stock
SmtpSession) runs on one end of a gevent socketpair with a per-run self-signed certificate; the harness
is the peer on the other end and performs real `ssl` handshakes.  For clause (e) the roles are swapped:
the real slimta.smtp.client.Client talks to a scripted harness TLS server.

Three families of cases (field 'fam'):

 tls     (a) sentinel injection: a session prefix, then `STARTTLS` with a plaintext payload pipelined in the
         same send ('pipelined'), or sent after the 220 but before the handshake ('after-220'), or sent
         before the handshake of an immediate-TLS server.  Then a real handshake and a KNOWN list of
         commands inside TLS.  Oracle: #replies read over TLS == #commands sent over TLS; the first TLS
         reply answers the first TLS command; no callback carries a sentinel argument; the callbacks
         recorded with encrypted == True are exactly those the TLS commands cause; no TLS reply shows
         sentinel text.  If the handshake fails (the server's TLS layer ate the plaintext) the session
         must simply be over with no sentinel / encrypted callback.
         (b) script 'B' probes the state after the handshake WITHOUT a new EHLO: NOOP (its callback
         snapshot shows ehlo_as / have_mailfrom / have_rcptto), MAIL, RCPT, DATA must be refused, EHLO must
         not list STARTTLS, a second STARTTLS must be refused.
 auth    (c,d) one AUTH exchange (mechanism x shape) on a channel (clear / after STARTTLS / immediate TLS)
         under a gate (none, before-ehlo, after-success, in-transaction, retry, history-<step>: AUTH ok, then
         EHLO | HELO | RSET | a completed transaction | STARTTLS+EHLO, then another AUTH) with generated Unicode
         credentials and a scripted application verdict (235 / 535 / 454).  Oracle table in judge_auth().
 client  (e) the harness server answers STARTTLS with `220 ready` + injected reply bytes in ONE clear
         segment, handshakes, and answers inside TLS with recognisable texts; every Reply the client
         returns after starttls() must be the one sent inside TLS, and the client's extension set after the
         EHLO inside TLS is exactly what that EHLO reply listed.
 relay   (e) the same hostile server against the real StaticSmtpRelay / StaticLmtpRelay (SmtpRelayClient.
         _handshake: EHLO, STARTTLS, EHLO|HELO fallback, AUTH through slimta.smtp.auth.AuthSession.client_attempt,
         then one delivery).  The clear-text EHLO reply and the EHLO reply inside TLS list DIFFERENT extensions
         (AUTH mechanisms, SIZE, PIPELINING).  Oracle: first command inside TLS is EHLO/LHLO, the delivery outcome
         is the one answered inside TLS, nothing injected is reported, and everything the client does after
         the handshake that depends on an extension (AUTH and its mechanism, MAIL SIZE=/AUTH= parameters) uses
         only what the server offered inside TLS; the AUTH exchange decodes to the configured credentials.

 offer   (b) the STARTTLS offer over HISTORIES: after the handshake (or on a tls_immediately session) a seeded
         command sequence of length 1..5 over {EHLO, HELO, RSET, NOOP, full transaction, refused RCPT, unknown
         command, AUTH ok / refused by the application, STARTTLS} runs over TLS; after EVERY EHLO reply STARTTLS
         must not be among the offered extensions and nothing may be offered that the configuration does not
         contain; every STARTTLS command must be refused (no 220, no STARTTLS / second handshake callback).
         Mirror image on clear-text sessions (STARTTLS never issued, refused with an argument, or a server
         without TLS context): the offer is exactly the configured one until a HELO (after a HELO this server
         offers nothing any more -- an old quirk the statement does not speak about: only "nothing appears" is
         demanded then).

 empty   (c,d) empty SASL responses: every mechanism x {no initial response, "=" as initial response, an empty line
         as challenge response, "=" as challenge response} (LOGIN: at the user-name or the password step), followed
         by RSET / NOOP / MAIL sent by a client that trusts the protocol (one line, one reply).  Oracle: the number
         of 334 challenges never exceeds what the mechanism needs given the initial response, every follow-up
         command gets its own 250 and its own callback, the handler (if asked) is shown exactly the supplied
         strings (empty where empty was supplied), authenticated only after the handler accepted.

Audit additions (round 5): the STARTTLS line + payload cut into segments at generated offsets (inside the
verb, between CR and LF, every byte), the whole session prefix + STARTTLS + payload in ONE segment (also behind
the end of a message body), other spellings of the STARTTLS line; mechanisms XOAUTH2 and EXTERNAL, a server
without any TLS context, auth=True (pysasl defaults), mixed-case / raw 8-bit AUTH lines, an application AUTH
handler that raises, and the identity/protocol the edge writes into the envelope of the next message.

Credential identity is read through pysasl's public API only: creds.authcid, creds.authzid and
creds.verify(ClearIdentity(authcid, secret, prepare=noprep)).
"""
import hmac
import base64
import random
import hashlib

import gevent
from gevent import socket as gsocket
from gevent import ssl as gssl

from pysasl.identity import ClearIdentity
from pysasl.creds.external import ExternalVerificationRequired
from pysasl.prep import noprep

from vf import tls as vtls
from slimta.smtp.server import Server
from slimta.smtp.client import Client
from slimta.smtp import ConnectionLost
import slimta.edge.smtp as edge_smtp
from slimta.edge.smtp import SmtpEdge, SmtpSession, SmtpValidators
from slimta.envelope import Envelope
from slimta.relay import RelayError
from slimta.relay.smtp.static import StaticSmtpRelay, StaticLmtpRelay

PROPERTY = 'C08'
LEVEL = 'exploration'
LEVEL_TEXT = ('Real Server / SmtpEdge+SmtpSession / Client over gevent socketpairs with real ssl handshakes in both '
              'directions. Designed grid: (session prefix x injected plaintext shape x {pipelined behind STARTTLS, '
              'after the 220, before an immediate-TLS handshake} x TLS script {A known commands, B state probe}), '
              '(SASL mechanism x AUTH line/response shape x channel {clear, STARTTLS, immediate TLS} x gate x '
              'application verdict x generated Unicode credentials), (client x injected reply shape), (StaticSmtpRelay / '
              'StaticLmtpRelay against a hostile scripted TLS server x injected reply shape x timing x extension list '
              'offered inside TLS x credentials); plus seeded random draws over the same axes. Held = held on the '
              'sessions reported.')
LEVEL_NOTE = ('Trusted: the harness wire peer (~80 lines: send, read one reply, handshake), the recording handler '
              'object, gevent ssl, the per-run certificate; the expected callback list of the TLS scripts is fixed '
              'by the harness because the handlers never alter a reply (except the scripted AUTH verdict).')
TECHNIQUE = 'runtime monitoring: sentinel injection across a real TLS handshake + gating/credential oracle table'
RULE = ('tls case = (prefix in {none, EHLO, EHLO+MAIL, EHLO+MAIL+RCPT, EHLO+AUTH-ok}) x (payload in {none, ehlo, mail, '
        'rcpt, noop, several, partial line, DATA+body, 4 KB junk filling the recv, junk larger than one recv}) x '
        '(mode/timing in {starttls/pipelined, starttls/after-220, starttls/whole session in one segment, '
        'immediate/before-handshake}) x script {A, B} [+ prefixes {completed transaction, MAIL+RSET, refused AUTH, '
        'HELO}, segmentation of STARTTLS+payload {inside the verb, CR|LF, line+1 byte, bytewise, 2 / 5 random cuts}, '
        'spelling of the STARTTLS line {lower, mixed + trailing blanks, bare LF, with an argument (refused)}, payload '
        'AUTH EXTERNAL]; '
        'auth case = (mechanism in {PLAIN, LOGIN, CRAM-MD5, XOAUTH2, EXTERNAL, none}) x (shape: initial response, '
        'challenge/response, lower-case, mixed-case, cancel, bad base64 x4, raw 8-bit, "=", empty response, bare AUTH, '
        'unknown / 8-bit mechanism, extra arguments, no-NUL / non-UTF-8 / non-Bearer payload ...) x channel {clear with '
        'STARTTLS offered, clear on a server without TLS context, after STARTTLS, immediate TLS} x server auth '
        'configuration {explicit list of all five, auth=True defaults} x gate {none, before-ehlo, HELO greeting in '
        'force: helo-only / +RSET / +NOOP / +transaction / EHLO-then-HELO / HELO-HELO, after-success, '
        'in-transaction, '
        'in-transaction-rcpt, retry-535, retry-454, history-{ehlo, helo, rset, transaction, starttls} x first '
        'mechanism x second identity {same, different}} x verdict {235, 535, 454, handler raises} x target '
        '{Server+probe, SmtpEdge+SmtpSession (+ envelope.client of the next message)} x credentials from a seeded generator (ASCII, BMP, astral, combining marks, '
        'SASLprep-sensitive, spaces, long; authzid present/absent; NUL-free); client case = injected reply shape x '
        'timing; relay case = {SMTP, LMTP relay} x injected reply shape x timing x EHLO reply inside TLS {same AUTH '
        'list as in clear, other mechanism, other order, no AUTH, 500 + HELO fallback} x credentials {none, default '
        'mechanism, forced PLAIN / LOGIN} (clear text always offers AUTH PLAIN LOGIN, SIZE, PIPELINING), plus '
        'tls_immediately relays with the injected bytes sent before the handshake. '
        'non-trivial = tls/client/relay case with a non-empty injected payload (or a differing TLS extension list) or '
        'script B with a non-empty prefix, or an auth case other than (initial|challenge, verdict 235, no gate, '
        'encrypted channel); distinct by (prefix, payload, mode, timing, script, segmentation, spelling) / (mechanism, '
        'shape, channel, gate, verdict, target, credential kind, auth configuration) / (client, payload, timing) / '
        '(relay kind, TLS extension list, credentials, forced mechanism, payload, timing)')
ASSUMPTIONS = ['a single sendall() of <= 4096 bytes on an AF_UNIX socketpair is handed to the peer by one recv(4096) '
               '(the pipelined payload therefore reaches IO.recv_buffer together with the STARTTLS line)',
               'the recording handlers never change a reply except the scripted AUTH verdict, so the callbacks a '
               'known command list causes are known in advance',
               'TLS: self-signed certificate, verification disabled on the connecting side',
               'pysasl 1.2 public API (authcid, authzid, verify(ClearIdentity(.., prepare=noprep)), and for '
               'XOAUTH2/EXTERNAL the token of ExternalVerificationRequired) reports the credentials the mechanism decoded',
               'relay family: the hostile server\'s own PLAIN/LOGIN/CRAM-MD5 decoding (~25 lines) is trusted; CRAM-MD5 '
               'credentials are ASCII there because pysasl\'s CRAM-MD5 client applies SASLprep']
REQUIRED_HITS = ['tls-reply-count-compared', 'tls-first-reply-checked', 'encrypted-callback-trace-compared',
                 'sentinel-callbacks-checked', 'post-handshake-state-probed', 'handshake-refused-plaintext',
                 'auth-clear-session-gate-checked', 'auth-sequence-gate-checked', 'auth-malformed-survival-checked',
                 'auth-credentials-compared', 'authed-flag-checked', 'edge-session-auth-checked',
                 'auth-retry-checked', 'auth-after-success-history-checked', 'client-tls-replies-compared',
                 # audit round 5
                 'starttls-line-segmented', 'whole-session-in-one-segment', 'starttls-offer-after-handshake-checked',
                 'server-without-tls-context', 'auth-validator-raises-checked', 'edge-envelope-identity-checked',
                 'client-post-tls-extensions-compared', 'relay-tls-session-compared',
                 'relay-post-tls-extension-use-checked', 'relay-auth-credentials-compared',
                 # STARTTLS offer over histories (seed C08f)
                 'offer-history-ehlo-checked', 'offer-history-ehlo-after-helo-over-tls',
                 'starttls-refused-in-history-checked', 'starttls-probe-after-helo-over-tls',
                 'immediate-offer-history-checked', 'clear-offer-history-checked', 'clear-offer-history-after-helo',
                 'handshake-callbacks-in-history-counted',
                 # HELO greeting in force (seed C08i)
                 'auth-after-helo-greeting-checked', 'starttls-after-helo-only-checked',
                 # empty SASL responses (seed C08g)
                 'auth-equals-initial-response-driven', 'auth-empty-exchange-challenge-count-checked',
                 'auth-empty-exchange-followups-checked', 'auth-empty-credentials-compared']
SHARDS = {'quick': 8, 'thorough': 16}
BUDGET = {'quick': 45, 'thorough': 700}
EXHAUSTIVE = {'quick': False, 'thorough': False}

WD = 10.0            # generous real-time watchdog per blocking harness step; firing => inconclusive only
NRANDOM = {'quick': 500, 'thorough': 5000}
CRED_DRAWS = {'quick': 2, 'thorough': 5}

# ---------------------------------------------------------------- mechanisms (root causes)
M_SRV_BUF = 'server/recv-buffer-survives-starttls'
M_SRV_TXN = 'server/transaction-state-survives-starttls'
M_SRV_EHLO = 'server/ehlo-identity-survives-starttls'
M_SRV_OFFER = 'server/starttls-offered-after-handshake'
M_SRV_TWICE = 'server/second-starttls-accepted'                 # + '/after-HELO' | '/in-history' (offer family)
M_SRV_APPEAR = 'server/extension-offered-but-not-configured'
M_SRV_VANISH = 'server/configured-extension-not-offered'
M_AUTH_CLEAR = 'auth/plaintext-mechanism-accepted-on-clear-session'
M_AUTH_BARE = 'auth/bare-AUTH-ends-session'
M_AUTH_B64 = 'auth/non-base64-characters-ignored'
M_AUTH_BEFORE_EHLO = 'auth/accepted-before-ehlo'
M_AUTH_AFTER_OK = 'auth/accepted-after-successful-auth'      # + '/after-<EHLO|HELO|RSET|transaction|STARTTLS>'
M_AUTH_IN_TXN = 'auth/accepted-inside-transaction'
M_AUTH_EARLY = 'auth/authenticated-without-235'
M_AUTH_CREDS = 'auth/credentials-altered'
M_AUTH_RETRY = 'auth/retry-after-failure-refused'
M_AUTH_EMPTY = 'auth/empty-response-mishandled'               # + '/<variant>'
M_CLI_BUF = 'client/recv-buffer-survives-starttls'
M_CLI_EXT = 'client/pre-tls-extensions-used-after-starttls'
M_CLI_CREDS = 'client/auth-credentials-altered'
M_CLI_NOEHLO = 'client/no-new-ehlo-after-starttls'

SENTINELS = ('injected.test', 'inj@x', 'XINJ')

_ctx = {}


def sctx():
    if 's' not in _ctx:
        _ctx['s'] = vtls.server_context()
    return _ctx['s']


def cctx():
    if 'c' not in _ctx:
        _ctx['c'] = vtls.client_context()
    return _ctx['c']


def shard_cleanup():
    _ctx.clear()
    vtls.cleanup()


class Stall(Exception):
    """A harness step did not finish within the generous watchdog: the case decides nothing."""


class _NoPtr(object):
    """Stand-in for slimta.edge.smtp.PtrLookup (no resolver threads in the sandbox)."""

    def __init__(self, ip):
        pass

    def start(self):
        pass

    def finish(self, *a, **k):
        return None


edge_smtp.PtrLookup = _NoPtr

# ---------------------------------------------------------------- wire peer (trusted base)


class Wire(object):
    """The harness end of the connection: send bytes, read one SMTP reply, do a TLS handshake."""

    def __init__(self, sock):
        self.sock = sock
        self.buf = b''
        self.tls = False
        self.log = []

    def _chan(self):
        return 'tls' if self.tls else 'clear'

    def send(self, data):
        self.log.append(['send', self._chan(), data])
        try:
            self.sock.sendall(data)
            return True
        except (OSError, gssl.SSLError) as e:
            self.log.append(['send-failed', self._chan(), repr(e)[:120]])
            return False

    def _fill(self):
        t = gevent.Timeout(WD)
        t.start()
        try:
            d = self.sock.recv(65536)
        except gevent.Timeout as e:
            if e is not t:
                raise
            raise Stall('no bytes and no EOF from the peer within %ss' % WD)
        except (OSError, gssl.SSLError, ValueError):
            d = b''
        finally:
            t.close()
        if not d:
            return False
        self.buf += d
        return True

    def reply(self):
        """One complete reply as [code, [text lines]]; None at end of stream."""
        lines = []
        while True:
            while b'\n' not in self.buf:
                if not self._fill():
                    self.log.append(['eof', self._chan(), self.buf])
                    return None
            line, self.buf = self.buf.split(b'\n', 1)
            line = line.rstrip(b'\r')
            lines.append(line)
            if line[3:4] != b'-':
                rep = [line[:3].decode('latin-1'), [ln[4:].decode('utf-8', 'replace') for ln in lines]]
                self.log.append(['reply', self._chan(), rep])
                return rep

    def cmd(self, line):
        if not self.send(line + b'\r\n'):
            return None
        return self.reply()

    def handshake(self, server_side=False):
        t = gevent.Timeout(WD)
        t.start()
        try:
            if server_side:
                self.sock = sctx().wrap_socket(self.sock, server_side=True)
            else:
                self.sock = cctx().wrap_socket(self.sock, server_hostname='verif.test')
            self.tls = True
            self.log.append(['handshake', 'ok', self.sock.version()])
            return True
        except gevent.Timeout as e:
            if e is not t:
                raise
            raise Stall('TLS handshake did not finish within %ss' % WD)
        except (gssl.SSLError, OSError, EOFError, ValueError) as e:
            self.log.append(['handshake', 'failed', repr(e)[:160]])
            return False
        finally:
            t.close()

    def close(self):
        try:
            self.sock.close()
        except Exception:
            pass


def code(rep):
    return rep[0] if rep else None


def is_err(rep):
    return bool(rep) and rep[0][:1] in ('4', '5')


# ---------------------------------------------------------------- recording handlers


def _txt(v):
    if isinstance(v, (bytes, bytearray)):
        return bytes(v).decode('latin-1')
    if isinstance(v, dict):
        return ' '.join(_txt(k) + '=' + _txt(x) for k, x in sorted(v.items(), key=repr))
    if isinstance(v, (str, int, bool)) or v is None:
        return str(v)
    return type(v).__name__


class CredCheck(object):
    """Reads the credentials object handed to the application through pysasl's public API."""

    def __init__(self, cid, secret):
        self.cid, self.secret = cid, secret

    def read(self, creds):
        rec = {'type': type(creds).__name__}
        try:
            rec['authcid'] = creds.authcid
            rec['authzid'] = creds.authzid
            try:
                rec['verify_supplied'] = bool(creds.verify(ClearIdentity(self.cid, self.secret, prepare=noprep)))
            except ExternalVerificationRequired as ext:
                # XOAUTH2 / EXTERNAL: pysasl hands the bearer token (or None) to the application this way
                rec['external'] = True
                rec['token'] = ext.token
                return rec
            rec['verify_secret_only'] = bool(creds.verify(ClearIdentity(creds.authcid, self.secret,
                                                                        prepare=noprep)))
            rec['verify_wrong_secret'] = bool(creds.verify(ClearIdentity(creds.authcid, self.secret + '\x01w',
                                                                         prepare=noprep)))
        except Exception as e:          # a harness/pysasl API problem, never a verdict
            rec['api_error'] = repr(e)[:200]
        return rec


class ValidatorDown(Exception):
    """Raised by the scripted application AUTH handler (verdict 'raise')."""


def apply_verdict(reply, verdicts, entry=None):
    v = verdicts.pop(0) if verdicts else '535'
    if entry is not None:
        entry['verdict'] = v
    if v == 'raise':
        raise ValidatorDown('credentials backend unreachable')
    if v == '535':
        reply.code, reply.message = '535', '5.7.8 Authentication credentials invalid'
    elif v == '454':
        reply.code, reply.message = '454', '4.7.0 Temporary authentication failure'
    return v


class Probe(object):
    """Handler object for Server: logs every callback with its arguments and the server's flags then."""

    def __init__(self, verdicts=(), credcheck=None):
        self.trace = []
        self.srv = None
        self.verdicts = list(verdicts)
        self.credcheck = credcheck

    def _rec(self, name, reply, *args):
        s = self.srv
        e = {'cb': name, 'args': [_txt(a) for a in args],
             'enc': bool(s.encrypted), 'io_enc': bool(s.io.encrypted),
             'ehlo_as': s.ehlo_as, 'mailfrom': bool(s.have_mailfrom), 'rcptto': bool(s.have_rcptto),
             'authed': bool(s.authed), 'rbuf': bytes(s.io.recv_buffer)}
        self.trace.append(e)
        return e

    def BANNER_(self, reply):
        self._rec('BANNER_', reply)

    def EHLO(self, reply, ehlo_as):
        self._rec('EHLO', reply, ehlo_as)

    def HELO(self, reply, ehlo_as):
        self._rec('HELO', reply, ehlo_as)

    def STARTTLS(self, reply, extensions):
        self._rec('STARTTLS', reply)

    def TLSHANDSHAKE(self):
        self._rec('TLSHANDSHAKE', None)

    def TLSHANDSHAKE2(self, sock):
        self._rec('TLSHANDSHAKE2', None)

    def AUTH(self, reply, creds):
        e = self._rec('AUTH', reply)
        if self.credcheck is not None:
            e['creds'] = self.credcheck.read(creds)
        apply_verdict(reply, self.verdicts, e)

    def MAIL(self, reply, address, params):
        self._rec('MAIL', reply, address, params)

    def RCPT(self, reply, address, params):
        self._rec('RCPT', reply, address, params)

    def DATA(self, reply):
        self._rec('DATA', reply)

    def HAVE_DATA(self, reply, data, err):
        self._rec('HAVE_DATA', reply, data, type(err).__name__ if err is not None else None)

    def RSET(self, reply):
        self._rec('RSET', reply)

    def NOOP(self, reply):
        self._rec('NOOP', reply)

    def QUIT(self, reply):
        self._rec('QUIT', reply)

    def CLOSE(self):
        self._rec('CLOSE', None)

    def __getattr__(self, name):
        if name.isupper() and name.isalpha():
            def custom(reply=None, arg=None, server=None, *more):
                self._rec(name, reply, arg)
            return custom
        raise AttributeError(name)


class StubQueue(object):
    """Accepts every envelope (only needed so that a completed transaction on the edge target gets its 250)."""

    def __init__(self):
        self.clients = []

    def enqueue(self, envelope):
        self.clients.append(dict(envelope.client))
        return [(envelope, 'stub-id')]


class RecSession(SmtpSession):
    """The stock SmtpSession, only remembering its instances so the harness can read session.auth."""
    instances = []

    def __init__(self, *a, **k):
        super(RecSession, self).__init__(*a, **k)
        RecSession.instances.append(self)


def make_validators(box):
    class V(SmtpValidators):
        def handle_auth(self, reply, creds):
            e = {'cb': 'AUTH', 'session_auth_at_callback': self.session.auth,
                 'security': self.session.security}
            if box['credcheck'] is not None:
                e['creds'] = box['credcheck'].read(creds)
            box['trace'].append(e)
            apply_verdict(reply, box['verdicts'], e)

        def handle_mail(self, reply, sender, params):
            box['trace'].append({'cb': 'MAIL', 'args': [sender]})

        def handle_tls(self):
            box['trace'].append({'cb': 'TLSHANDSHAKE', 'args': []})
    return V


class ServerSession(object):
    """One real server session on a socketpair; self.w is the harness peer."""

    def __init__(self, mode, auth, target='server', verdicts=(), credcheck=None, max_size=None):
        a, b = gsocket.socketpair()
        self.w = Wire(b)
        self.target = target
        self.end = None
        self.srv = None
        self.session = None
        imm = (mode == 'immediate')
        ctx = None if mode == 'notls' else sctx()          # 'notls': a server that cannot do TLS at all
        self.queue = StubQueue()
        if target == 'server':
            self.probe = Probe(verdicts, credcheck)
            self.srv = Server(a, self.probe, address=('127.0.0.1', 4321), auth=auth, context=ctx,
                              tls_immediately=imm)
            self.probe.srv = self.srv
            self.trace = self.probe.trace

            def body():
                try:
                    self.srv.handle()
                finally:
                    try:
                        self.srv.io.socket.close()
                    except Exception:
                        pass
        else:
            self.box = {'trace': [], 'verdicts': list(verdicts), 'credcheck': credcheck}
            self.trace = self.box['trace']
            del RecSession.instances[:]
            edge = SmtpEdge(None, self.queue, validator_class=make_validators(self.box), auth=auth, context=ctx,
                            tls_immediately=imm, session_class=RecSession, max_size=max_size)

            def body():
                try:
                    edge.handle(a, ('127.0.0.1', 4321))
                finally:
                    try:
                        a.close()
                    except Exception:
                        pass

        def run():
            try:
                body()
                self.end = 'returned'
            except ConnectionLost:
                self.end = 'connection-lost'
            except BaseException as e:
                self.end = 'exception:%s:%s' % (type(e).__name__, str(e)[:120])
        self.g = gevent.spawn(run)

    def ended(self):
        return self.g.ready()

    def edge_session(self):
        return RecSession.instances[0] if RecSession.instances else None

    def finish(self):
        self.w.close()
        if not self.g.join(WD) and not self.g.ready():
            self.g.kill(block=False)
            raise Stall('server session did not end within %ss after the peer closed' % WD)
        return self.end


# ---------------------------------------------------------------- workload: STARTTLS boundary

PREFIXES = ['none', 'ehlo', 'ehlo-mail', 'ehlo-mail-rcpt', 'ehlo-auth']
# further prefixes (audit): a completed transaction, RSET after MAIL, a refused AUTH, HELO (after which the
# server no longer knows STARTTLS: refused, nothing to cross)
PREFIXES2 = ['ehlo-txn', 'ehlo-mail-rset', 'ehlo-auth-refused', 'helo']
# spellings of the STARTTLS line itself (the payload follows the line terminator)
VERBS = [b'STARTTLS\r\n', b'starttls\r\n', b'StartTLS  \r\n', b'STARTTLS\n']
# how 'STARTTLS<eol>' + payload is cut into separately sent segments (timing 'pipelined' only)
SEGS = ['mid-verb', 'cr-lf', 'after-eol-1', 'bytewise', 'random-2', 'random-5']
WHOLE_PREFIXES = ['ehlo', 'ehlo-mail', 'ehlo-mail-rcpt', 'ehlo-txn', 'ehlo-mail-rset']
PAYLOADS = ['ehlo', 'mail', 'rcpt', 'noop', 'several', 'partial', 'data', 'junk4k', 'junk-over-recv']
AUTH_MECHS = [b'PLAIN', b'LOGIN', b'CRAM-MD5', b'XOAUTH2', b'EXTERNAL']    # every mechanism pysasl 1.2 ships

SCRIPT_A = [b'EHLO tls.test', b'NOOP', b'MAIL FROM:<tls@x>', b'RSET', b'QUIT']
EXPECT_A = ['EHLO:tls.test', 'NOOP', 'MAIL:tls@x', 'RSET', 'QUIT', 'CLOSE']
SCRIPT_B = [b'NOOP', b'MAIL FROM:<tls@x>', b'RCPT TO:<tlsr@x>', b'DATA', b'EHLO tls.test', b'STARTTLS', b'QUIT']
EXPECT_B = ['NOOP', 'EHLO:tls.test', 'QUIT', 'CLOSE']


def junk(n, rs):
    """n bytes of deterministic junk: lines that look like unknown commands carrying a sentinel, and
    lines of non-command bytes; ends with CRLF."""
    rnd = random.Random(rs)
    out = b''
    k = 0
    while len(out) < n:
        if rnd.random() < 0.5:
            ln = b'XINJ injected.test ' + bytes(rnd.choice(b'abcdefghijklmnopqrstuvwxyz0123456789 <>:@=')
                                                 for _ in range(rnd.randrange(5, 60)))
        else:
            ln = bytes(rnd.choice(b'\x80\x81\xfe\xff#$%&()*+,-./0123456789;~\t ')
                       for _ in range(rnd.randrange(5, 60)))
        out += ln.strip() + b' %d\r\n' % k
        k += 1
    return out[:n - 2] + b'\r\n'


def make_payload(kind, rs):
    if kind == 'none':
        return b''
    if kind == 'ehlo':
        return b'EHLO injected.test\r\n'
    if kind == 'mail':
        return b'MAIL FROM:<inj@x>\r\n'
    if kind == 'rcpt':
        return b'RCPT TO:<inj@x>\r\n'
    if kind == 'noop':
        return b'NOOP\r\n'
    if kind == 'several':
        return b'RSET\r\nEHLO injected.test\r\nMAIL FROM:<inj@x>\r\nRCPT TO:<inj@x>\r\n'
    if kind == 'partial':
        return b'NOOP injected.test'
    if kind == 'data':
        return b'DATA\r\nSubject: inj@x\r\n\r\ninjected.test body\r\n.\r\n'
    if kind == 'auth':
        # a non-plaintext mechanism (allowed in clear): must not authenticate the TLS session either
        return b'AUTH EXTERNAL ' + b64(b'injected.test') + b'\r\n'
    if kind == 'junk4k':
        return junk(4096 - len(b'STARTTLS\r\n'), rs)       # fills the server's recv(4096) exactly
    if kind == 'junk-over-recv':
        return junk(6000, rs)
    raise ValueError(kind)


def tls_cases():
    # before EHLO the server refuses STARTTLS (no handshake, nothing to cross): two representatives only
    for payload in ('noop', 'several'):
        yield {'fam': 'tls', 'mode': 'starttls', 'timing': 'pipelined', 'prefix': 'none', 'payload': payload,
               'script': 'A'}
    for prefix in PREFIXES[1:]:
        yield {'fam': 'tls', 'mode': 'starttls', 'timing': 'pipelined', 'prefix': prefix, 'payload': 'none',
               'script': 'A'}
        yield {'fam': 'tls', 'mode': 'starttls', 'timing': 'pipelined', 'prefix': prefix, 'payload': 'none',
               'script': 'B'}
        for payload in PAYLOADS:
            for timing in ('pipelined', 'after-220'):
                yield {'fam': 'tls', 'mode': 'starttls', 'timing': timing, 'prefix': prefix, 'payload': payload,
                       'script': 'A'}
        yield {'fam': 'tls', 'mode': 'starttls', 'timing': 'pipelined', 'prefix': prefix, 'payload': 'noop',
               'script': 'B'}
    for script in ('A', 'B'):
        yield {'fam': 'tls', 'mode': 'immediate', 'timing': 'before-handshake', 'prefix': 'none',
               'payload': 'none', 'script': script}
    # ---- audit strata
    n = 0
    for prefix in PREFIXES2:
        for script in ('A', 'B'):
            yield {'fam': 'tls', 'mode': 'starttls', 'timing': 'pipelined', 'prefix': prefix, 'payload': 'none',
                   'script': script}
            yield {'fam': 'tls', 'mode': 'starttls', 'timing': 'pipelined', 'prefix': prefix, 'payload': 'several',
                   'script': script}
    for seg in SEGS:
        for payload in ('noop', 'several', 'partial', 'data', 'auth', 'junk4k'):
            if seg == 'bytewise' and payload == 'junk4k':
                continue
            n += 1
            yield {'fam': 'tls', 'mode': 'starttls', 'timing': 'pipelined', 'prefix': PREFIXES[1 + n % 4],
                   'payload': payload, 'script': 'AB'[n % 2], 'seg': seg}
    for verb in VERBS[1:]:
        for payload in ('noop', 'several', 'partial'):
            n += 1
            yield {'fam': 'tls', 'mode': 'starttls', 'timing': 'pipelined', 'prefix': PREFIXES[1 + n % 4],
                   'payload': payload, 'script': 'AB'[n % 2], 'verb': verb}
    for prefix in WHOLE_PREFIXES:
        for payload in ('none', 'noop', 'several', 'rcpt', 'data', 'auth'):
            for script in ('A', 'B'):
                yield {'fam': 'tls', 'mode': 'starttls', 'timing': 'whole-session', 'prefix': prefix,
                       'payload': payload, 'script': script}
    # STARTTLS with an argument is refused (501): no handshake, the payload is ordinary clear-text input
    for payload in ('none', 'noop', 'several'):
        yield {'fam': 'tls', 'mode': 'starttls', 'timing': 'pipelined', 'prefix': 'ehlo-mail', 'payload': payload,
               'script': 'A', 'verb': b'STARTTLS now\r\n'}
    yield {'fam': 'tls', 'mode': 'starttls', 'timing': 'pipelined', 'prefix': 'ehlo-auth', 'payload': 'auth',
           'script': 'A'}
    yield {'fam': 'tls', 'mode': 'starttls', 'timing': 'pipelined', 'prefix': 'ehlo', 'payload': 'auth',
           'script': 'B'}
    for payload in PAYLOADS:
        yield {'fam': 'tls', 'mode': 'immediate', 'timing': 'before-handshake', 'prefix': 'none',
               'payload': payload, 'script': 'A'}


# ---------------------------------------------------------------- workload: AUTH

def b64(b):
    return base64.b64encode(b)


ALPHABETS = {
    'ascii': lambda r: chr(r.randrange(0x21, 0x7f)),
    'bmp': lambda r: chr(r.choice([r.randrange(0xa1, 0x250), r.randrange(0x370, 0x600), r.randrange(0x4e00, 0x9fff),
                                   r.randrange(0xe000, 0xf8ff), r.randrange(0xff00, 0xffee)])),
    'astral': lambda r: chr(r.choice([r.randrange(0x1f300, 0x1f650), r.randrange(0x10000, 0x10080),
                                      r.randrange(0x20000, 0x2a6d0), r.randrange(0xf0000, 0xffffe)])),
    'combining': lambda r: r.choice('aeiounAEO') + chr(r.randrange(0x300, 0x370)),
    'saslprep': lambda r: r.choice(['\u00ad', '\u00a0', '\u2168', '\ufb01', '\u212b', '\u1e9b\u0323', '\u2003', 'I',
                                    '\u0130', '\u00e9', 'e\u0301', '\u200b', '\u3000']),
    'space': lambda r: r.choice([' ', ' ', '\t', 'x', 'Y', '\r', '\x0b', '\x7f', '\x01']),
}
CRED_KINDS = ['ascii', 'bmp', 'astral', 'combining', 'saslprep', 'space', 'mixed', 'long', 'case']


def gen_text(rnd, kind, lo=1):
    if kind == 'long':
        return ''.join(ALPHABETS[rnd.choice(['ascii', 'bmp', 'astral'])](rnd) for _ in range(rnd.randrange(150, 300)))
    if kind == 'case':
        return ''.join(rnd.choice('UsErNaMe@ExAmPlE.CoM\u00c4\u00e4\u00d6\u00f6\u00df\u0130\u0131') for _ in range(rnd.randrange(max(lo, 3), 16)))
    n = rnd.randrange(lo, 13)
    if kind == 'mixed':
        return ''.join(ALPHABETS[rnd.choice(sorted(ALPHABETS))](rnd) for _ in range(n))
    s = ''.join(ALPHABETS[kind](rnd) for _ in range(n))
    if kind == 'space':
        s = rnd.choice([' ', '']) + s + rnd.choice([' ', ''])
    return s or 'x'


def gen_cred(rnd, kind=None, zid=None):
    kind = kind or rnd.choice(CRED_KINDS)
    cid = gen_text(rnd, kind, 1)
    secret = gen_text(rnd, rnd.choice([kind, kind, 'mixed']), 0 if rnd.random() < 0.1 else 1)
    if rnd.random() < 0.05:
        secret = ''
    if zid is None:
        zid = rnd.random() < 0.5
    z = gen_text(rnd, rnd.choice([kind, 'mixed', 'ascii']), 1) if zid else ''
    return {'kind': kind, 'cid': cid, 'secret': secret, 'zid': z}


# shape -> class: 'ok' well-formed (the application is asked), 'bad' malformed (error reply, no callback),
# 'soft' (accepted-as-empty or error, either is fine; must not end the session)
OK_SHAPES = {'PLAIN': ['initial', 'challenge', 'lower-case', 'mixed-case'],
             'LOGIN': ['initial', 'challenge', 'lower-case', 'mixed-case'],
             'CRAM-MD5': ['challenge', 'lower-case'],
             'XOAUTH2': ['initial', 'challenge', 'lower-case', 'mixed-case'],
             'EXTERNAL': ['initial', 'challenge', 'lower-case']}
BAD_SHAPES = {'PLAIN': ['cancel', 'cancel-initial', 'bad-b64-length', 'bad-b64-length-resp', 'bad-b64-illegal-only',
                        'bad-b64-embedded', 'bad-b64-embedded-resp', 'equals', 'empty-response', 'extra-args',
                        'no-nul', 'bad-utf8', 'two-b64-joined', 'raw-8bit-arg'],
              'LOGIN': ['cancel', 'cancel-second', 'cancel-initial', 'bad-b64-length', 'bad-b64-length-resp',
                        'bad-b64-embedded', 'bad-b64-embedded-resp', 'extra-args', 'bad-utf8', 'raw-8bit-resp'],
              'XOAUTH2': ['cancel', 'cancel-initial', 'bad-b64-length', 'bad-b64-embedded', 'bad-b64-embedded-resp',
                          'extra-args', 'no-bearer', 'bad-utf8', 'empty-response', 'equals'],
              'EXTERNAL': ['cancel', 'cancel-initial', 'bad-b64-length', 'bad-b64-embedded', 'extra-args',
                           'bad-utf8'],
              'CRAM-MD5': ['cancel', 'bad-b64-length-resp', 'bad-b64-embedded-resp', 'empty-response', 'no-space',
                           'bad-utf8', 'extra-args'],
              '-': ['bare', 'bare-space', 'unknown-mech', 'unknown-mech-arg', 'mech-junk', 'mech-prefix',
                    'mech-8bit']}
SOFT_SHAPES = {'LOGIN': ['equals', 'empty-response', 'bad-b64-illegal-only'], 'CRAM-MD5': ['initial-unsolicited'],
               'EXTERNAL': ['equals', 'empty-response']}
B64_SHAPES = ('bad-b64-illegal-only', 'bad-b64-embedded', 'bad-b64-embedded-resp', 'extra-args', 'two-b64-joined',
              'raw-8bit-arg', 'raw-8bit-resp')
# 'clear-notls': a server configured without any TLS context (no STARTTLS offered at all)
CHANNELS = ['clear', 'starttls', 'immediate', 'clear-notls']
CLEAR = ('clear', 'clear-notls')
MECHS = ['PLAIN', 'LOGIN', 'CRAM-MD5', 'XOAUTH2', 'EXTERNAL']
GATES = ['before-ehlo', 'after-success', 'in-transaction', 'in-transaction-rcpt', 'retry-535', 'retry-454']
# "AUTH is refused before EHLO": the greeting in force is a HELO (seed C08i) -- HELO only, HELO + more, EHLO then HELO
HELO_GATES = {'helo-only': [b'HELO auth.test'], 'helo-rset': [b'HELO auth.test', b'RSET'],
              'helo-noop': [b'HELO auth.test', b'NOOP'],
              'helo-txn': [b'HELO auth.test', b'MAIL FROM:<h@x>', b'RCPT TO:<hr@x>', b'DATA',
                           b'Subject: h\r\n\r\nhelo body\r\n.'],
              'ehlo-then-helo': [b'EHLO auth.test', b'HELO again.test'], 'helo-helo': [b'HELO a.test', b'HELO b.test']}
# multi-step histories after a successful AUTH, each followed by another AUTH that must still be refused
HISTORY_STEPS = {'ehlo': 'EHLO', 'helo': 'HELO', 'rset': 'RSET', 'transaction': 'transaction', 'starttls': 'STARTTLS'}
PLAINTEXT_MECHS = ('PLAIN', 'LOGIN', 'XOAUTH2')       # the secret / bearer token itself goes over the wire


def shape_class(mech, shape):
    if shape in OK_SHAPES.get(mech, ()):
        return 'ok'
    if shape in SOFT_SHAPES.get(mech, ()):
        return 'soft'
    return 'bad'


def _break_len(s):
    s = s.rstrip(b'=')
    while len(s) % 4 != 1:
        s = s[:-1] if len(s) > 5 else s + b'A'
    return s


def _embed(s):
    return s[:3] + b'!' + s[3:6] + b'\x7f' + s[6:]


def auth_script(mech, shape, cred):
    """(first line, [responses]) -- a response is bytes or a callable(challenge bytes) -> bytes."""
    cid, sec, zid = (cred[k].encode('utf-8') for k in ('cid', 'secret', 'zid'))
    plain = b64(zid + b'\0' + cid + b'\0' + sec)
    bcid, bsec = b64(cid), b64(sec)

    def cram(chal):
        return b64(cid + b' ' + hmac.new(sec, chal, hashlib.md5).hexdigest().encode('ascii'))

    if mech == '-':
        return {'bare': (b'AUTH', []), 'bare-space': (b'AUTH   ', []),
                'unknown-mech': (b'AUTH XUNKNOWN', [b'*']), 'unknown-mech-arg': (b'AUTH XUNKNOWN ' + plain, [b'*']),
                'mech-junk': (b'AUTH @@@ ' + plain, [b'*']), 'mech-prefix': (b'AUTH PLAIN-X ' + plain, [b'*']),
                'mech-8bit': (b'AUTH PL\xc3\x84IN ' + plain, [b'*'])}[shape]
    if mech == 'XOAUTH2':
        xo = b64(b'user=' + cid + b'\x01auth=Bearer ' + sec + b'\x01\x01')
        t = {'initial': (b'AUTH XOAUTH2 ' + xo, []),
             'challenge': (b'AUTH XOAUTH2', [xo]),
             'lower-case': (b'auth xoauth2 ' + xo, []),
             'mixed-case': (b'Auth XOauth2 ' + xo, []),
             'cancel': (b'AUTH XOAUTH2', [b'*']),
             'cancel-initial': (b'AUTH XOAUTH2 *', []),
             'bad-b64-length': (b'AUTH XOAUTH2 ' + _break_len(xo), []),
             'bad-b64-embedded': (b'AUTH XOAUTH2 ' + _embed(xo), []),
             'bad-b64-embedded-resp': (b'AUTH XOAUTH2', [_embed(xo)]),
             'extra-args': (b'AUTH XOAUTH2 ' + xo + b' extra', []),
             'no-bearer': (b'AUTH XOAUTH2 ' + b64(b'user=' + cid + b'\x01auth=Basic ' + sec + b'\x01\x01'), []),
             'bad-utf8': (b'AUTH XOAUTH2 ' + b64(b'user=\xff\xfeu\x01auth=Bearer \xc3\x28\x01\x01'), []),
             'empty-response': (b'AUTH XOAUTH2', [b'']),
             'equals': (b'AUTH XOAUTH2 =', [])}
        return t[shape]
    if mech == 'EXTERNAL':
        t = {'initial': (b'AUTH EXTERNAL ' + bcid, []),
             'challenge': (b'AUTH EXTERNAL', [bcid]),
             'lower-case': (b'auth external ' + bcid, []),
             'cancel': (b'AUTH EXTERNAL', [b'*']),
             'cancel-initial': (b'AUTH EXTERNAL *', []),
             'bad-b64-length': (b'AUTH EXTERNAL ' + _break_len(b64(cid + b'pad')), []),
             'bad-b64-embedded': (b'AUTH EXTERNAL ' + _embed(b64(cid + b'-padding')), []),
             'extra-args': (b'AUTH EXTERNAL ' + bcid + b' extra', []),
             'bad-utf8': (b'AUTH EXTERNAL ' + b64(b'\xff\xfeuser\xc3\x28'), []),
             'equals': (b'AUTH EXTERNAL =', []),
             'empty-response': (b'AUTH EXTERNAL', [b''])}
        return t[shape]
    if mech == 'PLAIN':
        t = {'initial': (b'AUTH PLAIN ' + plain, []),
             'challenge': (b'AUTH PLAIN', [plain]),
             'lower-case': (b'auth plain ' + plain, []),
             'mixed-case': (b'Auth Plain ' + plain, []),
             'raw-8bit-arg': (b'AUTH PLAIN \xff\xfe\x00\xe9' + plain, []),
             'cancel': (b'AUTH PLAIN', [b'*']),
             'cancel-initial': (b'AUTH PLAIN *', []),
             'bad-b64-length': (b'AUTH PLAIN ' + _break_len(plain), []),
             'bad-b64-length-resp': (b'AUTH PLAIN', [_break_len(plain)]),
             'bad-b64-illegal-only': (b'AUTH PLAIN !!!!', []),
             'bad-b64-embedded': (b'AUTH PLAIN ' + _embed(plain), []),
             'bad-b64-embedded-resp': (b'AUTH PLAIN', [_embed(plain)]),
             'equals': (b'AUTH PLAIN =', []),
             'empty-response': (b'AUTH PLAIN', [b'']),
             'extra-args': (b'AUTH PLAIN ' + plain + b' extra', []),
             'no-nul': (b'AUTH PLAIN ' + b64(b'no-nuls-here'), []),
             'bad-utf8': (b'AUTH PLAIN ' + b64(b'\0\xff\xfeuser\0\xc3\x28'), []),
             'two-b64-joined': (b'AUTH PLAIN ' + plain + (b'' if plain.endswith(b'=') else b'=') + plain, [])}
    elif mech == 'LOGIN':
        t = {'initial': (b'AUTH LOGIN ' + bcid, [bsec]),
             'challenge': (b'AUTH LOGIN', [bcid, bsec]),
             'lower-case': (b'auth login', [bcid, bsec]),
             'mixed-case': (b'auTH LoGiN ' + bcid, [bsec]),
             'raw-8bit-resp': (b'AUTH LOGIN', [bcid, b'\xff\xfe\x00\xe9' + bsec]),
             'cancel': (b'AUTH LOGIN', [b'*']),
             'cancel-second': (b'AUTH LOGIN', [bcid, b'*']),
             'cancel-initial': (b'AUTH LOGIN *', [b'*']),
             'bad-b64-length': (b'AUTH LOGIN ' + _break_len(b64(cid + b'pad')), [bsec]),
             'bad-b64-length-resp': (b'AUTH LOGIN', [bcid, _break_len(b64(sec + b'pad'))]),
             'bad-b64-illegal-only': (b'AUTH LOGIN !!!!', [b'*']),
             'bad-b64-embedded': (b'AUTH LOGIN ' + _embed(b64(cid + b'-padding')), [bsec]),
             'bad-b64-embedded-resp': (b'AUTH LOGIN', [bcid, _embed(b64(sec + b'-padding'))]),
             'equals': (b'AUTH LOGIN =', [b'*']),
             'empty-response': (b'AUTH LOGIN', [b'', b'*']),
             'extra-args': (b'AUTH LOGIN ' + bcid + b' extra stuff', [bsec]),
             'bad-utf8': (b'AUTH LOGIN ' + b64(b'\xff\xfeuser'), [bsec])}
    else:
        t = {'challenge': (b'AUTH CRAM-MD5', [cram]),
             'lower-case': (b'auth cram-md5', [cram]),
             'cancel': (b'AUTH CRAM-MD5', [b'*']),
             'bad-b64-length-resp': (b'AUTH CRAM-MD5', [lambda c: _break_len(cram(c))]),
             'bad-b64-embedded-resp': (b'AUTH CRAM-MD5', [lambda c: _embed(cram(c))]),
             'empty-response': (b'AUTH CRAM-MD5', [b'']),
             'no-space': (b'AUTH CRAM-MD5', [b64(b'nospacehere')]),
             'bad-utf8': (b'AUTH CRAM-MD5', [b64(b'\xff\xfeuser 0123456789abcdef0123456789abcdef')]),
             'extra-args': (b'AUTH CRAM-MD5 x y', [b'*']),
             'initial-unsolicited': (b'AUTH CRAM-MD5 ' + cram(b'<made.up@challenge>'), [b'*'])}
    return t[shape]


def good_shape(mech):
    return 'challenge'


def is_clear(channel):
    return channel in CLEAR


def auth_grid(rnd, draws):
    def case(mech, shape, channel, gate='none', verdict='235', target='server', kind=None, authcfg=None):
        c = {'fam': 'auth', 'mech': mech, 'shape': shape, 'channel': channel, 'gate': gate, 'verdict': verdict,
             'target': target, 'cred': gen_cred(rnd, kind)}
        if authcfg:
            c['authcfg'] = authcfg
        return c
    for _ in range(draws):
        for channel in CHANNELS:
            for mech in MECHS:
                for shape in OK_SHAPES[mech]:
                    for verdict in ('235', '535', '454'):
                        for target in ('server', 'edge'):
                            if shape in ('lower-case', 'mixed-case') and (target == 'edge' or verdict == '454'):
                                continue
                            yield case(mech, shape, channel, verdict=verdict, target=target)
                for shape in BAD_SHAPES[mech] + SOFT_SHAPES.get(mech, []):
                    yield case(mech, shape, channel)
                # the application's AUTH handler raises instead of answering
                for target in ('server', 'edge'):
                    yield case(mech, OK_SHAPES[mech][0], channel, verdict='raise', target=target)
            for shape in BAD_SHAPES['-']:
                yield case('-', shape, channel)
            yield case('-', 'bare', channel, target='edge')
            for mech in MECHS:
                if is_clear(channel) and mech in PLAINTEXT_MECHS:
                    continue          # on a clear session these must be refused whatever the gate
                for gate in GATES:
                    for target in ('server', 'edge'):
                        if target == 'edge' and gate in ('in-transaction-rcpt', 'retry-454'):
                            continue
                        yield case(mech, OK_SHAPES[mech][0], channel, gate=gate, target=target)
            for mech in MECHS:
                if is_clear(channel) and mech in PLAINTEXT_MECHS:
                    continue
                for n, gate in enumerate(sorted(HELO_GATES)):
                    yield case(mech, OK_SHAPES[mech][n % 2], channel, gate=gate, target=('server', 'edge')[n % 2])
            # auth=True: the mechanisms pysasl enables by default; the others are then not offered
            for n, mech in enumerate(MECHS):
                yield case(mech, OK_SHAPES[mech][0], channel, authcfg='defaults', target=('server', 'edge')[n % 2])
        # histories after a successful AUTH: <step>, then another AUTH (same / different identity)
        n = 0
        for channel in CHANNELS:
            for step in sorted(HISTORY_STEPS):
                if step == 'starttls' and channel != 'clear':
                    continue          # an upgrade is only possible from a clear session that offers it
                for mech in MECHS:
                    if is_clear(channel) and step != 'starttls' and mech in PLAINTEXT_MECHS:
                        continue      # still clear: PLAIN/LOGIN/XOAUTH2 would be refused for that reason alone
                    for second in ('same', 'different'):
                        for target in ('server', 'edge'):
                            n += 1
                            first = ('CRAM-MD5', 'EXTERNAL')[n % 2] if is_clear(channel) else MECHS[n % 5]
                            yield history_case(rnd, mech, channel, step, first, second, target)
        # every credential kind once through each mechanism on an encrypted channel
        for kind in CRED_KINDS:
            for mech in MECHS:
                yield case(mech, OK_SHAPES[mech][0], 'immediate', kind=kind,
                           target='edge' if kind in ('bmp', 'saslprep') else 'server')


def history_case(rnd, mech, channel, step, first, second, target):
    c = {'fam': 'auth', 'mech': mech, 'shape': OK_SHAPES[mech][0], 'channel': channel, 'gate': 'history-' + step,
         'verdict': '235', 'target': target, 'cred': gen_cred(rnd), 'first_mech': first, 'second': second}
    c['cred2'] = gen_cred(rnd)
    return c


def random_history(rnd):
    channel = rnd.choice(CHANNELS)
    step = rnd.choice(sorted(HISTORY_STEPS) if channel == 'clear' else
                      [k for k in sorted(HISTORY_STEPS) if k != 'starttls'])
    if is_clear(channel) and step != 'starttls':
        mech = rnd.choice(['CRAM-MD5', 'EXTERNAL'])
    else:
        mech = rnd.choice(MECHS)
    first = rnd.choice(['CRAM-MD5', 'EXTERNAL']) if is_clear(channel) else rnd.choice(MECHS)
    c = history_case(rnd, mech, channel, step, first, rnd.choice(['same', 'different']),
                     rnd.choice(['server', 'edge']))
    c['shape'] = rnd.choice(OK_SHAPES[mech])
    return c


def random_auth(rnd):
    if rnd.random() < 0.15:
        return random_history(rnd)
    mech = rnd.choice(['PLAIN', 'PLAIN', 'LOGIN', 'LOGIN', 'CRAM-MD5', 'XOAUTH2', 'EXTERNAL', '-'])
    if mech == '-':
        shape = rnd.choice(BAD_SHAPES['-'])
    else:
        pool = OK_SHAPES[mech] * 3 + BAD_SHAPES[mech] + SOFT_SHAPES.get(mech, [])
        shape = rnd.choice(pool)
    channel = rnd.choice(CHANNELS)
    gate = 'none'
    if shape_class(mech, shape) == 'ok' and rnd.random() < 0.35 and not (is_clear(channel) and
                                                                        mech in PLAINTEXT_MECHS):
        gate = rnd.choice(GATES + sorted(HELO_GATES))
    verdict = rnd.choice(['235', '235', '535', '454', 'raise'])
    if verdict == 'raise' and (gate != 'none' or shape_class(mech, shape) != 'ok'):
        verdict = '535'
    c = {'fam': 'auth', 'mech': mech, 'shape': shape, 'channel': channel, 'gate': gate,
         'verdict': verdict, 'target': rnd.choice(['server', 'server', 'edge']),
         'cred': gen_cred(rnd)}
    if rnd.random() < 0.08:
        c['authcfg'] = 'defaults'
    return c


# ---------------------------------------------------------------- workload: client

CLIENT_PAYLOADS = {
    'none': b'',
    'one-reply': b'250 injected\r\n',
    'fake-ehlo': b'250-injected.test\r\n250-XINJECTED\r\n250 AUTH PLAIN LOGIN\r\n',
    'open-multiline': b'250-injected.test\r\n250-XINJECTED\r\n',
    'partial-line': b'250 injected',
    'error-reply': b'535 5.7.8 injected\r\n',
    'three-replies': b'250 injected one\r\n250 injected two\r\n550 injected three\r\n',
    'not-a-reply': b'injected garbage, not a reply\r\n',
}
CLIENT_TLS_ANSWERS = {b'EHLO': b'250-tls.inside\r\n250 8BITMIME\r\n', b'NOOP': b'250 2.0.0 tls-noop-ok\r\n',
                      b'MAIL': b'250 2.1.0 tls-mail-ok\r\n', b'RSET': b'250 2.0.0 tls-rset-ok\r\n',
                      b'QUIT': b'221 2.0.0 tls-bye\r\n'}


def client_cases():
    for name in sorted(CLIENT_PAYLOADS):
        yield {'fam': 'client', 'payload': name, 'timing': 'same-segment'}
        if name != 'none':
            yield {'fam': 'client', 'payload': name, 'timing': 'next-segment'}
            yield {'fam': 'client', 'payload': name, 'timing': 'during-handshake'}


# ---------------------------------------------------------------- workload: offer over histories

OFFER_STEPS_TLS = ['ehlo', 'helo', 'rset', 'noop', 'txn', 'rcpt-refused', 'unknown', 'auth-ok', 'auth-fail', 'starttls']
OFFER_STEPS_CLEAR = ['ehlo', 'helo', 'rset', 'noop', 'txn', 'rcpt-refused', 'unknown', 'auth-ok', 'auth-fail',
                     'starttls-arg']
OFFER_MODES_TLS = ['starttls', 'immediate']
OFFER_MODES_CLEAR = ['clear', 'clear-refused', 'notls']
NOFFER = {'quick': 160, 'thorough': 2500}
EDGE_MAX_SIZE = 123456


def offer_cases(tier, rr):
    def case(mode, steps, target='server'):
        return {'fam': 'offer', 'mode': mode, 'steps': list(steps), 'target': target}
    for mode in OFFER_MODES_TLS:
        yield case(mode, [])
        for a in OFFER_STEPS_TLS:
            yield case(mode, [a])
            for b in OFFER_STEPS_TLS:
                yield case(mode, [a, b], 'edge' if (len(a) + len(b)) % 4 == 0 else 'server')
        for seq in (['helo', 'ehlo'], ['helo', 'ehlo', 'starttls'], ['helo', 'rset', 'ehlo'], ['helo', 'txn', 'ehlo'],
                    ['ehlo', 'helo', 'ehlo', 'helo', 'ehlo'], ['auth-ok', 'helo', 'ehlo'], ['helo', 'helo', 'ehlo']):
            for target in ('server', 'edge'):
                yield case(mode, seq, target)
    for mode in OFFER_MODES_CLEAR:
        yield case(mode, [])
        for a in OFFER_STEPS_CLEAR:
            yield case(mode, [a], 'edge' if len(a) % 2 else 'server')
            for b in ('ehlo', 'helo', 'rset', 'txn', 'starttls-arg'):
                yield case(mode, [a, b])
        for seq in (['helo', 'ehlo'], ['helo', 'rset', 'ehlo'], ['rset', 'ehlo', 'rset', 'ehlo'], ['txn', 'ehlo', 'txn']):
            yield case(mode, seq, 'edge')
    for _ in range(NOFFER[tier]):
        if rr.random() < 0.65:
            mode, alpha = rr.choice(OFFER_MODES_TLS), OFFER_STEPS_TLS
        else:
            mode, alpha = rr.choice(OFFER_MODES_CLEAR), OFFER_STEPS_CLEAR
        # hello commands are what moves the offer: weight them
        pool = alpha + ['ehlo', 'helo', 'helo']
        yield case(mode, [rr.choice(pool) for _ in range(rr.randrange(3, 6))], rr.choice(['server', 'server', 'edge']))


# ---------------------------------------------------------------- workload: empty SASL responses

EMPTY_VARIANTS = ['no-initial', 'initial-equals', 'empty-line', 'equals-response']
SASL_STEPS = {'PLAIN': 1, 'LOGIN': 2, 'CRAM-MD5': 1, 'XOAUTH2': 1, 'EXTERNAL': 1}     # responses the mechanism needs
FOLLOWUPS = [[b'RSET', b'NOOP', b'MAIL FROM:<after@x>'], [b'NOOP', b'MAIL FROM:<after@x>', b'RSET'],
             [b'MAIL FROM:<after@x>', b'RSET', b'NOOP'], [b'RSET'], [b'NOOP', b'NOOP']]


def empty_cases(rnd):
    n = 0
    for channel in ('clear', 'starttls', 'immediate', 'clear-notls'):
        for mech in MECHS:
            for variant in EMPTY_VARIANTS:
                for pos in ((1, 2) if mech == 'LOGIN' and variant in ('empty-line', 'equals-response') else (1,)):
                    for target in ('server', 'edge'):
                        for verdict in ('235', '535'):
                            n += 1
                            if channel == 'clear-notls' and n % 3:
                                continue
                            yield {'fam': 'empty', 'mech': mech, 'variant': variant, 'pos': pos, 'channel': channel,
                                   'target': target, 'verdict': verdict, 'follow': n % len(FOLLOWUPS),
                                   'cred': gen_cred(rnd, rnd.choice(['ascii', 'bmp', 'mixed', 'space']))}


# ---------------------------------------------------------------- generator

def gen_cases(tier, seed, shard, nshards):
    rnd = random.Random('c08-grid-%d' % seed)
    cases = list(tls_cases()) + list(client_cases()) + list(relay_cases(tier)) + list(auth_grid(rnd, CRED_DRAWS[tier]))
    rr = random.Random('c08-rand-%d' % seed)
    tl = list(tls_cases())
    for i in range(NRANDOM[tier]):
        if rr.random() < 0.25:
            c = dict(rr.choice(tl))
        else:
            c = random_auth(rr)
        cases.append(c)
    cases.extend(offer_cases(tier, random.Random('c08-offer-%d' % seed)))
    re_ = random.Random('c08-empty-%d' % seed)
    for _ in range(1 if tier == 'quick' else 4):
        cases.extend(empty_cases(re_))
    for n, c in enumerate(cases):
        if n % nshards == shard:
            c['rs'] = (seed * 1000003 + n) & 0x7fffffff
            yield c


# ---------------------------------------------------------------- run: STARTTLS boundary

def sig(e):
    if e['cb'] in ('EHLO', 'HELO', 'MAIL', 'RCPT') and e['args']:
        return e['cb'] + ':' + e['args'][0]
    return e['cb']


def has_sentinel(text):
    return any(s in text for s in SENTINELS)


def do_auth_ok(w):
    """A successful CRAM-MD5 exchange in the prefix (not a plain-text mechanism, so allowed in clear)."""
    r = w.cmd(b'AUTH CRAM-MD5')
    if code(r) != '334':
        return r
    chal = base64.b64decode(r[1][0])
    return w.cmd(b64(b'prefix-user ' + hmac.new(b'prefix-secret', chal, hashlib.md5).hexdigest().encode()))


PREFIX_STEPS = {'none': [], 'ehlo': [b'EHLO pre.test'], 'ehlo-mail': [b'EHLO pre.test', b'MAIL FROM:<pre@x>'],
                'ehlo-mail-rcpt': [b'EHLO pre.test', b'MAIL FROM:<pre@x>', b'RCPT TO:<prer@x>'],
                'ehlo-auth': [b'EHLO pre.test', 'auth'],
                'ehlo-txn': [b'EHLO pre.test', b'MAIL FROM:<pre@x>', b'RCPT TO:<prer@x>', b'DATA',
                             b'Subject: pre\r\n\r\npre body\r\n.'],
                'ehlo-mail-rset': [b'EHLO pre.test', b'MAIL FROM:<pre@x>', b'RSET'],
                'ehlo-auth-refused': [b'EHLO pre.test', b'AUTH PLAIN ' + base64.b64encode(b'\0pre\0pw')],
                'helo': [b'HELO pre.test']}


def prefix_want(s):
    if s == 'auth':
        return '235'
    if s == b'DATA':
        return '354'
    if s.startswith(b'AUTH PLAIN'):
        return '504'
    return '250'


def run_prefix(w, prefix):
    """Returns None if every prefix command was answered as expected, else a description."""
    for s in PREFIX_STEPS[prefix]:
        r = do_auth_ok(w) if s == 'auth' else w.cmd(s)
        if code(r) != prefix_want(s):
            return 'prefix step %r answered %r' % (s, r)
    return None


def cut_points(seg, verb, blob, rs):
    """Offsets at which verb+payload is cut into separately sent segments."""
    n, v = len(blob), len(verb)
    if seg == 'mid-verb':
        pts = [4]
    elif seg == 'cr-lf':
        pts = [v - 1]                 # between CR and LF (or just before a bare LF)
    elif seg == 'after-eol-1':
        pts = [v + 1]                 # the line, plus ONE byte of the payload; the rest later
    elif seg == 'bytewise':
        pts = list(range(1, min(n, 80)))
    else:
        rnd = random.Random('cut-%s-%d' % (seg, rs))
        pts = [rnd.randrange(1, n) for _ in range(int(seg.split('-')[1]))] if n > 1 else []
    return sorted(set(p for p in pts if 0 < p < n))


def run_tls_case(case, R):
    mode, timing, prefix, pk, script = (case[k] for k in ('mode', 'timing', 'prefix', 'payload', 'script'))
    payload = make_payload(pk, case.get('rs', 0))
    verb, seg = case.get('verb', VERBS[0]), case.get('seg')
    key = ('tls', prefix, pk, mode, timing, script)
    if seg or verb != VERBS[0]:
        key += (seg, verb)
    R.observe('tls-case', key)
    S = ServerSession(mode, AUTH_MECHS, 'server', verdicts=['235'])
    w = S.w
    R.eval()
    out = {'case': key, 'outcome': None}
    hs = None
    if mode == 'immediate':
        if payload:
            w.send(payload)
        hs = w.handshake()
        if hs:
            ban = w.reply()
            if code(ban) != '220':
                S.finish()
                return R.inconclusive('immediate TLS: no banner after handshake')
    else:
        ban = w.reply()
        if code(ban) != '220':
            S.finish()
            return R.inconclusive('no banner')
        if timing == 'whole-session':
            # banner read, then EVERYTHING in one segment: prefix commands, STARTTLS, payload
            steps = PREFIX_STEPS[prefix]
            w.send(b''.join(st + b'\r\n' for st in steps) + verb + payload)
            for st in steps:
                r = w.reply()
                if code(r) != prefix_want(st):
                    S.finish()
                    return R.inconclusive('pipelined session prefix not accepted: %r -> %r' % (st, r))
            R.hit('whole-session-in-one-segment')
        else:
            bad = run_prefix(w, prefix)
            if bad:
                S.finish()
                return R.inconclusive('session prefix not accepted: ' + bad[:80])
            blob = verb + (payload if timing == 'pipelined' else b'')
            if seg:
                pts = cut_points(seg, verb, blob, case.get('rs', 0))
                pieces = [blob[a:b] for a, b in zip([0] + pts, pts + [len(blob)])]
                R.observe('tls-segmentation', (seg, min(len(pieces), 6)))
                for i, piece in enumerate(pieces):
                    if not w.send(piece):
                        break
                    if i + 1 < len(pieces):
                        gevent.sleep(0.0005)          # let the server greenlet take the segment
                R.hit('starttls-line-segmented')
            else:
                w.send(blob)
            if verb != VERBS[0]:
                R.hit('starttls-line-respelled')
        r = w.reply()
        if prefix == 'helo':
            R.hit('starttls-after-helo-only-checked')
            if code(r) == '220':
                R.violation('server/starttls-accepted-after-helo-only', 'prefix=helo payload=%s: STARTTLS after a HELO-only '
                            'greeting answered %r' % (pk, r), {'case': case, 'wire': w.log[:12]})
        if code(r) != '220':
            # refusing STARTTLS (e.g. before EHLO, or a server that refuses it with pending input) keeps
            # the boundary trivially: nothing is encrypted afterwards
            out['outcome'] = 'starttls-refused:%s' % code(r)
            R.observe('tls-outcome', (prefix, out['outcome']))
            R.hit('starttls-refused')
            S.finish()
            enc = [sig(e) for e in S.trace if e['enc']]
            if enc:
                R.violation('unclassified/encrypted-callback-without-handshake', 'callbacks report an encrypted '
                            'session although STARTTLS was refused', {'trace': S.trace, 'wire': w.log})
            return
        if timing == 'after-220' and payload:
            w.send(payload)
        hs = w.handshake()
    # counted as non-trivial only once a handshake was really attempted with plaintext pending / a prefix state
    if payload or (script == 'B' and prefix != 'none'):
        R.nontrivial(key)

    if not hs:
        # the TLS layer of the server (or the harness) refused: the session must be over, nothing of the
        # injected bytes may have been executed
        end = S.finish()
        out['outcome'] = 'handshake-failed'
        R.observe('tls-outcome', (mode, timing, 'handshake-failed', end))
        if not payload:
            return R.inconclusive('handshake failed without any injected plaintext')
        R.hit('handshake-refused-plaintext')
        R.hit('sentinel-callbacks-checked')
        bad = [e for e in S.trace if has_sentinel(' '.join(e['args']))]
        enc = [e for e in S.trace if e['enc'] and e['cb'] != 'CLOSE']
        if bad or enc:
            R.violation('unclassified/%s-%s/callback-after-failed-handshake' % (mode, timing),
                        'handshake failed, yet callbacks carry injected arguments or report encryption: %s'
                        % [sig(e) for e in bad + enc][:6], {'trace': S.trace, 'wire': w.log, 'end': end})
        return

    # ---- inside TLS
    cmds = SCRIPT_A if script == 'A' else SCRIPT_B
    sent, replies, by_cmd = 0, [], {}
    starttls_again = None
    for c in cmds:
        if not w.send(c + b'\r\n'):
            break
        sent += 1
        r = w.reply()
        if r is None:
            break
        replies.append(r)
        by_cmd[c] = r
        if code(r) == '354':
            # the server opened a message body although no transaction may be open (the 354 may show up one
            # command late when an injected command shifted the replies): finish the body so nothing hangs
            w.send(b'tls-body\r\n.\r\n')
            sent += 1
            r2 = w.reply()
            if r2 is None:
                break
            replies.append(r2)
        if c == b'STARTTLS' and code(r) == '220':
            starttls_again = r
            break                      # the server now expects a second handshake; stop here
    extra = []
    if starttls_again is None:
        while True:
            r = w.reply()
            if r is None:
                break
            extra.append(r)
    end = S.finish()
    out['outcome'] = 'handshake-ok'
    R.observe('tls-outcome', (mode, timing, 'handshake-ok'))
    trace = S.trace
    hs_ev = [e for e in trace if e['cb'] == 'TLSHANDSHAKE']
    buffered = hs_ev[0]['rbuf'] if hs_ev else None
    enc_sigs = [sig(e) for e in trace if e['enc'] and e['cb'] not in ('TLSHANDSHAKE', 'TLSHANDSHAKE2')]
    if mode == 'immediate':
        enc_sigs = [s for s in enc_sigs if s != 'BANNER_']
    all_replies = replies + extra
    wit = {'case': case, 'payload': payload[:300], 'payload_len': len(payload),
           'recv_buffer_at_TLSHANDSHAKE_callback': None if buffered is None else buffered[:200],
           'tls_commands_sent': [c for c in cmds][:sent], 'tls_replies': all_replies[:40],
           'n_tls_replies': len(all_replies), 'n_tls_commands': sent,
           'callbacks': [[sig(e), 'enc' if e['enc'] else 'clear'] for e in trace][:60], 'end': end}

    broken = []
    if starttls_again is None:
        R.hit('tls-reply-count-compared')
        if len(all_replies) != sent:
            broken.append('tls-reply-count: %d replies over TLS for %d commands sent over TLS'
                          % (len(all_replies), sent))
    R.hit('tls-first-reply-checked')
    first = replies[0] if replies else None
    if script == 'A':
        if not (code(first) == '250' and first[1][0] == 'Hello tls.test' and len(first[1]) > 1):
            broken.append('first-tls-reply: EHLO tls.test sent first inside TLS was answered %r' % (first,))
    else:
        if not (code(first) == '250' and len(first[1]) == 1):
            broken.append('first-tls-reply: NOOP sent first inside TLS was answered %r' % (first,))
    R.hit('sentinel-callbacks-checked')
    sent_cb = [[sig(e), 'enc' if e['enc'] else 'clear'] for e in trace if has_sentinel(' '.join(e['args']))]
    if sent_cb:
        broken.append('sentinel-callback: callbacks carry injected arguments: %s' % sent_cb[:5])
    R.hit('encrypted-callback-trace-compared')
    expect = list(EXPECT_A if script == 'A' else EXPECT_B)
    state_viol = []
    if script == 'B':
        # reply-based state clauses need replies aligned with commands: skipped when the injection clauses
        # already failed (an executed injected command shifts every reply by one)
        aligned = not broken and (not payload or enc_sigs == expect)
        state_viol = judge_state(case, by_cmd if aligned else {}, trace, enc_sigs, R)
        # callbacks that the state clauses already account for are not reported twice
        tolerated = set(['MAIL:tls@x', 'RCPT:tlsr@x', 'DATA', 'HAVE_DATA', 'STARTTLS']) if state_viol else set()
        cmp_sigs = [s for s in enc_sigs if s not in tolerated]
    else:
        cmp_sigs = enc_sigs
        if not broken and code(first) == '250':
            R.hit('starttls-offer-after-handshake-checked')
            if any(ln.upper().split()[:1] == ['STARTTLS'] for ln in first[1][1:]):
                state_viol.append((M_SRV_OFFER, 'EHLO inside TLS still lists STARTTLS: %r' % (first,)))
    if cmp_sigs != expect and starttls_again is None:
        broken.append('encrypted-callbacks: callbacks with encrypted=True were %s, the TLS commands cause %s'
                      % (cmp_sigs[:12], expect))
    shown = [r for r in all_replies if has_sentinel(' '.join(r[1]))]
    if shown:
        broken.append('injected-answered-in-tls: TLS replies mention injected text: %s' % shown[:3])

    if broken:
        if mode == 'starttls' and timing in ('pipelined', 'whole-session') and payload and buffered:
            mech = M_SRV_BUF
        else:
            mech = 'unclassified/%s-%s%s/%s' % (mode, timing, '' if payload else '-no-payload',
                                                broken[0].split(':')[0])
        wit['clauses'] = broken
        R.violation(mech, 'prefix=%s payload=%s %s/%s script %s: %s'
                    % (prefix, pk, mode, timing, script, '; '.join(b[:160] for b in broken)[:420]), wit)
    for mech, what in state_viol:
        R.violation(mech, 'prefix=%s payload=%s script B: %s' % (prefix, pk, what), wit)
    if not broken and not state_viol and payload and case.get('rs', 0) % 5 == 0:
        R.sample({'case': case, 'outcome': out['outcome'], 'tls_replies': all_replies[:8],
                  'callbacks': wit['callbacks']})


def judge_state(case, by_cmd, trace, enc_sigs, R):
    """(b) state after the handshake, before any new EHLO.  Returns [(mechanism, text)]."""
    R.hit('post-handshake-state-probed')
    v = []
    noop = [e for e in trace if e['cb'] == 'NOOP' and e['enc']]
    snap = noop[0] if noop else None
    if case['mode'] == 'starttls':
        if snap is not None and (snap['mailfrom'] or snap['rcptto']):
            v.append((M_SRV_TXN, 'after the handshake have_mailfrom=%s have_rcptto=%s (read at the first callback '
                      'inside TLS)' % (snap['mailfrom'], snap['rcptto'])))
        if snap is not None and snap['ehlo_as']:
            v.append((M_SRV_EHLO, 'after the handshake ehlo_as=%r is still set' % snap['ehlo_as']))
        m = by_cmd.get(b'MAIL FROM:<tls@x>')
        if m is not None and not is_err(m):
            v.append((M_SRV_EHLO, 'MAIL inside TLS without a new EHLO answered %r' % (m,)))
        r = by_cmd.get(b'RCPT TO:<tlsr@x>')
        if r is not None and not is_err(r) and is_err(m):
            v.append((M_SRV_TXN, 'RCPT inside TLS without EHLO/MAIL answered %r (transaction opened before '
                      'STARTTLS is still open)' % (r,)))
        d = by_cmd.get(b'DATA')
        if d is not None and not is_err(d) and is_err(m):
            v.append((M_SRV_TXN, 'DATA inside TLS without EHLO/MAIL/RCPT answered %r' % (d,)))
    e = by_cmd.get(b'EHLO tls.test')
    if e is not None and code(e) == '250' and any(ln.upper().split()[:1] == ['STARTTLS'] for ln in e[1][1:]):
        v.append((M_SRV_OFFER, 'EHLO inside TLS still lists STARTTLS: %r' % (e,)))
    s = by_cmd.get(b'STARTTLS')
    if s is not None and not is_err(s):
        v.append((M_SRV_TWICE, 'a second STARTTLS inside TLS answered %r' % (s,)))
    # de-duplicate by mechanism, keep the first text
    seen, out = set(), []
    for mech, what in v:
        if mech not in seen:
            seen.add(mech)
            out.append((mech, '; '.join(w for m2, w in v if m2 == mech)[:400]))
    return out


# ---------------------------------------------------------------- run: AUTH

def exchange(w, first, responses):
    """Send the AUTH line, answer 334 challenges from `responses` (then cancel); returns the reply to the
    AUTH line itself and the final (non-334) reply."""
    responses = list(responses)
    steps = []
    r = w.cmd(first)
    steps.append([first, r])
    first_reply = r
    guard = 0
    while code(r) == '334' and guard < 6:
        guard += 1
        resp = responses.pop(0) if responses else b'*'
        if callable(resp):
            try:
                chal = base64.b64decode(r[1][0])
            except Exception:
                chal = b''
            resp = resp(chal)
        r = w.cmd(resp)
        steps.append([resp, r])
    return {'first': first_reply, 'final': r, 'steps': steps}


def run_auth_case(case, R):
    mech, shape, channel, gate, verdict, target = (case[k] for k in ('mech', 'shape', 'channel', 'gate', 'verdict',
                                                                      'target'))
    cred = case['cred']
    cred2 = case.get('cred2')
    if 'XOAUTH2' in (mech, case.get('first_mech')):
        # the XOAUTH2 wire format cannot carry ^A or a line feed inside the user name / token
        def clean(c):
            return dict(c, **dict((k, c[k].replace('\x01', '?').replace('\n', '?')) for k in ('cid', 'secret', 'zid')))
        cred, cred2 = clean(cred), (clean(cred2) if cred2 else None)
    klass = shape_class(mech, shape)
    authcfg = case.get('authcfg', 'list')
    hist = gate[len('history-'):] if gate.startswith('history-') else None
    key = ('auth', mech, shape, channel, gate, verdict, target, cred['kind'], bool(cred['zid']),
           case.get('first_mech'), case.get('second'))
    if authcfg != 'list':
        key += (authcfg,)
    R.observe('auth-case', key[:7] + (authcfg,))
    R.observe('credential', (cred['cid'], cred['secret'], cred['zid']))
    happy = klass == 'ok' and verdict == '235' and gate == 'none' and channel != 'clear' and shape != 'lower-case'
    if not happy:
        R.nontrivial(key)
    verdicts = {'none': [verdict], 'before-ehlo': [verdict], 'after-success': ['235', verdict],
                'in-transaction': [verdict], 'in-transaction-rcpt': [verdict],
                'retry-535': ['535', '235'], 'retry-454': ['454', '235']}.get(gate, ['235', verdict])
    S = ServerSession({'immediate': 'immediate', 'clear-notls': 'notls'}.get(channel, 'starttls'),
                      True if authcfg == 'defaults' else AUTH_MECHS, target,
                      verdicts=verdicts, credcheck=CredCheck(cred['cid'], cred['secret']))
    w = S.w
    R.eval()
    encrypted = not is_clear(channel)
    not_offered = False

    def abort(why):
        try:
            S.finish()
        except Stall:
            pass
        R.inconclusive('auth set-up: ' + why)

    if channel == 'immediate' and not w.handshake():
        return abort('immediate handshake failed')
    if code(w.reply()) != '220':
        return abort('no banner')
    ehlo = None
    if channel == 'starttls':
        if code(w.cmd(b'EHLO pre.test')) != '250' or code(w.cmd(b'STARTTLS')) != '220' or not w.handshake():
            return abort('STARTTLS set-up failed')
    if gate in HELO_GATES:
        for st in HELO_GATES[gate]:
            r = w.cmd(st)
            if code(r) != ('354' if st == b'DATA' else '250'):
                return abort('greeting-history step %r answered %r' % (st, r))
        R.hit('auth-after-helo-greeting-driven')
        R.observe('auth-after-helo', (gate, channel, mech, target))
    elif not (gate == 'before-ehlo'):
        ehlo = w.cmd(b'EHLO auth.test')
        if code(ehlo) != '250':
            return abort('EHLO refused')
        offered = [ln for ln in ehlo[1] if ln.upper().startswith('AUTH')]
        R.observe('auth-offer', (channel, tuple(offered)))
        if channel == 'clear-notls':
            R.hit('server-without-tls-context')
            if any(ln.upper().split()[:1] == ['STARTTLS'] for ln in ehlo[1][1:]):
                return abort('server without a TLS context offers STARTTLS')
        if mech != '-' and not any(mech in ln.upper().split() for ln in offered):
            # a mechanism this configuration does not offer: the AUTH line is as good as an unknown mechanism
            R.observe('mechanism-not-offered', (channel, mech, authcfg))
            R.hit('mechanism-not-offered')
            not_offered = True
            klass = 'bad'
            if gate != 'none':
                try:
                    S.finish()
                except Stall:
                    pass
                return
    if gate in ('in-transaction', 'in-transaction-rcpt'):
        if code(w.cmd(b'MAIL FROM:<txn@x>')) != '250':
            return abort('MAIL refused')
        if gate == 'in-transaction-rcpt' and code(w.cmd(b'RCPT TO:<txnr@x>')) != '250':
            return abort('RCPT refused')

    def n_auth():
        return sum(1 for e in S.trace if e['cb'] == 'AUTH')

    def authed():
        if target == 'server':
            return bool(S.srv.authed)
        s = S.edge_session()
        return None if s is None else s.auth

    exs = []
    pre = None
    first_identity = None
    cred_used = cred
    if hist:
        # history: a successful AUTH (first identity), one more step, then the AUTH under test
        g1, g2 = auth_script(case['first_mech'], 'challenge', cred)
        pre = exchange(w, g1, g2)
        if code(pre['final']) != '235':
            return abort('history: the first AUTH (%s) was not accepted: %r' % (case['first_mech'], pre['final']))
        first_identity = authed()
        if hist == 'ehlo':
            ok = code(w.cmd(b'EHLO again.test')) == '250'
        elif hist == 'helo':
            ok = code(w.cmd(b'HELO again.test')) == '250'
        elif hist == 'rset':
            ok = code(w.cmd(b'RSET')) == '250'
        elif hist == 'transaction':
            ok = (code(w.cmd(b'MAIL FROM:<txn@x>')) == '250' and code(w.cmd(b'RCPT TO:<txnr@x>')) == '250' and
                  code(w.cmd(b'DATA')) == '354' and code(w.cmd(b'Subject: t\r\n\r\nbody\r\n.')) == '250')
        else:
            ok = (code(w.cmd(b'STARTTLS')) == '220' and w.handshake() and code(w.cmd(b'EHLO tls.test')) == '250')
            encrypted = True
        if not ok:
            return abort('history step %s not accepted' % hist)
        if case['second'] == 'different':
            cred_used = cred2
    first_line, responses = auth_script(mech, shape, cred_used)
    if gate == 'after-success':
        g1, g2 = auth_script(mech, good_shape(mech), cred)
        pre = exchange(w, g1, g2)
        if code(pre['final']) != '235':
            if not encrypted and mech in PLAINTEXT_MECHS:
                return abort('no successful AUTH possible on this channel')
            exs.append(pre)
    calls_before = n_auth()
    authed_before = authed()
    ex = exchange(w, first_line, responses)
    exs.append(ex)
    ex2 = None
    if gate in ('retry-535', 'retry-454') and ex['final'] is not None:
        ex2 = exchange(w, first_line, responses)
        exs.append(ex2)
    calls_after = n_auth()
    authed_after = authed()
    ended_before_noop = S.ended()
    noop = w.cmd(b'NOOP') if ex['final'] is not None else None
    alive = code(noop) == '250' and not S.ended()
    # edge target: what identity / protocol does the NEXT message's envelope carry (envelope.client)?
    env_client, env_steps = None, None
    if target == 'edge' and alive and (hist or gate in ('none', 'after-success', 'retry-535', 'retry-454')):
        env_steps = [w.cmd(c) for c in (b'MAIL FROM:<env@x>', b'RCPT TO:<envr@x>', b'DATA')]
        if [code(r) for r in env_steps] == ['250', '250', '354']:
            n_before = len(S.queue.clients)
            env_steps.append(w.cmd(b'Subject: env\r\n\r\nenv body\r\n.'))
            if code(env_steps[-1]) == '250' and len(S.queue.clients) == n_before + 1:
                env_client = S.queue.clients[-1]
        elif code(env_steps[-1]) == '354':
            w.cmd(b'.')
    quit_ = w.cmd(b'QUIT') if noop is not None else None
    end = S.finish()
    calls = [e for e in S.trace if e['cb'] == 'AUTH']
    wit = {'case': case, 'auth_line': first_line, 'exchanges': [e['steps'] for e in exs], 'noop': noop, 'quit': quit_,
           'auth_callbacks': calls, 'authed_before': authed_before, 'authed_after': authed_after,
           'session_ended_before_noop': ended_before_noop, 'handle_end': end, 'supplied': cred,
           'first_identity': first_identity, 'envelope_client': env_client, 'envelope_steps': env_steps}
    desc = '%s/%s on %s gate=%s verdict=%s target=%s' % (mech, shape, channel, gate, verdict, target)
    if authcfg != 'list':
        desc += ' auth=True'
    if not_offered:
        desc += ' (mechanism not offered by this configuration)'
    if hist:
        desc += ' (first AUTH %s, second identity %s)' % (case['first_mech'], case['second'])
    final, first = ex['final'], ex['first']
    new_calls = calls_after - calls_before

    def V(mechanism, what):
        R.violation(mechanism, desc + ': ' + what, wit)

    # ---- the identity the edge hands on with the next message: the accepted one, or none
    if env_client is not None:
        R.hit('edge-envelope-identity-checked')
        accepted = [e for e in calls if e.get('verdict') == '235']
        if hist:
            want_auth = first_identity
        elif accepted and klass == 'ok':
            want_auth = ident_of(mech, cred)
        elif accepted:
            # a 'soft' shape (e.g. an empty EXTERNAL identity): whatever the application was shown and accepted
            shown = accepted[-1].get('creds', {})
            want_auth = (shown.get('authcid'), shown.get('authzid'))
        else:
            want_auth = None
        want_proto = 'ESMTP' + ('S' if encrypted else '') + ('A' if want_auth else '')
        got_auth = env_client.get('auth')
        got_auth = tuple(got_auth) if isinstance(got_auth, (list, tuple)) else got_auth
        if got_auth != want_auth:
            if hist:
                m_env = M_AUTH_AFTER_OK + '/after-' + HISTORY_STEPS[hist]      # the second AUTH replaced the identity
            elif gate == 'after-success' and len(accepted) > 1:
                m_env = M_AUTH_AFTER_OK
            else:
                m_env = M_AUTH_EARLY if (got_auth and not accepted) else M_AUTH_CREDS
            V(m_env,
              'the envelope of the next message carries client auth %r, the application accepted %r'
              % (got_auth, want_auth))
        elif env_client.get('protocol') != want_proto:
            V('unclassified/envelope-protocol-differs', 'the envelope of the next message says protocol %r on a%s '
              'session with accepted identity %r (expected %r)'
              % (env_client.get('protocol'), 'n encrypted' if encrypted else ' clear', want_auth, want_proto))

    # ---- the application's AUTH handler raised: never a 235, never authenticated (the session may end)
    if verdict == 'raise' and klass == 'ok' and gate == 'none' and not (not encrypted and mech in PLAINTEXT_MECHS):
        R.hit('auth-validator-raises-checked')
        R.observe('validator-raise-outcome', (target, code(final), str(end)[:40]))
        if new_calls != 1:
            return R.inconclusive('verdict raise: the application was asked %d time(s)' % new_calls)
        if code(final) == '235' or authed_after or any(code(st[1]) == '235' for e_ in exs for st in e_['steps']):
            V(M_AUTH_EARLY, 'the application AUTH handler raised, yet the client saw %r and the authenticated '
              'state is %r' % (final, authed_after))
        return

    # ---- survival: whatever the AUTH line was, it must not end the session (no 421, NOOP answered)
    R.hit('auth-malformed-survival-checked' if klass != 'ok' else 'auth-survival-checked')
    died = final is None or code(final) == '421' or not alive
    if died:
        if not encrypted and mech in PLAINTEXT_MECHS and new_calls:
            R.hit('auth-clear-session-gate-checked')
            V(M_AUTH_CLEAR, 'AUTH line answered %r on an unencrypted session, application AUTH callback invoked '
              '%d time(s) (and raised), final reply %r' % (first, new_calls, final))
        elif mech == '-' and shape in ('bare', 'bare-space'):
            V(M_AUTH_BARE, 'AUTH without argument answered %r, then NOOP answered %r; handle() ended with %s'
              % (final, noop, end))
        else:
            V('unclassified/auth-ends-session/%s/%s' % (mech, shape),
              'final reply %r, NOOP afterwards %r, handle() ended with %s' % (final, noop, end))
        return

    # ---- plain-text mechanism on a clear session: refused outright, application not asked
    if not encrypted and mech in PLAINTEXT_MECHS:
        R.hit('auth-clear-session-gate-checked')
        R.observe('clear-session-gate', (channel, mech, shape))
        if not is_err(first) or new_calls:
            V(M_AUTH_CLEAR, 'AUTH line answered %r on an unencrypted session, application AUTH callback invoked '
              '%d time(s), final reply %r' % (first, new_calls, final))
        if authed_after and not any(e.get('verdict') == '235' for e in calls):
            V(M_AUTH_EARLY, 'session authenticated (%r) without a 235 from the application' % (authed_after,))
        return
    if not encrypted:
        R.hit('auth-clear-session-nonplaintext-mechanism')

    # ---- histories after a successful AUTH: still refused, application not asked, first identity kept
    if hist:
        R.hit('auth-after-success-history-checked')
        R.observe('auth-history', (hist, channel, case['first_mech'], mech, case['second'], target))
        problems = []
        if not is_err(first) or new_calls:
            problems.append('after AUTH ok + %s another AUTH was answered %r (final %r), application AUTH callback '
                            'invoked %d more time(s)' % (HISTORY_STEPS[hist], first, final, new_calls))
        if target == 'server':
            if not authed_after:
                problems.append('server.authed is %r afterwards' % (authed_after,))
        elif authed_after != first_identity:
            problems.append('SmtpSession.auth is %r afterwards, the first (accepted) identity was %r'
                            % (authed_after, first_identity))
        if problems:
            V(M_AUTH_AFTER_OK + '/after-' + HISTORY_STEPS[hist], '; '.join(problems)[:500])
        return

    # ---- sequence gates
    if gate in HELO_GATES:
        R.hit('auth-after-helo-greeting-checked')
        if not is_err(first) or new_calls or authed_after:
            V(M_AUTH_BEFORE_EHLO + '/after-HELO', 'the greeting in force is HELO (%s): AUTH answered %r (final %r), '
              'application callback invoked %d time(s), authenticated=%r'
              % (gate, first, final, new_calls, authed_after))
        return
    if gate in ('before-ehlo', 'after-success', 'in-transaction', 'in-transaction-rcpt'):
        R.hit('auth-sequence-gate-checked')
        if gate == 'after-success' and code(pre['final']) != '235':
            return R.inconclusive('gate after-success: the first AUTH was not accepted')
        if not is_err(first) or new_calls:
            V({'before-ehlo': M_AUTH_BEFORE_EHLO, 'after-success': M_AUTH_AFTER_OK}.get(gate, M_AUTH_IN_TXN),
              'AUTH answered %r (final %r), application callback invoked %d time(s)' % (first, final, new_calls))
        elif gate == 'after-success':
            if not authed_after:
                V('unclassified/auth-lost-after-refused-second-auth', 'authenticated state is %r after the refused '
                  'second AUTH' % (authed_after,))
        elif authed_after:
            V(M_AUTH_EARLY, 'AUTH was refused (%r), yet the session is authenticated (%r)' % (first, authed_after))
        return

    # ---- malformed: error reply, application not asked, not authenticated
    if klass == 'bad':
        if not is_err(final) or new_calls or authed_after:
            m = M_AUTH_B64 if shape in B64_SHAPES else 'unclassified/malformed-auth-not-refused/%s/%s' % (mech, shape)
            V(m, 'malformed AUTH exchange ended with %r, application callback invoked %d time(s), authenticated=%r'
              % (final, new_calls, authed_after))
        return
    if klass == 'soft':
        R.hit('auth-soft-shape-checked')
        if authed_after and not any(e.get('verdict') == '235' for e in calls):
            V(M_AUTH_EARLY, 'session authenticated (%r) without a 235 from the application' % (authed_after,))
        if code(final) == '235' and not new_calls:
            V(M_AUTH_EARLY, '235 sent without asking the application')
        return

    # ---- well-formed exchange on a permitted channel: application asked exactly once per exchange
    want_calls = 2 if ex2 is not None else 1
    if new_calls != want_calls:
        if ex2 is not None and new_calls == 1 and is_err(ex2['first']):
            R.hit('auth-retry-checked')
            V(M_AUTH_RETRY, 'after the application answered %s a second AUTH was answered %r without asking the '
              'application' % (gate[-3:], ex2['final']))
        else:
            V('unclassified/auth-callback-count', 'application AUTH callback invoked %d time(s) for %d well-formed '
              'exchange(s); replies %r' % (new_calls, want_calls, [e['final'] for e in exs]))
        return
    R.hit('auth-credentials-compared')
    R.observe('credentials-compared-mechanism', mech)
    want_cid, want_zid = ident_of(mech, cred)
    for e in calls[calls_before:]:
        c = e.get('creds', {})
        if 'api_error' in c:
            return R.inconclusive('pysasl API: ' + c['api_error'][:80])
        diffs = []
        if c.get('authcid') != want_cid:
            diffs.append('authcid %r != supplied %r' % (c.get('authcid'), want_cid))
        if c.get('authzid') != want_zid:
            diffs.append('authzid %r != supplied %r' % (c.get('authzid'), want_zid))
        if mech in ('XOAUTH2', 'EXTERNAL'):
            want_token = cred['secret'] if mech == 'XOAUTH2' else None
            if not c.get('external'):
                diffs.append('credentials object %s does not ask for external verification' % c.get('type'))
            elif c.get('token') != want_token:
                diffs.append('bearer token %r != supplied %r' % (c.get('token'), want_token))
        elif not c.get('verify_secret_only'):
            diffs.append('verify(ClearIdentity(authcid, supplied secret, noprep)) is False')
        if c.get('verify_wrong_secret'):
            diffs.append('verify() accepts a different secret')
        if not diffs and not c.get('external') and not c.get('verify_supplied'):
            diffs.append('verify(ClearIdentity(supplied authcid, supplied secret, noprep)) is False')
        if diffs:
            V(M_AUTH_CREDS, '; '.join(diffs)[:300])
            break
    R.hit('authed-flag-checked' if target == 'server' else 'edge-session-auth-checked')
    at_cb = [(e.get('authed') if target == 'server' else e.get('session_auth_at_callback'))
             for e in calls[calls_before:]]
    if at_cb and at_cb[0]:
        V(M_AUTH_EARLY, 'authenticated state already %r when the application was asked' % (at_cb[0],))
    if ex2 is None:
        if code(final) != verdict:
            V('unclassified/reply-differs-from-application-verdict', 'application answered %s, client saw %r'
              % (verdict, final))
        if bool(authed_after) != (verdict == '235'):
            V(M_AUTH_EARLY if authed_after else 'unclassified/not-authenticated-after-235',
              'authenticated state %r after the application answered %s' % (authed_after, verdict))
        if target == 'edge' and verdict == '235' and authed_after != (want_cid, want_zid):
            V(M_AUTH_CREDS, 'session.auth %r != supplied %r' % (authed_after, (want_cid, want_zid)))
    else:
        R.hit('auth-retry-checked')
        if code(final) != verdicts_first(gate) or code(ex2['final']) != '235' or not authed_after:
            V(M_AUTH_RETRY, 'first attempt answered %r, retry answered %r, authenticated=%r'
              % (final, ex2['final'], authed_after))
    if case.get('rs', 0) % 17 == 0:
        R.sample({'case': case, 'replies': [e['final'] for e in exs], 'auth_callbacks': calls})


def verdicts_first(gate):
    return gate[-3:]


def ident_of(mech, cred):
    """(authcid, authzid) the application must be shown for the supplied credentials."""
    if mech in ('XOAUTH2', 'EXTERNAL'):
        return ('', cred['cid'])            # pysasl ExternalCredentials: the user / authzid only
    if mech == 'PLAIN':
        return (cred['cid'], cred['zid'] or cred['cid'])
    return (cred['cid'], cred['cid'])


# ---------------------------------------------------------------- run: client

def run_client_case(case, R):
    name, timing = case['payload'], case['timing']
    inj = CLIENT_PAYLOADS[name]
    key = ('client', name, timing)
    R.observe('client-case', key)
    if inj:
        R.nontrivial(key)
    a, b = gsocket.socketpair()
    w = Wire(b)
    srv = {'seen': [], 'err': None, 'tls': False}

    def readline():
        while b'\n' not in w.buf:
            if not w._fill():
                return None
        line, w.buf = w.buf.split(b'\n', 1)
        return line.rstrip(b'\r')

    def server():
        try:
            w.send(b'220 harness ESMTP\r\n')
            while True:
                ln = readline()
                if ln is None:
                    return
                srv['seen'].append(['tls' if w.tls else 'clear', ln])
                verb = ln.split(b' ')[0].upper()
                if not w.tls:
                    if verb == b'EHLO':
                        w.send(b'250-harness.clear\r\n250 STARTTLS\r\n')
                    elif verb == b'STARTTLS':
                        if timing == 'same-segment':
                            w.send(b'220 2.0.0 ready\r\n' + inj)
                        elif timing == 'during-handshake':
                            # wait for the client's ClientHello, then answer it with the plaintext
                            w.send(b'220 2.0.0 ready\r\n')
                            gsocket.wait_read(w.sock.fileno(), timeout=WD)
                            w.send(inj)
                        else:
                            w.send(b'220 2.0.0 ready\r\n')
                            w.send(inj)
                        if not w.handshake(server_side=True):
                            srv['err'] = 'handshake-failed'
                            return
                        srv['tls'] = True
                    else:
                        w.send(b'250 clear ok\r\n')
                else:
                    w.send(CLIENT_TLS_ANSWERS.get(verb, b'250 2.0.0 tls-other-ok\r\n'))
                    if verb == b'QUIT':
                        return
        except Stall as e:
            srv['err'] = 'stall: %s' % e
        finally:
            pass

    g = gevent.spawn(server)
    R.eval()
    cl = Client(a, address=('server.test', 25))
    got = []
    exc = None
    t = gevent.Timeout(WD * 2)
    t.start()
    stalled = False
    try:
        cl.get_banner()
        cl.ehlo('client.test')
        st = cl.starttls(cctx())
        got.append(['STARTTLS', st.code, st.message])
        enc = bool(cl.io.encrypted)
        if st.code == '220' and enc:
            for label, fn in (('EHLO', lambda: cl.ehlo('client.test')), ('NOOP', lambda: cl.custom_command(b'NOOP')),
                              ('MAIL', lambda: cl.mailfrom('tls@x')), ('RSET', lambda: cl.rset()),
                              ('QUIT', lambda: cl.quit())):
                try:
                    r = fn()
                    got.append([label, r.code, r.message])
                except Exception as e:          # e.g. BadReply raised from injected garbage
                    got.append([label, 'exception', '%s: %s' % (type(e).__name__, str(e)[:80])])
    except gevent.Timeout as e:
        if e is not t:
            raise
        stalled = True
    except Exception as e:
        exc = '%s: %s' % (type(e).__name__, str(e)[:120])
    finally:
        t.close()
    try:
        a.close()
    except Exception:
        pass
    try:
        cl.io.socket.close()
    except Exception:
        pass
    w.close()
    g.join(WD)
    if not g.ready():
        g.kill(block=False)
    if stalled:
        return R.inconclusive('client case: client call did not return within %ss' % (WD * 2))
    ext = sorted(cl.extensions.extensions) if hasattr(cl.extensions, 'extensions') else None
    wit = {'case': case, 'injected': inj, 'client_replies': got, 'client_exception': exc,
           'server_saw': srv['seen'], 'server_error': srv['err'], 'client_extensions_after': ext,
           'client_recv_buffer_after': bytes(cl.io.recv_buffer)}
    if not srv['tls'] or len(got) < 2:
        # the handshake did not happen (e.g. the injected bytes reached the client's TLS layer):
        # nothing is "after the handshake"
        R.observe('client-outcome', (name, timing, 'no-tls-session'))
        if not inj:
            return R.inconclusive('client baseline: no TLS session (%s / %s)' % (exc, srv['err']))
        R.hit('client-handshake-refused-plaintext')
        return
    R.observe('client-outcome', (name, timing, 'tls-session'))
    R.hit('client-tls-replies-compared')
    want = [['EHLO', '250', 'tls.inside'], ['NOOP', '250', '2.0.0 tls-noop-ok'], ['MAIL', '250', '2.1.0 tls-mail-ok'],
            ['RSET', '250', '2.0.0 tls-rset-ok'], ['QUIT', '221', '2.0.0 tls-bye']]
    after = got[1:]
    bad = [[g_, w_] for g_, w_ in zip(after, want) if g_ != w_]
    if len(after) != len(want):
        bad.append([after[len(want):] or 'missing', 'reply count'])
    leak = [g_ for g_ in after if 'inject' in str(g_[2]).lower()]
    ext_leak = ext is not None and any(x in ('XINJECTED', 'AUTH') for x in ext)
    if bad or leak or ext_leak:
        in_tls = [ln for ch, ln in srv['seen'] if ch == 'tls']
        mech = M_CLI_BUF if inj else 'unclassified/client/tls-replies-differ-without-injection'
        R.violation(mech, 'payload=%s %s: after starttls() the client returned %s; inside TLS the server answered '
                    '%s (commands it received inside TLS: %s)%s'
                    % (name, timing, [x[:3] for x in after][:5], [x[1:] for x in want][:len(after)][:5], in_tls[:5],
                       '; client extensions now %s' % ext if ext_leak else ''), wit)
    elif inj:
        R.sample({'case': case, 'client_replies': got})
    # the extension set after the EHLO inside TLS is what that reply listed (8BITMIME), nothing from clear text
    if ext is not None and not ext_leak and after[:1] == want[:1]:
        R.hit('client-post-tls-extensions-compared')
        if ext != ['8BITMIME']:
            R.violation(M_CLI_EXT, 'payload=%s %s: after STARTTLS and a new EHLO answered "250-tls.inside / 250 8BITMIME" '
                        'inside TLS the client\'s extension set is %s (the clear-text EHLO had offered STARTTLS)'
                        % (name, timing, ext), wit)


# ---------------------------------------------------------------- run: relay client (hostile server)

RELAY_CLEAR_EXT = [b'PIPELINING', b'8BITMIME', b'SIZE 1000000', b'AUTH PLAIN LOGIN', b'STARTTLS']
RELAY_TLS_EXT = {'same': [b'PIPELINING', b'8BITMIME', b'AUTH PLAIN LOGIN'],
                 'other': [b'8BITMIME', b'AUTH CRAM-MD5'],
                 'login-first': [b'PIPELINING', b'AUTH LOGIN PLAIN CRAM-MD5'],
                 'no-auth': [b'8BITMIME'],
                 'helo': None}            # EHLO answered 500 inside TLS, HELO answered 250 (no extensions at all)
RELAY_CHAL = b'<20260925.1234@harness.tls>'


def ehlo_reply(host, exts):
    lines = [host] + list(exts)
    return b''.join(b'250' + (b' ' if i == len(lines) - 1 else b'-') + ln + b'\r\n' for i, ln in enumerate(lines))


def relay_cases(tier='quick'):
    n = 0
    for kind in ('smtp', 'lmtp'):
        for variant in sorted(RELAY_TLS_EXT):
            if kind == 'lmtp' and variant == 'helo':
                continue              # LMTP has no HELO fallback
            for creds in (False, True):
                for name in sorted(CLIENT_PAYLOADS):
                    for timing in ('same-segment', 'next-segment', 'during-handshake'):
                        if name == 'none' and timing != 'same-segment':
                            continue
                        n += 1
                        if kind == 'lmtp' and n % 3 and tier == 'quick':
                            continue
                        yield {'fam': 'relay', 'kind': kind, 'variant': variant, 'creds': creds, 'payload': name,
                               'timing': timing, 'mech': (None, None, 'LOGIN', 'PLAIN')[n % 4] if creds else None,
                               'zid': n % 5 == 0}
    # tls_immediately=True: the handshake comes first; clear-text bytes sent before it
    for variant in ('same', 'no-auth'):
        for creds in (False, True):
            for name in sorted(CLIENT_PAYLOADS):
                yield {'fam': 'relay', 'kind': 'smtp', 'variant': variant, 'creds': creds, 'payload': name,
                       'timing': 'before-handshake', 'mech': None, 'zid': False, 'immediate': True}


def run_relay_case(case, R):
    kind, variant, name, timing = case['kind'], case['variant'], case['payload'], case['timing']
    inj = CLIENT_PAYLOADS[name]
    rnd = random.Random('relay-cred-%d' % case.get('rs', 0))
    forced = case.get('mech')
    # pysasl's CRAM-MD5 client runs SASLprep over the credentials (may refuse / normalise them): ASCII there
    ckind = 'ascii' if variant == 'other' else rnd.choice(['ascii', 'bmp', 'astral', 'combining', 'space', 'mixed',
                                                            'case'])
    cred = gen_cred(rnd, ckind, zid=bool(case.get('zid'))) if case['creds'] else None
    if cred and variant == 'other':
        cred['secret'] = gen_text(rnd, 'ascii', 1)
    immediate = bool(case.get('immediate'))
    key = ('relay', kind, variant, bool(cred), forced, name, timing)
    R.observe('relay-case', key)
    if inj or variant != 'same':
        R.nontrivial(key)
    tls_ext = RELAY_TLS_EXT[variant]
    hello = b'LHLO' if kind == 'lmtp' else b'EHLO'
    srv = {'seen': [], 'err': None, 'tls': False, 'auth': [], 'conns': 0}

    def serve(w):
        def readline():
            while b'\n' not in w.buf:
                if not w._fill():
                    return None
            line, w.buf = w.buf.split(b'\n', 1)
            return line.rstrip(b'\r')

        def chan():
            return 'tls' if w.tls else 'clear'

        def auth(ln):
            parts = ln.split(b' ')
            mname = parts[1].upper() if len(parts) > 1 else b''
            rec = {'chan': chan(), 'mech': mname.decode('latin-1'), 'line': ln}
            srv['auth'].append(rec)
            arg = parts[2] if len(parts) > 2 else None
            try:
                if mname == b'PLAIN':
                    if arg is None:
                        w.send(b'334 \r\n')
                        arg = readline()
                    zid, cid, sec = base64.b64decode(arg).split(b'\0')
                    rec.update(cid=cid.decode('utf-8'), secret=sec.decode('utf-8'), zid=zid.decode('utf-8'))
                elif mname == b'LOGIN':
                    if arg is None:
                        w.send(b'334 VXNlcm5hbWU6\r\n')
                        arg = readline()
                    w.send(b'334 UGFzc3dvcmQ6\r\n')
                    sec = readline()
                    rec.update(cid=base64.b64decode(arg).decode('utf-8'), secret=base64.b64decode(sec).decode('utf-8'))
                elif mname == b'CRAM-MD5':
                    w.send(b'334 ' + b64(RELAY_CHAL) + b'\r\n')
                    resp = base64.b64decode(readline())
                    cid, _, digest = resp.rpartition(b' ')
                    rec.update(cid=cid.decode('utf-8'), digest=digest.decode('latin-1'))
                else:
                    w.send(b'504 5.5.4 tls-unknown-mechanism\r\n')
                    return
            except Exception as e:
                rec['undecodable'] = repr(e)[:100]
            w.send(b'235 2.7.0 tls-auth-ok\r\n')

        try:
            if immediate:
                if inj:
                    w.send(inj)
                if not w.handshake(server_side=True):
                    srv['err'] = 'handshake-failed'
                    return
                srv['tls'] = True
            w.send(b'220 harness ESMTP\r\n')
            while True:
                ln = readline()
                if ln is None:
                    return
                srv['seen'].append([chan(), ln])
                verb = ln.split(b' ')[0].upper()
                if verb == b'AUTH':
                    auth(ln)
                elif verb == b'DATA':
                    w.send(b'354 %s-go-ahead\r\n' % chan().encode())
                    while True:
                        body = readline()
                        if body is None:
                            return
                        if body == b'.':
                            break
                    srv['seen'].append([chan(), b'<EOD>'])
                    w.send(b'250 2.0.0 %s-queued\r\n' % chan().encode())
                elif verb == b'QUIT':
                    w.send(b'221 2.0.0 %s-bye\r\n' % chan().encode())
                    return
                elif not w.tls:
                    if verb == hello:
                        w.send(ehlo_reply(b'harness.clear', RELAY_CLEAR_EXT))
                    elif verb == b'STARTTLS':
                        if timing == 'same-segment':
                            w.send(b'220 2.0.0 ready\r\n' + inj)
                        elif timing == 'during-handshake':
                            w.send(b'220 2.0.0 ready\r\n')
                            gsocket.wait_read(w.sock.fileno(), timeout=WD)
                            w.send(inj)
                        else:
                            w.send(b'220 2.0.0 ready\r\n')
                            w.send(inj)
                        if not w.handshake(server_side=True):
                            srv['err'] = 'handshake-failed'
                            return
                        srv['tls'] = True
                    else:
                        w.send(b'250 2.0.0 clear-ok\r\n')
                else:
                    if verb == hello:
                        w.send(b'500 5.5.2 tls-no-ehlo\r\n' if tls_ext is None else ehlo_reply(b'harness.tls', tls_ext))
                    elif verb == b'HELO':
                        w.send(b'250 harness.tls\r\n')
                    else:
                        w.send(b'250 2.0.0 tls-%s-ok\r\n' % verb.lower()[:8])
        except Stall as e:
            srv['err'] = 'stall: %s' % e
        finally:
            if w.tls:
                t = gevent.Timeout(1.0)
                t.start()
                try:
                    w.sock.unwrap()
                except BaseException:
                    pass
                finally:
                    t.close()
            w.close()

    servers = []

    def creator(address):
        a, b = gsocket.socketpair()
        srv['conns'] += 1
        servers.append(gevent.spawn(serve, Wire(b)))
        return a

    kw = {'socket_creator': creator, 'ehlo_as': 'relay.test', 'context': cctx(), 'connect_timeout': WD,
          'command_timeout': WD, 'data_timeout': WD}
    if immediate:
        kw['tls_immediately'] = True
    if cred:
        kw['credentials'] = (cred['cid'], cred['secret']) + ((cred['zid'],) if cred['zid'] else ())
        if forced:
            kw['auth_mechanism'] = forced.encode('ascii')
    relay = (StaticLmtpRelay if kind == 'lmtp' else StaticSmtpRelay)('server.test', 25, pool_size=1, **kw)
    env = Envelope('sender@x', ['rcpt@x'])
    env.parse(b'Subject: relay\r\n\r\nrelay body\r\n')
    R.eval()
    outcome, reported = None, []
    t = gevent.Timeout(WD * 3)
    t.start()
    try:
        res = relay.attempt(env, 0)
        outcome = 'delivered'
        for rcpt, rep in sorted((res or {}).items()):
            if isinstance(rep, RelayError):
                outcome = 'recipient-failed'
                rep = rep.reply
            reported.append([rcpt, getattr(rep, 'code', None), getattr(rep, 'message', None)])
    except RelayError as e:
        outcome = 'failed'
        reported.append(['*', e.reply.code, e.reply.message])
    except gevent.Timeout as e:
        if e is not t:
            raise
        outcome = 'stalled'
    except Exception as e:
        outcome = 'exception'
        reported.append(['*', type(e).__name__, str(e)[:120]])
    finally:
        t.close()
        try:
            relay.kill()
        except Exception:
            pass
        gevent.joinall(servers, timeout=WD)
        for g in servers:
            if not g.ready():
                g.kill(block=False)
    if outcome == 'stalled':
        return R.inconclusive('relay case: attempt() did not return within %ss' % (WD * 3))
    in_tls = [ln for ch, ln in srv['seen'] if ch == 'tls']
    verbs = [ln.split(b' ')[0].upper().decode('latin-1') for ln in in_tls]
    after_starttls_clear = []
    seen_st = False
    for ch, ln in srv['seen']:
        if ch == 'clear' and seen_st:
            after_starttls_clear.append(ln[:60])
        if ln.upper().startswith(b'STARTTLS'):
            seen_st = True
    wit = {'case': case, 'injected': inj, 'outcome': outcome, 'reported': reported, 'server_saw': srv['seen'][:40],
           'server_error': srv['err'], 'auth_exchanges': srv['auth'], 'credentials': cred,
           'tls_extensions_offered': tls_ext, 'clear_extensions_offered': RELAY_CLEAR_EXT}
    desc = '%s relay, EHLO inside TLS %s, payload=%s %s%s' % (kind, variant, name, timing,
                                                              ', credentials configured' if cred else '')
    if not srv['tls']:
        R.observe('relay-outcome', (kind, name, timing, 'no-tls-session', outcome))
        if not inj:
            return R.inconclusive('relay baseline: no TLS session (%s / %s)' % (outcome, srv['err']))
        R.hit('relay-handshake-refused-plaintext')
        return
    R.observe('relay-outcome', (kind, variant, bool(cred), outcome, immediate))
    R.hit('relay-tls-session-compared')
    if immediate:
        R.hit('relay-immediate-tls-session-compared')
    offered = set(x.split(b' ')[0].decode() for x in (tls_ext or []))
    tls_mechs = []
    for x in (tls_ext or []):
        if x.startswith(b'AUTH '):
            tls_mechs = x.decode().split()[1:]
    will_auth = bool(cred) and bool(tls_mechs) and (not forced or forced in tls_mechs)
    expect_delivery = (not cred) or will_auth
    problems = []
    # (1) the boundary: the first thing inside TLS is a fresh EHLO/LHLO, the outcome is the one answered inside TLS
    no_hello = verbs[:1] != [hello.decode()]
    if no_hello:
        R.violation(M_CLI_NOEHLO, desc + ': the first command inside TLS was %r, not a new %s (what the clear-text %s '
                    'reply said is still relied on)' % (in_tls[:1], hello.decode(), hello.decode()), wit)
    leak = [r for r in reported if 'inject' in str(r[2]).lower() or 'clear-' in str(r[2]).lower()]
    if leak:
        problems.append('the relay reports %r, which was never sent inside TLS' % (leak[:2],))
    if expect_delivery:
        if outcome != 'delivered' or [r[1:] for r in reported] != [['250', '2.0.0 tls-queued']]:
            problems.append('inside TLS the message was answered 250 2.0.0 tls-queued, the relay reports %s %r'
                            % (outcome, reported[:2]))
    if problems and not no_hello:
        if not inj:
            # without injected bytes this is either the stale-extension root cause below or a harness problem
            if not (variant in ('helo', 'no-auth', 'other') and srv['auth']):
                R.violation('unclassified/relay/tls-session-differs-without-injection',
                            desc + ': ' + '; '.join(problems)[:400], wit)
        else:
            R.violation(M_CLI_BUF, desc + ': ' + '; '.join(problems)[:400], wit)
    # (2) nothing learnt from the clear-text EHLO reply is used after the handshake
    R.hit('relay-post-tls-extension-use-checked')
    stale = []
    for rec in srv['auth']:
        if rec['chan'] != 'tls':
            continue
        if rec['mech'] not in tls_mechs:
            stale.append('AUTH %s sent inside TLS; mechanisms offered inside TLS: %s (in clear text: PLAIN LOGIN)'
                         % (rec['mech'], tls_mechs or 'none'))
    for ln in in_tls:
        if ln.upper().startswith(b'MAIL '):
            for pname in (b'SIZE', b'AUTH'):
                if (b' ' + pname + b'=') in ln.upper() and pname.decode() not in offered:
                    stale.append('%r sent inside TLS although %s was only offered in clear text' % (ln[:80], pname.decode()))
    if stale:
        R.violation(M_CLI_EXT, desc + ': ' + '; '.join(stale)[:400], wit)
    # (3) the AUTH exchange carries exactly the configured credentials
    if cred and will_auth:
        R.hit('relay-auth-credentials-compared')
        recs = [r_ for r_ in srv['auth'] if r_['chan'] == 'tls']
        if len(recs) != 1:
            if not problems:
                R.violation('unclassified/relay/auth-exchange-count', desc + ': %d AUTH exchanges inside TLS' % len(recs),
                            wit)
        else:
            rec = recs[0]
            R.observe('relay-auth-mechanism', (variant, forced, rec['mech']))
            diffs = []
            if forced and rec['mech'] != forced:
                diffs.append('mechanism %s used, %s configured' % (rec['mech'], forced))
            if 'undecodable' in rec:
                diffs.append('exchange not decodable: %s' % rec['undecodable'])
            elif rec.get('cid') != cred['cid']:
                diffs.append('authcid %r != configured %r' % (rec.get('cid'), cred['cid']))
            elif 'secret' in rec and rec['secret'] != cred['secret']:
                diffs.append('secret %r != configured %r' % (rec['secret'], cred['secret']))
            elif 'digest' in rec and rec['digest'] != hmac.new(cred['secret'].encode('utf-8'), RELAY_CHAL,
                                                               hashlib.md5).hexdigest():
                diffs.append('CRAM-MD5 digest does not match the configured secret')
            elif 'zid' in rec and rec['zid'] not in ((cred['zid'],) if cred['zid'] else ('', cred['cid'])):
                diffs.append('authzid %r != configured %r' % (rec['zid'], cred['zid']))
            if diffs:
                R.violation(M_CLI_CREDS, desc + ': ' + '; '.join(diffs)[:300], wit)
    # (4) credentials never go out in clear text after a STARTTLS that the server accepted
    if any(ln.upper().startswith(b'AUTH') for ln in after_starttls_clear):
        R.violation('unclassified/relay/auth-in-clear-after-starttls', desc + ': %r' % after_starttls_clear[:3], wit)
    if not problems and not stale and inj and case.get('rs', 0) % 7 == 0:
        R.sample({'case': case, 'outcome': outcome, 'reported': reported, 'commands_inside_tls': in_tls[:8]})


# ---------------------------------------------------------------- run: offer over histories

def run_offer_case(case, R):
    mode, steps, target = case['mode'], list(case['steps']), case['target']
    tls_mode = mode in OFFER_MODES_TLS
    key = ('offer', mode, tuple(steps), target)
    R.observe('offer-case', key)
    R.observe('offer-history-shape', (mode, len(steps), 'helo' in steps, target))
    if steps:
        R.nontrivial(key)
    smode = {'starttls': 'starttls', 'immediate': 'immediate', 'notls': 'notls'}.get(mode, 'starttls')
    S = ServerSession(smode, AUTH_MECHS, target, verdicts=['235' if st == 'auth-ok' else '535' for st in steps
                                                            if st.startswith('auth-')],
                      max_size=EDGE_MAX_SIZE if target == 'edge' else None)
    w = S.w
    R.eval()

    def abort(why):
        try:
            S.finish()
        except Stall:
            pass
        R.inconclusive('offer set-up: ' + why)

    configured = set(['8BITMIME', 'PIPELINING', 'ENHANCEDSTATUSCODES', 'SMTPUTF8',
                      'AUTH ' + ' '.join(m.decode() for m in AUTH_MECHS)])
    if target == 'edge':
        configured.add('SIZE %d' % EDGE_MAX_SIZE)
    if mode == 'immediate' and not w.handshake():
        return abort('immediate handshake failed')
    if code(w.reply()) != '220':
        return abort('no banner')
    log = []            # [step, command, reply]
    ehlos = []          # [index in log, offered lines, helo seen before, encrypted]
    state = {'helo': False, 'enc': mode == 'immediate', 'stop': None}

    def say(step, line):
        r = w.cmd(line)
        log.append([step, line, r])
        if line.upper().startswith(b'EHLO') and code(r) == '250':
            ehlos.append([len(log) - 1, [ln.upper() for ln in r[1][1:]], state['helo'], state['enc']])
        if line.upper().startswith(b'HELO') and code(r) == '250':
            state['helo'] = True
        return r

    if mode == 'starttls':
        if code(say('setup', b'EHLO pre.test')) != '250' or code(say('setup', b'STARTTLS')) != '220' or \
                not w.handshake():
            return abort('STARTTLS set-up failed')
        state['enc'] = True
    elif mode == 'clear-refused':
        # STARTTLS refused twice: before EHLO (503), then with an argument (501); the session stays clear
        r1 = say('setup', b'STARTTLS')
        say('setup', b'EHLO pre.test')
        r2 = say('setup', b'STARTTLS right now')
        if not (is_err(r1) and is_err(r2)):
            return abort('the refused-STARTTLS set-up was not refused: %r %r' % (r1, r2))
    starttls_probes = []
    for n, st in enumerate(steps + ['ehlo'] + (['starttls'] if tls_mode else [])):
        final = n >= len(steps)
        if st == 'ehlo':
            r = say(st, b'EHLO h%d.test' % n)
        elif st == 'helo':
            r = say(st, b'HELO h%d.test' % n)
        elif st == 'rset':
            r = say(st, b'RSET')
        elif st == 'noop':
            r = say(st, b'NOOP')
        elif st == 'unknown':
            r = say(st, b'XFOO bar')
        elif st == 'rcpt-refused':
            r = say(st, b'RCPT TO:<nomail@x>')
        elif st == 'txn':
            r = say(st, b'MAIL FROM:<h@x>')
            if code(r) == '250' and code(say(st, b'RCPT TO:<hr@x>')) == '250' and code(say(st, b'DATA')) == '354':
                r = say(st, b'Subject: h\r\n\r\nh body\r\n.')
        elif st in ('auth-ok', 'auth-fail'):
            r = say(st, b'AUTH EXTERNAL ' + b64(b'hist-user'))      # not a plain-text mechanism: allowed in clear too
            if code(r) == '334':
                r = say(st, b'*')
        elif st == 'starttls-arg':
            r = say(st, b'STARTTLS please')
        elif st == 'starttls':
            r = say(st, b'STARTTLS')
            starttls_probes.append([len(log) - 1, r, state['helo'], final])
            if r is not None and not is_err(r):
                state['stop'] = 'STARTTLS accepted inside TLS'
                break              # the server now waits for another handshake
        else:
            raise ValueError(st)
        if r is None:
            state['stop'] = 'connection ended at step %s' % st
            break
    if state['stop'] is None:
        say('end', b'QUIT')
    end = S.finish()
    trace = S.trace
    wit = {'case': case, 'log': log[:40], 'ehlo_offers': ehlos, 'configured_offer': sorted(configured),
           'callbacks': [[sig(e), e.get('enc')] for e in trace][:60], 'end': end, 'stopped': state['stop']}
    desc = '%s session (%s), history %s' % (mode, target, '/'.join(steps) or '-')
    if state['stop'] and not state['stop'].startswith('STARTTLS accepted'):
        # a history step ended the session: nothing of this family to judge (survival is judged elsewhere)
        R.observe('offer-history-ended-early', (mode, state['stop'][:40]))
    seen = set()

    def V(mechanism, what):
        if mechanism not in seen:
            seen.add(mechanism)
            R.violation(mechanism, desc + ': ' + what, wit)

    # ---- every EHLO reply
    for idx, lines, after_helo, enc in ehlos:
        if log[idx][0] == 'setup' and not enc and mode == 'starttls':
            continue                       # the clear-text EHLO before the upgrade
        names = set(ln.split()[0] for ln in lines if ln.split())
        suffix = '/after-HELO' if after_helo else ('/in-history' if log[idx][0] not in ('setup',) and
                                                   any(l_[0] not in ('setup',) for l_ in log[:idx]) else '')
        if enc:
            R.hit('offer-history-ehlo-checked')
            if mode == 'immediate':
                R.hit('immediate-offer-history-checked')
            if after_helo:
                R.hit('offer-history-ehlo-after-helo-over-tls')
            if 'STARTTLS' in names:
                V(M_SRV_OFFER + suffix, 'the EHLO reply to %r over TLS lists STARTTLS: %s' % (log[idx][1], lines))
            want = set(configured)
        else:
            R.hit('clear-offer-history-checked')
            if after_helo:
                R.hit('clear-offer-history-after-helo')
            want = set(configured)
            if mode != 'notls':
                want.add('STARTTLS')
        extra = sorted(set(lines) - want - (set(['STARTTLS']) if enc else set()))
        if extra:
            V(M_SRV_APPEAR + suffix, 'the EHLO reply to %r lists %s, the configuration is %s'
              % (log[idx][1], extra, sorted(want)))
        missing = sorted(want - set(lines))
        if missing:
            if after_helo:
                R.observe('offer-shrunk-after-helo', (mode, tuple(missing)))   # old quirk, outside the statement
            else:
                V(M_SRV_VANISH + suffix, 'the EHLO reply to %r does not list %s although no HELO was sent; configured: %s'
                  % (log[idx][1], missing, sorted(want)))
    # ---- every STARTTLS command on an encrypted session
    for idx, r, after_helo, final in starttls_probes:
        R.hit('starttls-refused-in-history-checked')
        if after_helo:
            R.hit('starttls-probe-after-helo-over-tls')
        if r is not None and not is_err(r):
            V(M_SRV_TWICE + ('/after-HELO' if after_helo else '/in-history'),
              'STARTTLS over TLS (command %d of the history) answered %r' % (idx, r))
    if tls_mode:
        R.hit('handshake-callbacks-in-history-counted')
        hs = [e for e in trace if e['cb'] == 'TLSHANDSHAKE']
        st_cb = [e for e in trace if e['cb'] == 'STARTTLS' and e.get('enc')]
        if len(hs) > 1 or st_cb:
            V(M_SRV_TWICE + ('/after-HELO' if state['helo'] else '/in-history'),
              '%d TLS handshake callbacks, %d STARTTLS callbacks with encrypted=True' % (len(hs), len(st_cb)))
    if not seen and steps and case.get('rs', 0) % 23 == 0:
        R.sample({'case': case, 'ehlo_offers': ehlos, 'starttls_probes': [[i, r] for i, r, _, _ in starttls_probes]})


# ---------------------------------------------------------------- run: empty SASL responses

def run_empty_case(case, R):
    mech, variant, pos, channel, target, verdict = (case[k] for k in ('mech', 'variant', 'pos', 'channel', 'target',
                                                                      'verdict'))
    cred = case['cred']
    if mech == 'XOAUTH2':
        cred = dict(cred, **dict((k, cred[k].replace('\x01', '?').replace('\n', '?')) for k in ('cid', 'secret', 'zid')))
    follow = FOLLOWUPS[case['follow']]
    key = ('empty', mech, variant, pos, channel, target, verdict, case['follow'])
    R.observe('empty-case', key)
    R.nontrivial(key)
    encrypted = not is_clear(channel)
    # ---- what the client supplies: the normal responses of the mechanism, with one of them made empty
    g1, normal = auth_script(mech, 'challenge', cred)                 # (b'AUTH <MECH>', [responses...])
    empty = {'no-initial': None, 'initial-equals': b'=', 'empty-line': b'', 'equals-response': b'='}[variant]
    responses = list(normal)
    want_cid, want_secret = cred['cid'], cred['secret']
    if empty is not None:
        responses[pos - 1] = empty
        if mech == 'LOGIN' and pos == 1:
            want_cid = ''
        elif mech == 'LOGIN':
            want_secret = ''
    line = g1
    initial = 0
    if variant == 'initial-equals':
        line, responses, initial = g1 + b' =', responses[1:], 1
    S = ServerSession({'immediate': 'immediate', 'clear-notls': 'notls'}.get(channel, 'starttls'), AUTH_MECHS, target,
                      verdicts=[verdict, verdict], credcheck=CredCheck(want_cid, want_secret))
    w = S.w
    R.eval()

    def abort(why):
        try:
            S.finish()
        except Stall:
            pass
        R.inconclusive('empty set-up: ' + why)

    if channel == 'immediate' and not w.handshake():
        return abort('immediate handshake failed')
    if code(w.reply()) != '220':
        return abort('no banner')
    if channel == 'starttls':
        if code(w.cmd(b'EHLO pre.test')) != '250' or code(w.cmd(b'STARTTLS')) != '220' or not w.handshake():
            return abort('STARTTLS set-up failed')
    if code(w.cmd(b'EHLO empty.test')) != '250':
        return abort('EHLO refused')
    n_trace0 = len(S.trace)
    # ---- a client that trusts the protocol: one line, one reply; a response only to a challenge it expects
    steps = []
    r = w.cmd(line)
    steps.append([line, r])
    n334 = 1 if code(r) == '334' else 0
    pending = list(responses)
    while code(r) == '334' and pending:
        resp = pending.pop(0)
        if callable(resp):
            try:
                resp = resp(base64.b64decode(r[1][0]))
            except Exception:
                resp = resp(b'')
        r = w.cmd(resp)
        steps.append([resp, r])
        if code(r) == '334':
            n334 += 1
    final = r
    unexpected_challenge = code(final) == '334'          # the client has nothing more to say, yet is challenged
    fol = []
    for c in follow:
        r = w.cmd(c)
        fol.append([c, r])
        if r is None:
            break
    if target == 'server':
        authed_after = bool(S.srv.authed)
    else:
        authed_after = S.edge_session().auth if S.edge_session() is not None else None
    quit_ = w.cmd(b'QUIT') if (fol and fol[-1][1] is not None) else None
    end = S.finish()
    calls = [e for e in S.trace if e['cb'] == 'AUTH']
    later = [sig(e) for e in S.trace[n_trace0:] if e['cb'] in ('RSET', 'NOOP', 'MAIL')]
    wit = {'case': case, 'auth_line': line, 'exchange': steps, 'followups': fol, 'quit': quit_, 'auth_callbacks': calls,
           'authenticated_after': authed_after, 'callbacks_after_ehlo': [sig(e) for e in S.trace[n_trace0:]][:20],
           'challenges_seen': n334, 'handle_end': end,
           'supplied': {'cid': want_cid, 'secret': want_secret, 'responses': [x if not callable(x) else '<cram>' for x in
                                                                             ([line] + responses)]}}
    desc = '%s %s%s on %s target=%s verdict=%s, then %s' % (mech, variant, ' (step %d)' % pos if mech == 'LOGIN' else '',
                                                            channel, target, verdict,
                                                            ' / '.join(c.decode() for c in follow))
    P = {}

    def problem(mechanism, what):
        P.setdefault(mechanism, []).append(what)

    m_empty = M_AUTH_EMPTY + '/' + variant
    refused_clear = not encrypted and mech in PLAINTEXT_MECHS
    if variant == 'initial-equals':
        R.hit('auth-equals-initial-response-driven')
    # ---- number of challenges: at most what the mechanism still needs
    R.hit('auth-empty-exchange-challenge-count-checked')
    allowed = 0 if refused_clear else SASL_STEPS[mech] - initial
    if n334 > allowed or unexpected_challenge:
        problem(M_AUTH_CLEAR if refused_clear else m_empty, '%d challenge(s) (334) sent, the mechanism needs %d response(s) and the client supplied %d '
                        'with the AUTH line%s' % (n334, SASL_STEPS[mech], initial,
                                                  '; the last one came when the exchange was complete' if
                                                  unexpected_challenge else ''))
    # ---- the commands after the exchange get their own replies and callbacks
    R.hit('auth-empty-exchange-followups-checked')
    in_txn = False
    for c, r in fol:
        ok = code(r) == '250'
        if c.startswith(b'MAIL') and in_txn:
            ok = is_err(r)
        if not ok:
            problem(m_empty, '%s after the exchange was answered %r' % (c.decode(), r))
            break
        if c.startswith(b'MAIL'):
            in_txn = True
        if c == b'RSET':
            in_txn = False
    want_later = [('MAIL:after@x' if c.startswith(b'MAIL') else c.decode()) for c in follow]
    if target == 'server' and later != want_later:
        problem(m_empty, 'callbacks after the exchange were %s, the commands sent were %s' % (later, want_later))
    if target == 'edge' and [x for x in later if x.startswith('MAIL')] != [x for x in want_later if x.startswith('MAIL')]:
        problem(m_empty, 'MAIL callbacks after the exchange were %s, the commands sent were %s' % (later, want_later))
    # ---- what the handler was shown
    if refused_clear and calls:
        problem(M_AUTH_CLEAR, 'plain-text mechanism on a clear session: the handler was asked')
    for e in calls:
        c = e.get('creds', {})
        if 'api_error' in c:
            return R.inconclusive('pysasl API: ' + c['api_error'][:80])
        R.hit('auth-empty-credentials-compared')
        R.observe('empty-credentials-shown', (mech, variant, pos))
        if mech == 'LOGIN':
            if c.get('authcid') != want_cid:
                problem(M_AUTH_CREDS if want_cid else m_empty,
                        'handler shown authcid %r, the client supplied %r' % (c.get('authcid'), want_cid))
            elif not c.get('verify_supplied') or c.get('verify_wrong_secret'):
                problem(M_AUTH_CREDS if want_secret else m_empty,
                        'handler shown a secret that is not the supplied %r' % (want_secret,))
        elif mech == 'EXTERNAL':
            want = '' if empty is not None else cred['cid']
            if c.get('authzid') != want or c.get('authcid') != '':
                problem(M_AUTH_CREDS if want else m_empty,
                        'handler shown authzid %r, the client supplied %r' % (c.get('authzid'), want))
        elif empty is not None:
            problem(m_empty, 'handler asked although the only response of the mechanism was empty: %r' % (c,))
        elif mech == 'PLAIN' and (c.get('authcid') != cred['cid'] or not c.get('verify_supplied')):
            problem(M_AUTH_CREDS, 'handler shown %r, the client supplied %r' % (c, cred['cid']))
        elif mech == 'XOAUTH2' and (c.get('authzid') != cred['cid'] or c.get('token') != cred['secret']):
            problem(M_AUTH_CREDS, 'handler shown %r, the client supplied %r' % (c, cred['cid']))
        elif mech == 'CRAM-MD5' and (c.get('authcid') != cred['cid'] or not c.get('verify_secret_only')):
            problem(M_AUTH_CREDS, 'handler shown %r, the client supplied %r' % (c, cred['cid']))
    # ---- authenticated only after the handler accepted, and as the identity it was shown
    accepted = [e for e in calls if e.get('verdict') == '235']
    if authed_after and not accepted:
        problem(M_AUTH_EARLY, 'session authenticated (%r) although the handler never accepted' % (authed_after,))
    if any(code(st[1]) == '235' for st in steps + fol) and not accepted:
        problem(M_AUTH_EARLY, '235 sent although the handler never accepted')
    if target == 'edge' and accepted and authed_after:
        shown = accepted[-1].get('creds', {})
        if tuple(authed_after) != (shown.get('authcid'), shown.get('authzid')):
            problem(M_AUTH_CREDS, 'session.auth %r is not what the handler accepted' % (authed_after,))
    # a shifted exchange explains wrong credentials / a never-asked handler: report the root cause only
    if m_empty in P:
        P = {m_empty: [w_ for ws in ([P[m_empty]] + [v for k, v in P.items() if k != m_empty]) for w_ in ws]}
    for mechanism, whats in sorted(P.items()):
        R.violation(mechanism, desc + ': ' + '; '.join(whats)[:500], wit)
    if not P and case.get('rs', 0) % 19 == 0:
        R.sample({'case': case, 'exchange': steps, 'followups': fol, 'auth_callbacks': calls})


# ---------------------------------------------------------------- dispatch

def run_case(case, R):
    try:
        if case['fam'] == 'tls':
            run_tls_case(case, R)
        elif case['fam'] == 'auth':
            run_auth_case(case, R)
        elif case['fam'] == 'relay':
            run_relay_case(case, R)
        elif case['fam'] == 'offer':
            run_offer_case(case, R)
        elif case['fam'] == 'empty':
            run_empty_case(case, R)
        else:
            run_client_case(case, R)
    except Stall as e:
        R.inconclusive('watchdog: %s (%s)' % (e, case['fam']))
