"""C09 -- server behaviour does not depend on how client bytes are segmented or pipelined.

The real slimta.smtp.server.Server runs on a ScriptSocket with a handler object that records
every callback (name, the default reply it was handed, arguments incl. message bytes / error).

Oracle (metamorphic): the STOP-AND-WAIT REFERENCE RUN of the same logical session fixes the
expected concatenated reply bytes and callback trace.  In that run the harness feeds the next
unit only when the server asks for input and nothing is pending (interactive ScriptSocket);
body + end-of-data line is one unit, fed whole only if the reply to DATA was 354 -- if DATA was
refused the body is fed as ordinary lines, one at a time.  Every other segmentation of exactly
the same byte stream (one burst, bytewise, per line, per unit, single cuts at every position
adjacent to CR / LF / the end-of-data line, cut pairs around each body, seeded random cut sets)
must reproduce the same reply bytes and the same trace.  All runs end the same way: a read when
the stream is exhausted returns b'' (ScriptSocket(eof=True)).

Events that refute: concatenated reply bytes differ; callback trace differs.
"""
import re
import random

from vf.core import khash
from vf.sock import ScriptSocket, cut
from slimta.smtp.server import Server
from slimta.smtp import ConnectionLost

PROPERTY = 'C09'
LEVEL = 'exploration'
LEVEL_TEXT = ('Real Server + IO + DataReader on a scripted socket with a recording handler object. A designed '
              'grid (body kind x transaction layout x {no SIZE limit, SIZE=64}) plus seeded random sessions of '
              '1-3 transactions; each stream is run once stop-and-wait (reference) and then under ~100-200 other '
              'segmentations; reply bytes and callback trace (with message content) compared exactly on every '
              'run. Held = held on the streams x segmentations reported, not a proof for other streams.')
LEVEL_NOTE = ('Trusted: ScriptSocket, the unit-feeding rule of the reference run (~25 lines), the recording '
              'handlers (scripted refusals are decided from callback arguments only), exact comparison.')
TECHNIQUE = 'runtime monitoring: metamorphic oracle (stop-and-wait reference run vs every other segmentation)'
RULE = ('case = one client byte stream (EHLO|HELO, 1-3 transactions MAIL/RCPT+/DATA/body+EOD [NOOP|RSET], '
        'optional QUIT) x SIZE limit in {none, 64}; bodies from a catalogue (empty, command-looking lines, '
        'lone/double dots, dot-space, bare LF, unstuffed early end-of-data, at / 1 over / far over the limit) '
        'or seeded random line mixes; refusals (MAIL 550, RCPT 550, all RCPT refused -> DATA 503, DATA 554, '
        'MAIL SIZE= too large) are scripted by address. First a designed grid, then seeded random sessions. '
        'Each case = 1 reference run + every segmentation listed in the module docstring (each one evaluation). '
        'non-trivial & distinct = distinct (limit, stream) whose stream has >= 1 body that is empty, over the '
        'limit, or has a command-looking or dot-leading line, AND >= 1 command after a body')
ASSUMPTIONS = ['ScriptSocket hands out exactly the scripted segments and reports end-of-stream as b"" (closed '
               'connection); every run of one case receives the identical byte stream',
               'the reference run is the definition of expected behaviour (metamorphic): the check does not '
               'judge whether the reference replies themselves are right',
               'handler refusals are a function of callback arguments (addresses), never of call ordinals']
REQUIRED_HITS = ['reference-run', 'replies-compared', 'trace-compared', 'ref-message-too-big',
                 'ref-refused-data-body-fed-as-lines', 'ref-empty-message-delivered',
                 'ref-command-after-body']
SHARDS = {'quick': 8, 'thorough': 16}
BUDGET = {'quick': 45, 'thorough': 700}
EXHAUSTIVE = {'quick': False, 'thorough': False}

LIMIT = 64
NRANDOM_STREAMS = {'quick': 1000, 'thorough': 40000}
NRANDOM_CUTS = 30

# Mechanisms (root causes) the classifier knows; everything else is 'unclassified/<stratum>/<oracle clause>'.
#  M_NORESYNC  reference and variant both report MessageTooBig for a body, what follows differs: DataReader
#              gives up at the recv() piece that crosses the limit, drops that piece and leaves the rest of the
#              body to the command parser (content executed as commands / commands in the dropped piece lost).
#  M_ACCOUNT   a body the reference accepted (stream may have no over-limit body at all) is refused with 552:
#              the size counter adds whole recv() pieces, including pipelined commands behind the EOD line.
#  M_PREBUF    a body the reference refused as too big is accepted: bytes of the body that arrived in the same
#              recv() as the DATA command (taken over from IO.recv_buffer) are never counted.
M_NORESYNC = 'size-limit/over-limit-body-no-resync'
M_ACCOUNT = 'size-limit/accounting-depends-on-recv-boundaries'
M_PREBUF = 'size-limit/accounting-misses-prebuffered-bytes'

# ---------------------------------------------------------------- workload

EOD = b'.\r\n'


def lf_lines(data):
    """Split after every LF (what the server regards as a line); a final unterminated rest is kept."""
    return re.findall(br'[^\n]*\n|[^\n]+$', data)


def stuff(body):
    """Dot-stuff a message the way a well-behaved client does (per LF-terminated line)."""
    out = b''.join((b'.' + ln if ln.startswith(b'.') else ln) for ln in lf_lines(body))
    if out and not out.endswith(b'\n'):
        out += b'\r\n'
    return out


# name -> wire bytes of the body WITHOUT the final end-of-data line.  'raw-*' are unstuffed
# (adversarial): the server sees an early end-of-data line and the rest are commands in every run.
BODIES = {
    'empty': b'',
    'plain': b'Subject: a\r\n\r\nhello\r\n',
    'blank-lines': b'\r\n\r\n',
    'cmds': stuff(b'MAIL FROM:<evil@x>\r\nRCPT TO:<evil2@x>\r\nQUIT\r\nRSET\r\n'),
    'cmds-data': stuff(b'RSET\r\nDATA\r\nNOOP\r\nXYZZY\r\n'),
    'lone-dots': stuff(b'.\r\n.\r\n'),
    'dotdot': stuff(b'..\r\n.. x\r\n.\tx\r\n'),
    'dot-space': stuff(b'. \r\nafter\r\n'),
    'barelf': stuff(b'a\nb\n.\nc\r\n'),
    '8bit': b'\x00\xff\xfe\r\n\x80\r\n',
    'half': b'h' * 25 + b'\r\n',                           # 30 with EOD
    'near-limit': b'n' * 26 + b'\r\n' + b'N' * 27 + b'\r\n',   # 60 with EOD
    'at-limit': b'x' * 28 + b'\r\n' + b'X' * 29 + b'\r\n',     # 64 with EOD
    'over-by-1': b'x' * 28 + b'\r\n' + b'X' * 30 + b'\r\n',    # 65 with EOD
    'over-cmds': stuff(b'NOOP\r\n' + b'MAIL FROM:<evil@x>\r\nRCPT TO:<evil2@x>\r\n' * 2 + b'QUIT\r\nNOOP\r\n'),
    'over-multi': b''.join(bytes([97 + i]) * 48 + b'\r\n' for i in range(5)) + b'RSET\r\n',
    'over-long-line': b'y' * 150 + b'\r\n',
    'over-dots': stuff(b'.\r\n' * 30),
    'raw-dot-mid': b'a\r\n.\r\nNOOP\r\nb\r\n',
    'raw-dot-space': b'a\r\n. \r\nNOOP\r\n',
    'raw-dot-lf': b'a\n.\nRSET\r\n',
    'raw-dot-crx': b'a\r\n.\rX\r\nb\r\n',
}
BODY_KINDS = sorted(BODIES)
SPECIAL_LINES = (b'.', b'MAIL', b'RCPT', b'QUIT', b'RSET', b'DATA', b'NOOP', b'XYZZY')


def body_flags(wire, limit):
    """(empty, over-limit, has command-looking or dot-leading line) for one body's wire bytes."""
    lines = wire.splitlines()
    special = any(ln.upper().startswith(SPECIAL_LINES) for ln in lines)
    return (wire == b'', bool(limit) and len(wire) + len(EOD) > limit, special)


def txn(n, sender, rcpts, kind_or_bytes, post=()):
    """One transaction as a list of units [kind, bytes]; kind 'c' command line, 'b' body+EOD."""
    units = []
    if sender == 'sz':
        units.append(['c', b'MAIL FROM:<s%d@x> SIZE=100\r\n' % n])
    else:
        units.append(['c', b'MAIL FROM:<%s%d@x>\r\n' % (sender.encode(), n)])
    for j, r in enumerate(rcpts):
        units.append(['c', b'RCPT TO:<%s%d-%d@x>\r\n' % (r.encode(), n, j)])
    units.append(['c', b'DATA\r\n'])
    body = BODIES[kind_or_bytes] if isinstance(kind_or_bytes, str) else kind_or_bytes
    units.append(['b', body + EOD])
    for p in post:
        units.append(['c', p + b'\r\n'])
    return units


LAYOUTS = ['single-quit', 'single-noquit', 'then-plain-txn', 'after-plain-txn', 'one-rcpt-refused',
           'all-rcpt-refused', 'data-refused', 'mail-refused', 'noop-after']


def designed(kind, layout):
    u = [['c', b'EHLO c\r\n']]
    if layout == 'single-quit':
        u += txn(0, 's', ['r'], kind) + [['c', b'QUIT\r\n']]
    elif layout == 'single-noquit':
        u += txn(0, 's', ['r', 'r'], kind)
    elif layout == 'then-plain-txn':
        u += txn(0, 's', ['r'], kind) + txn(1, 's', ['r'], 'plain') + [['c', b'QUIT\r\n']]
    elif layout == 'after-plain-txn':
        u += txn(0, 's', ['r'], 'plain') + txn(1, 's', ['r'], kind) + [['c', b'QUIT\r\n']]
    elif layout == 'one-rcpt-refused':
        u += txn(0, 's', ['r', 'bad'], kind) + txn(1, 's', ['bad', 'r'], kind) + [['c', b'QUIT\r\n']]
    elif layout == 'all-rcpt-refused':
        u += txn(0, 's', ['bad'], kind) + txn(1, 's', ['r'], 'plain') + [['c', b'QUIT\r\n']]
    elif layout == 'data-refused':
        u += txn(0, 'nodata', ['r'], kind) + [['c', b'RSET\r\n']] + txn(1, 's', ['r'], kind) + [['c', b'QUIT\r\n']]
    elif layout == 'mail-refused':
        u += txn(0, 'nomail', ['r'], kind) + txn(1, 's', ['r'], 'half') + [['c', b'QUIT\r\n']]
    elif layout == 'noop-after':
        u += txn(0, 's', ['r'], kind, [b'NOOP', b'NOOP']) + txn(1, 's', ['r'], kind, [b'RSET']) + \
            [['c', b'NOOP\r\n'], ['c', b'QUIT\r\n']]
    return u


RAND_LINES = [b'x', b'hello world', b'', b'.', b'..', b'. ', b'.x', b'QUIT', b'RSET', b'NOOP', b'DATA',
              b'MAIL FROM:<evil@x>', b'RCPT TO:<evil@x>', b'Subject: s', b'z' * 20, b'z' * 40, b'w' * 70]


def random_body(rnd):
    n = rnd.choice([0, 1, 1, 2, 3, 4, 6, 9])
    out = []
    for _ in range(n):
        ln = rnd.choice(RAND_LINES)
        out.append(ln + (b'\n' if rnd.random() < 0.1 else b'\r\n'))
    body = b''.join(out)
    return body if rnd.random() < 0.12 else stuff(body)      # sometimes unstuffed (adversarial)


def random_stream(rnd):
    u = [['c', b'HELO c\r\n' if rnd.random() < 0.06 else b'EHLO c\r\n']]
    kinds = []
    for n in range(rnd.randrange(1, 4)):
        sender = rnd.choice(['s'] * 10 + ['nodata', 'nodata', 'nomail', 'sz'])
        rcpts = [rnd.choice(['r', 'r', 'r', 'bad']) for _ in range(rnd.randrange(1, 4))]
        if rnd.random() < 0.6:
            k = rnd.choice(BODY_KINDS)
            kinds.append(k)
        else:
            k = random_body(rnd)
            kinds.append('random')
        post = [rnd.choice([b'NOOP', b'RSET', b'NOOP', b'VRFY x'])] if rnd.random() < 0.35 else []
        u += txn(n, sender, rcpts, k, post)
    if rnd.random() < 0.8:
        u.append(['c', b'QUIT\r\n'])
    return u, kinds


def gen_cases(tier, seed, shard, nshards):
    n = 0
    for limit in (None, LIMIT):
        for kind in BODY_KINDS:
            for layout in LAYOUTS:
                if n % nshards == shard:
                    yield {'origin': 'designed', 'limit': limit, 'kinds': [kind], 'layout': layout,
                           'units': designed(kind, layout), 'rs': 1000 + n, 'nrand': NRANDOM_CUTS}
                n += 1
    rnd = random.Random('c09-%d-%d' % (seed, shard))
    for i in range(NRANDOM_STREAMS[tier] // nshards):
        units, kinds = random_stream(rnd)
        yield {'origin': 'random', 'limit': rnd.choice([None, LIMIT, LIMIT]), 'kinds': kinds,
               'layout': 'random', 'units': units, 'rs': rnd.randrange(1 << 30), 'nrand': NRANDOM_CUTS}


# ---------------------------------------------------------------- system under test + monitors

def _plain(v):
    if isinstance(v, dict):
        return sorted([_plain(k), _plain(x)] for k, x in v.items())
    if isinstance(v, (bytes, str, int, bool)) or v is None:
        return v
    return repr(v)


class Handlers(object):
    """Records every callback the server makes.  Refusals are decided from arguments only."""

    def __init__(self):
        self.trace = []
        self.sender = ''

    def _rec(self, name, reply, *args):
        self.trace.append([name, getattr(reply, 'code', None), getattr(reply, 'message', None)] +
                          [_plain(a) for a in args])

    def BANNER_(self, reply):
        self._rec('BANNER_', reply)

    def EHLO(self, reply, ehlo_as):
        self._rec('EHLO', reply, ehlo_as)

    def HELO(self, reply, ehlo_as):
        self._rec('HELO', reply, ehlo_as)

    def MAIL(self, reply, address, params):
        self._rec('MAIL', reply, address, params)
        if address.startswith('nomail'):
            reply.code, reply.message = '550', '5.7.1 sender refused'
        else:
            self.sender = address

    def RCPT(self, reply, address, params):
        self._rec('RCPT', reply, address, params)
        if address.startswith('bad'):
            reply.code, reply.message = '550', '5.1.1 no such user'

    def DATA(self, reply):
        self._rec('DATA', reply)
        if self.sender.startswith('nodata'):
            reply.code, reply.message = '554', '5.5.0 no data from you'

    def HAVE_DATA(self, reply, data, err):
        self._rec('HAVE_DATA', reply, data, type(err).__name__ if err is not None else None)
        if err is not None:
            reply.code, reply.message = '552', '5.3.4 message too big'

    def RSET(self, reply):
        self._rec('RSET', reply)

    def NOOP(self, reply):
        self._rec('NOOP', reply)

    def QUIT(self, reply):
        self._rec('QUIT', reply)

    def CLOSE(self):
        self.trace.append(['CLOSE'])

    def __getattr__(self, name):
        # any other command word the server dispatches to the handler object (custom commands)
        if name.isupper() and name.isalpha():
            def custom(reply=None, arg=None, server=None, *more):
                self._rec(name, reply, arg)
            return custom
        raise AttributeError(name)


class Run(object):
    __slots__ = ('replies', 'trace', 'end', 'fed', 'recv_calls')


def run_server(sock, limit):
    h = Handlers()
    srv = Server(sock, h, address=('client.example', 4321))
    if limit:
        srv.extensions.add('SIZE', limit)
    try:
        srv.handle()
        end = 'returned'
    except ConnectionLost:
        end = 'connection-lost'
    except Exception as e:       # the server re-raises handler/decoding errors after a 4xx/5xx reply
        end = 'exception:' + type(e).__name__
    r = Run()
    r.replies, r.trace, r.end, r.recv_calls = b''.join(sock.sent), h.trace, end, sock.recv_calls
    return r


def run_reference(units, limit):
    """Stop-and-wait: the next unit is fed only when the server reads and nothing is pending."""
    st = {'i': 0, 'lines': [], 'fed': [], 'as_lines': 0}

    def on_recv(ss):
        if ss.segments:
            return
        if st['lines']:
            seg = st['lines'].pop(0)
        elif st['i'] < len(units):
            kind, data = units[st['i']]
            st['i'] += 1
            seg = data
            if kind == 'b':
                sent = b''.join(ss.sent)
                last = sent[sent.rfind(b'\n', 0, len(sent) - 1) + 1:]
                if not last.startswith(b'354 '):
                    # DATA was refused: the client's body lines arrive as ordinary lines
                    st['lines'] = lf_lines(data)
                    seg = st['lines'].pop(0)
                    st['as_lines'] += 1
        else:
            return                      # stream exhausted -> eof
        st['fed'].append(seg)
        ss.feed(seg)

    ss = ScriptSocket([], eof=True, on_recv=on_recv)
    r = run_server(ss, limit)
    r.fed = st['fed']
    return r, st['as_lines'], st['i'] >= len(units) and not st['lines'] and not ss.segments


def run_segments(segs, limit):
    ss = ScriptSocket(segs, eof=True)
    r = run_server(ss, limit)
    r.fed = None
    return r


def cutsets(stream, units, rnd, nrand):
    """Yield (label, sorted cut tuple); duplicates removed by the caller."""
    n = len(stream)
    yield 'burst', ()
    yield 'bytewise', tuple(range(1, n))
    lf = [i + 1 for i in range(n - 1) if stream[i] == 10]
    yield 'per-line', tuple(lf)
    ub, pos, bodies = [], 0, []
    for kind, data in units:
        if kind == 'b':
            bodies.append((pos, pos + len(data)))
        pos += len(data)
        ub.append(pos)
    yield 'per-unit', tuple(ub[:-1])
    adj = sorted(set(p for i in range(n) if stream[i] in (10, 13) for p in (i, i + 1) if 0 < p < n))
    for p in adj:
        yield 'cut1', (p,)
    for (a, b) in bodies:
        nxt = stream.find(b'\n', b) + 1 or n
        for pair in ((a, b), (a, nxt), (a - 3, b), (a + 1, b), (a, b - 1), (a, b - 3), (a + 1, b + 1),
                     (a - 6, b - 2), (a, b + 2)):
            pair = tuple(sorted(set(p for p in pair if 0 < p < n)))
            if pair:
                yield 'cut2-body', pair
    for k in range(nrand):
        if k % 2 == 0 and n > 2:
            cnt = rnd.randint(1, min(n - 1, 8))
            yield 'rand', tuple(sorted(rnd.sample(range(1, n), cnt)))
        elif lf:
            pr = rnd.choice([0.2, 0.5, 0.8])
            cs = [p for p in lf if rnd.random() < pr]
            if rnd.random() < 0.5:       # plus a couple of mid-line cuts
                cs += rnd.sample(range(1, n), min(2, n - 1))
            yield 'rand-lines', tuple(sorted(set(cs)))


# ---------------------------------------------------------------- oracle helpers

def first_diff(a, b):
    for i in range(min(len(a), len(b))):
        if a[i] != b[i]:
            return i
    return None if len(a) == len(b) else min(len(a), len(b))


def _hd(e):
    return e is not None and e[0] == 'HAVE_DATA'


def _toobig(e):
    return _hd(e) and e[-1] == 'MessageTooBig'


def classify(limit, any_over, has_empty, ref, var):
    """Root-cause class of one differing segmentation; decided from the case stratum (limit configured?
    any body over the limit?) and from where the two callback traces first part."""
    d = first_diff(ref.trace, var.trace)
    clause = 'callback-trace-differs' if d is not None else 'replies-differ-trace-equal'
    tag = '+empty-body' if has_empty else ''
    if not limit:
        return 'unclassified/no-size-limit%s/%s' % (tag, clause), d
    er = ref.trace[d] if d is not None and d < len(ref.trace) else None
    ev = var.trace[d] if d is not None and d < len(var.trace) else None
    if _hd(er) and _hd(ev):
        if not _toobig(er) and _toobig(ev):
            return M_ACCOUNT, d           # a body the reference accepted is refused as too big
        if _toobig(er) and not _toobig(ev):
            return M_PREBUF, d            # a body the reference refused as too big is accepted
    common = ref.trace if d is None else ref.trace[:d]
    if any(_toobig(e) for e in common) or _toobig(er) or (any_over and _toobig(ev)):
        return M_NORESYNC, d              # both saw MessageTooBig, what follows differs
    if not any_over and any(_toobig(e) for e in var.trace):
        return M_ACCOUNT, d               # no body over the limit in the stream, yet a 552
    return 'unclassified/size-limit-configured%s/%s' % (tag, clause), d


def reply_codes(b):
    return [ln[:4].decode('latin-1') for ln in b.split(b'\r\n') if ln]


# ---------------------------------------------------------------- the check

def run_case(case, R):
    limit = case['limit']
    units = [[k, bytes(d)] for k, d in case['units']]
    stream = b''.join(d for _, d in units)
    rnd = random.Random(case['rs'])

    flags = [body_flags(d[:-len(EOD)], limit) for k, d in units if k == 'b']
    any_over = any(f[1] for f in flags)
    has_empty = any(f[0] for f in flags)
    last_body = max(i for i, (k, _) in enumerate(units) if k == 'b')
    cmd_after_body = last_body < len(units) - 1
    shape = (limit, case.get('layout'), tuple(case.get('kinds', ())),
             tuple(re.sub(br'[0-9]+', b'#', d.strip()) if k == 'c' else b'BODY' for k, d in units))
    R.observe('stream-shape', shape)
    R.observe('stream', (limit, stream))
    if any(f[0] or f[1] or f[2] for f in flags) and cmd_after_body:
        R.nontrivial((limit, stream))

    # --- reference run (stop-and-wait)
    R.eval()
    ref, as_lines, all_fed = run_reference(units, limit)
    R.hit('reference-run')
    if any(_toobig(e) for e in ref.trace):
        R.hit('ref-message-too-big')
    if as_lines:
        R.hit('ref-refused-data-body-fed-as-lines', as_lines)
    if any(_hd(e) and e[3] == b'' for e in ref.trace):
        R.hit('ref-empty-message-delivered')
    if sum(1 for e in ref.trace if _hd(e)) >= 2:
        R.hit('ref-multi-transaction')
    if cmd_after_body and all_fed:
        R.hit('ref-command-after-body')
    R.hit('ref-end/' + ref.end.split(':')[0])
    R.observe('ref-reply-code-sequence', tuple(reply_codes(ref.replies)))
    R.observe('ref-callback-name-sequence', tuple(e[0] for e in ref.trace))
    if cmd_after_body and any(f[0] or f[1] or f[2] for f in flags) and case['rs'] % 7 == 0:
        R.sample({'limit': limit, 'stream': stream, 'reference_fed': ref.fed, 'replies': ref.replies,
                  'trace': ref.trace, 'end': ref.end})

    # --- every other segmentation of the same bytes
    sid = khash((limit, stream))
    seen = set()
    bad = {}        # mechanism -> [count, labels, best witness]
    ncmp = 0
    for label, cuts in cutsets(stream, units, rnd, case.get('nrand', NRANDOM_CUTS)):
        if cuts in seen:
            continue
        seen.add(cuts)
        R.observe('stream-x-segmentation', (sid, cuts))
        segs = cut(stream, cuts)
        R.eval()
        var = run_segments(segs, limit)
        ncmp += 1
        R.hit('replies-compared')
        R.hit('trace-compared')
        R.count('segmentations-compared/' + label)
        if var.replies == ref.replies and var.trace == ref.trace:
            continue
        mech, d = classify(limit, any_over, has_empty, ref, var)
        b = bad.setdefault(mech, [0, {}, None])
        b[0] += 1
        b[1][label] = b[1].get(label, 0) + 1
        if b[2] is None or len(segs) < len(b[2]['segments']):
            rd = first_diff(ref.replies, var.replies)
            b[2] = {'limit': limit, 'stream': stream, 'segmentation': label, 'segments': segs,
                    'reference_fed': ref.fed,
                    'replies_differ_at_byte': rd,
                    'ref_replies': ref.replies, 'got_replies': var.replies,
                    'trace_differs_at_event': d,
                    'ref_event': ref.trace[d] if d is not None and d < len(ref.trace) else None,
                    'got_event': var.trace[d] if d is not None and d < len(var.trace) else None,
                    'ref_trace': ref.trace, 'got_trace': var.trace,
                    'ref_end': ref.end, 'got_end': var.end,
                    'body_wire_sizes_incl_eod': [len(dd) for kk, dd in units if kk == 'b'],
                    'any_body_over_limit': any_over}
    R.count('segmentations-compared', ncmp)
    for mech, (cnt, labels, wit) in sorted(bad.items()):
        R.count('segmentations-differing', cnt)
        R.count('segmentations-differing/' + mech, cnt)
        wit['differing_segmentations_of_this_stream'] = cnt
        wit['of_compared'] = ncmp
        wit['differing_by_kind'] = labels
        what = ('%d of %d segmentations differ from the stop-and-wait run (limit=%s, bodies=%s, layout=%s); '
                'e.g. %s: replies %s vs reference %s'
                % (cnt, ncmp, limit, ','.join(case.get('kinds', ())), case.get('layout'),
                   wit['segmentation'], '/'.join(reply_codes(wit['got_replies']))[:120],
                   '/'.join(reply_codes(wit['ref_replies']))[:120]))
        R.violation(mech, what, wit)
