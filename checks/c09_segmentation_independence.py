"""C09 -- server behaviour does not depend on how client bytes are segmented or pipelined.

The real slimta.smtp.server.Server runs on a ScriptSocket with a handler object that records
every callback (name, the default reply it was handed, arguments incl. message bytes / error).

Oracle (metamorphic): the STOP-AND-WAIT REFERENCE RUN of the same logical session fixes the
expected concatenated reply bytes and callback trace.  In that run the harness feeds the next
unit only when the server asks for input and nothing is pending (interactive ScriptSocket);
body + end-of-data line is one unit, fed whole only if the reply to DATA was 354 -- if DATA was
refused the body is fed as ordinary lines, one at a time.  Every other segmentation of exactly
the same byte stream (one burst, bytewise, per line, per unit, single cuts at every position
adjacent to CR / LF / the end-of-data line, cut pairs around each body, seeded random cut sets)
must reproduce the same reply bytes and the same trace.  All runs end the same way: a read when
the stream is exhausted returns b'' (ScriptSocket(eof=True)).

Strata added by the coverage audit (all judged by the same oracle):
  limit sweep     short bodies x EVERY value of the SIZE limit from 1 to two past the wire size, so that the
                  byte at which the limit is crossed takes every position relative to the lines (mid-line, between
                  CR and LF, after a line, after the stuffing dot, inside the end-of-data line, exactly at its end)
                  and, through cuts at / next to that byte and all cut pairs over a short body, relative to the
                  recv() boundaries; random sessions draw their limit around the size of one of their bodies.
  hostile lines   command lines other than the well-formed ones: NUL, 8-bit (valid and invalid UTF-8), lower
                  case, blanks, bare LF / CR CR LF / CR inside, empty lines, missing or malformed arguments
                  (incl. the ones that make the server raise), a lone dot as a command, unknown commands, lines
                  longer than the 4096-byte recv size; placed before a transaction, inside it and directly behind
                  an end-of-data line.
  open tail       the stream ends inside a line (no LF): every run must answer the same and lose the connection.
  handler close   the handler object ends the session itself (421 to RCPT, 421 to the message, an exception)
                  with more pipelined bytes behind.
  big body        a body larger than the recv size (a "burst" is then several recv() results).
  starttls        servers that OFFER STARTTLS (a TLS context is configured, vf/tls.py) and streams with STARTTLS
                  commands that are REFUSED -- with an argument (501), before EHLO (503), by the handler object
                  (454 / 554 / 421; every server of this stratum has a refusing STARTTLS handler, so a handshake can
                  never start: what follows a successful STARTTLS is C08's business) -- upper / lower case, twice,
                  in the command phase, inside a transaction, between transactions and directly behind an
                  end-of-data line; the session goes on in clear text and every pipelined byte behind the refused
                  command must be handled as in the stop-and-wait run.
  auth            servers with AUTH enabled (EXTERNAL, the mechanism usable in clear text whose challenge is
                  deterministic, plus PLAIN which is refused as insecure) and streams with AUTH exchanges: initial
                  response given, challenge then response, "=" / cancelled with "*" / bad base64 (initial and as
                  response), insecure and unknown mechanism, lower case, a second AUTH after success, AUTH inside a
                  transaction -- before and between transactions and directly behind a message.  In the
                  stop-and-wait reference the response line is its own unit (sent after the 334).
  full reads      command-phase streams (MAIL / RSET / NOOP lines padded with parameters) whose total length is
                  exactly k*R, k*R-1, k*R+1 for R = the size the server asks the socket for (observed, not assumed),
                  k = 1, 2: in the command phase, with a transaction open (before DATA) and between transactions;
                  one burst (= R-sized reads) with nothing more coming: every complete command must be answered.
  concurrent      2..3 sessions (own Server, own handler object, own socket) run as greenlets at the same time:
                  a recv() with no data ready switches back to the feeder, which hands the next segment to a
                  (seeded) session of its choice, so the sessions interleave segment by segment, each under its own
                  segmentation -- one session inside DATA (with / without SIZE limit) while another is in its command
                  phase, two sessions inside DATA at once.  Oracle unchanged and per session: replies and callback
                  trace equal the stop-and-wait reference run of that session alone.  State shared between
                  sessions (class / module level buffers, counters, mutable defaults) shows here and nowhere else.

Events that refute: concatenated reply bytes differ; callback trace differs.
"""
import re
import random

from vf.core import khash
from vf.sock import ScriptSocket, cut
from vf import tls as vtls
from slimta.smtp.server import Server
from slimta.smtp import ConnectionLost

PROPERTY = 'C09'
LEVEL = 'exploration'
LEVEL_TEXT = ('Real Server + IO + DataReader on a scripted socket with a recording handler object. A designed '
              'grid (body kind x transaction layout x {no SIZE limit, SIZE=64}), a sweep of the SIZE limit over '
              'every value around short bodies, a catalogue of hostile command lines (NUL, 8-bit, over-long, '
              'malformed, bare LF) at three positions, unterminated stream tails, handler-closed sessions, bodies '
              'larger than the recv size, servers offering STARTTLS whose STARTTLS commands are all refused, 2-3 concurrently fed sessions (greenlets switching at every recv() without '
              'data), plus seeded random sessions of 1-3 transactions mixing all of these; '
              'each stream is run once stop-and-wait (reference) and then under ~100-500 other '
              'segmentations; reply bytes and callback trace (with message content) compared exactly on every '
              'run. Held = held on the streams x segmentations reported, not a proof for other streams.')
LEVEL_NOTE = ('Trusted: ScriptSocket, the unit-feeding rule of the reference run (~25 lines), the recording '
              'handlers (scripted refusals are decided from callback arguments only), exact comparison.')
TECHNIQUE = 'runtime monitoring: metamorphic oracle (stop-and-wait reference run vs every other segmentation)'
RULE = ('case = one client byte stream (EHLO|HELO, 1-3 transactions MAIL/RCPT+/DATA/body+EOD [NOOP|RSET], '
        'optional QUIT) x SIZE limit in {none, 64}; bodies from a catalogue (empty, command-looking lines, '
        'lone/double dots, dot-space, bare LF, unstuffed early end-of-data, at / 1 over / far over the limit) '
        'or seeded random line mixes; refusals (MAIL 550, RCPT 550, all RCPT refused -> DATA 503, DATA 554, '
        'MAIL SIZE= too large) are scripted by address. First a designed grid, then seeded random sessions. '
        'Audit strata: SIZE limit swept over 1..wire+2 for short bodies (cuts at the limit byte, all cut pairs over '
        'the body); hostile command lines before / inside / directly behind a transaction; stream ending inside a '
        'line; handler closing the session; body > 4096 bytes; servers offering STARTTLS with refused STARTTLS '
        'commands (argument / before EHLO / handler verdict 454, 554, 421) at every position; servers with AUTH '
        'enabled and AUTH exchanges (initial response, challenge+response, cancel, bad base64, refused mechanisms) '
        'before / between transactions; 2-3 concurrent sessions interleaved segment by '
        'segment (designed pairs/triples x per-session segmentations x seeded / round-robin / nested feeding '
        'orders), each compared with its own stop-and-wait reference. '
        'Each case = 1 reference run + every segmentation listed in the module docstring (each one evaluation). '
        'non-trivial & distinct = distinct (limit, stream) whose stream has >= 1 body that is empty, over the '
        'limit, or has a command-looking or dot-leading line, AND >= 1 command after a body')
ASSUMPTIONS = ['ScriptSocket hands out exactly the scripted segments and reports end-of-stream as b"" (closed '
               'connection); every run of one case receives the identical byte stream',
               'the reference run is the definition of expected behaviour (metamorphic): the check does not '
               'judge whether the reference replies themselves are right',
               'handler refusals are a function of callback arguments (addresses), never of call ordinals']
REQUIRED_HITS = ['reference-run', 'replies-compared', 'trace-compared', 'ref-message-too-big',
                 'ref-refused-data-body-fed-as-lines', 'ref-empty-message-delivered',
                 'ref-command-after-body',
                 # audit strata: each must really have been observed in the reference run
                 'ref-limit-crossed/mid-line', 'ref-limit-crossed/between-cr-and-lf', 'ref-limit-crossed/after-line',
                 'ref-limit-crossed/in-eod-line', 'ref-limit-exactly-at-end-of-eod',
                 'ref-hostile-line-consumed', 'ref-hostile-line-directly-behind-eod', 'ref-end/exception',
                 'ref-open-tail', 'ref-stream-ends-inside-message', 'ref-session-ended-before-stream-end', 'ref-session-closed-by-handler-421',
                 'ref-session-closed-by-handler-exception', 'ref-unit-larger-than-recv-size',
                 'ref-starttls-refused/argument', 'ref-starttls-refused/before-ehlo',
                 'ref-starttls-refused/handler-verdict', 'ref-starttls-refused-directly-behind-eod',
                 'ref-stream-is-a-multiple-of-the-read-size',
                 'ref-auth-challenge-answered', 'ref-auth-succeeded', 'ref-auth-refused',
                 'conc/session-offering-starttls',
                 'conc/session-compared', 'conc/command-phase-while-other-inside-data-no-limit',
                 'conc/command-phase-while-other-inside-data-with-limit', 'conc/two-sessions-inside-data']
SHARDS = {'quick': 16, 'thorough': 16}
BUDGET = {'quick': 60, 'thorough': 800}
EXHAUSTIVE = {'quick': False, 'thorough': False}

LIMIT = 64
NRANDOM_STREAMS = {'quick': 1500, 'thorough': 60000}
NRANDOM_CUTS = 30

# Mechanisms (root causes) the classifier knows; everything else is 'unclassified/<stratum>/<oracle clause>'.
#  M_NORESYNC  reference and variant both report MessageTooBig for a body, what follows differs: DataReader
#              gives up at the recv() piece that crosses the limit, drops that piece and leaves the rest of the
#              body to the command parser (content executed as commands / commands in the dropped piece lost).
#  M_ACCOUNT   a body the reference accepted (stream may have no over-limit body at all) is refused with 552:
#              the size counter adds whole recv() pieces, including pipelined commands behind the EOD line.
#  M_PREBUF    a body the reference refused as too big is accepted: bytes of the body that arrived in the same
#              recv() as the DATA command (taken over from IO.recv_buffer) are never counted.
M_NORESYNC = 'size-limit/over-limit-body-no-resync'
M_ACCOUNT = 'size-limit/accounting-depends-on-recv-boundaries'
M_PREBUF = 'size-limit/accounting-misses-prebuffered-bytes'

# ---------------------------------------------------------------- workload

EOD = b'.\r\n'


def lf_lines(data):
    """Split after every LF (what the server regards as a line); a final unterminated rest is kept."""
    return re.findall(br'[^\n]*\n|[^\n]+$', data)


def stuff(body):
    """Dot-stuff a message the way a well-behaved client does (per LF-terminated line)."""
    out = b''.join((b'.' + ln if ln.startswith(b'.') else ln) for ln in lf_lines(body))
    if out and not out.endswith(b'\n'):
        out += b'\r\n'
    return out


# name -> wire bytes of the body WITHOUT the final end-of-data line.  'raw-*' are unstuffed
# (adversarial): the server sees an early end-of-data line and the rest are commands in every run.
BODIES = {
    'empty': b'',
    'plain': b'Subject: a\r\n\r\nhello\r\n',
    'blank-lines': b'\r\n\r\n',
    'cmds': stuff(b'MAIL FROM:<evil@x>\r\nRCPT TO:<evil2@x>\r\nQUIT\r\nRSET\r\n'),
    'cmds-data': stuff(b'RSET\r\nDATA\r\nNOOP\r\nXYZZY\r\n'),
    'lone-dots': stuff(b'.\r\n.\r\n'),
    'dotdot': stuff(b'..\r\n.. x\r\n.\tx\r\n'),
    'dot-space': stuff(b'. \r\nafter\r\n'),
    'barelf': stuff(b'a\nb\n.\nc\r\n'),
    '8bit': b'\x00\xff\xfe\r\n\x80\r\n',
    'half': b'h' * 25 + b'\r\n',                           # 30 with EOD
    'near-limit': b'n' * 26 + b'\r\n' + b'N' * 27 + b'\r\n',   # 60 with EOD
    'at-limit': b'x' * 28 + b'\r\n' + b'X' * 29 + b'\r\n',     # 64 with EOD
    'over-by-1': b'x' * 28 + b'\r\n' + b'X' * 30 + b'\r\n',    # 65 with EOD
    'over-cmds': stuff(b'NOOP\r\n' + b'MAIL FROM:<evil@x>\r\nRCPT TO:<evil2@x>\r\n' * 2 + b'QUIT\r\nNOOP\r\n'),
    'over-multi': b''.join(bytes([97 + i]) * 48 + b'\r\n' for i in range(5)) + b'RSET\r\n',
    'over-long-line': b'y' * 150 + b'\r\n',
    'over-dots': stuff(b'.\r\n' * 30),
    'raw-dot-mid': b'a\r\n.\r\nNOOP\r\nb\r\n',
    'raw-dot-space': b'a\r\n. \r\nNOOP\r\n',
    'raw-dot-lf': b'a\n.\nRSET\r\n',
    'raw-dot-crx': b'a\r\n.\rX\r\nb\r\n',
}
BODY_KINDS = sorted(BODIES)
SPECIAL_LINES = (b'.', b'MAIL', b'RCPT', b'QUIT', b'RSET', b'DATA', b'NOOP', b'XYZZY')


def body_flags(wire, limit):
    """(empty, over-limit, has command-looking or dot-leading line) for one body's wire bytes."""
    lines = wire.splitlines()
    special = any(ln.upper().startswith(SPECIAL_LINES) for ln in lines)
    return (wire == b'', bool(limit) and len(wire) + len(EOD) > limit, special)


def txn(n, sender, rcpts, kind_or_bytes, post=()):
    """One transaction as a list of units [kind, bytes]; kind 'c' command line, 'b' body+EOD."""
    units = []
    if sender == 'sz':
        units.append(['c', b'MAIL FROM:<s%d@x> SIZE=100\r\n' % n])
    elif sender == 'szs':       # declares less than it sends
        units.append(['c', b'MAIL FROM:<s%d@x> SIZE=10\r\n' % n])
    elif sender == 'szbad':
        units.append(['c', b'MAIL FROM:<s%d@x> SIZE=1x0\r\n' % n])
    else:
        units.append(['c', b'MAIL FROM:<%s%d@x>\r\n' % (sender.encode(), n)])
    for j, r in enumerate(rcpts):
        units.append(['c', b'RCPT TO:<%s%d-%d@x>\r\n' % (r.encode(), n, j)])
    units.append(['c', b'DATA\r\n'])
    body = BODIES[kind_or_bytes] if isinstance(kind_or_bytes, str) else kind_or_bytes
    units.append(['b', body + EOD])
    for p in post:
        units.append(['c', p + b'\r\n'])
    return units


LAYOUTS = ['single-quit', 'single-noquit', 'then-plain-txn', 'after-plain-txn', 'one-rcpt-refused',
           'all-rcpt-refused', 'data-refused', 'mail-refused', 'noop-after']


def designed(kind, layout):
    u = [['c', b'EHLO c\r\n']]
    if layout == 'single-quit':
        u += txn(0, 's', ['r'], kind) + [['c', b'QUIT\r\n']]
    elif layout == 'single-noquit':
        u += txn(0, 's', ['r', 'r'], kind)
    elif layout == 'then-plain-txn':
        u += txn(0, 's', ['r'], kind) + txn(1, 's', ['r'], 'plain') + [['c', b'QUIT\r\n']]
    elif layout == 'after-plain-txn':
        u += txn(0, 's', ['r'], 'plain') + txn(1, 's', ['r'], kind) + [['c', b'QUIT\r\n']]
    elif layout == 'one-rcpt-refused':
        u += txn(0, 's', ['r', 'bad'], kind) + txn(1, 's', ['bad', 'r'], kind) + [['c', b'QUIT\r\n']]
    elif layout == 'all-rcpt-refused':
        u += txn(0, 's', ['bad'], kind) + txn(1, 's', ['r'], 'plain') + [['c', b'QUIT\r\n']]
    elif layout == 'data-refused':
        u += txn(0, 'nodata', ['r'], kind) + [['c', b'RSET\r\n']] + txn(1, 's', ['r'], kind) + [['c', b'QUIT\r\n']]
    elif layout == 'mail-refused':
        u += txn(0, 'nomail', ['r'], kind) + txn(1, 's', ['r'], 'half') + [['c', b'QUIT\r\n']]
    elif layout == 'noop-after':
        u += txn(0, 's', ['r'], kind, [b'NOOP', b'NOOP']) + txn(1, 's', ['r'], kind, [b'RSET']) + \
            [['c', b'NOOP\r\n'], ['c', b'QUIT\r\n']]
    return u


# ---- audit strata ------------------------------------------------------------------------------------------

# short bodies for the limit sweep (wire bytes without the end-of-data line)
SWEEP_BODIES = {
    'sw-dots': stuff(b'ab\r\n.c\r\n.\r\n'),              # stuffed lines, a stuffed lone dot
    'sw-fullstop': stuff(b'x.\r\nRSET\r\ny.\r\n'),          # lines ending in ".", a command-looking line
    'sw-barelf': stuff(b'a\n.b\nNOOP\r\n'),                 # bare LF line ends
    'sw-one-line': b'0123456789\r\n',
    'sw-many-dots': stuff(b'.a\r\n' * 6),                       # many stuffed lines
    'sw-empty': b'',
}

# name -> one command line (LF-terminated): everything but a well-formed command
HOSTILE = {
    'nul': b'\x00\r\n',
    'nul-in-verb': b'NO\x00OP\r\n',
    'nul-arg': b'NOOP a\x00b\r\n',
    '8bit-garbage': b'\xff\xfe\x80\r\n',
    'ehlo-bad-utf8': b'EHLO \xff\xfe\r\n',                # server raises UnicodeDecodeError after a 501
    'mail-bad-utf8': b'MAIL FROM:<\xff@x>\r\n',
    'rcpt-bad-utf8': b'RCPT TO:<\xc3@x>\r\n',
    'mail-utf8': b'MAIL FROM:<\xc3\xa9@x> SMTPUTF8\r\n',
    'vrfy-8bit': b'VRFY \xe9\xe8\r\n',
    'lower': b'noop\r\n',
    'mixed-blanks': b'NoOp   \t \r\n',
    'leading-blank': b' NOOP\r\n',
    'bare-lf': b'NOOP\n',
    'cr-cr-lf': b'NOOP\r\r\n',
    'cr-inside': b'NOOP\rQUIT\r\n',
    'empty-line': b'\r\n',
    'empty-lf': b'\n',
    'blank-line': b'   \r\n',
    'lone-dot': b'.\r\n',
    'dot-dot': b'..\r\n',
    'digits': b'354 go ahead\r\n',
    'rset-arg': b'RSET now\r\n',
    'data-arg': b'DATA now\r\n',
    'quit-arg': b'QUIT now\r\n',
    'mail-no-arg': b'MAIL\r\n',                            # server raises (argument is None)
    'rcpt-no-arg': b'RCPT\r\n',
    'mail-no-angle': b'MAIL FROM:s@x\r\n',
    'mail-unclosed': b'MAIL FROM:<s@x\r\n',
    'mail-quoted': b'MAIL FROM:<"a>b"@x> BODY=8BITMIME\r\n',
    'rcpt-param': b'RCPT TO:<r9-9@x> ORCPT=rfc822;a@x NOTIFY=NEVER\r\n',
    'ehlo-again': b'EHLO again\r\n',
    'helo-again': b'HELO again\r\n',
    'ehlo-no-arg': b'EHLO\r\n',
    'helo-no-arg': b'HELO\r\n',
    'rcpt-no-angle': b'RCPT TO:r@x\r\n',
    'rcpt-unclosed': b'RCPT TO:<r@x\r\n',
    'unknown': b'XYZZY plugh\r\n',
    'starttls': b'STARTTLS\r\n',
    'auth': b'AUTH PLAIN AGEAYg==\r\n',
    'help': b'HELP\r\n',
    'long-noop': b'NOOP ' + b'x' * 1200 + b'\r\n',
    'long-over-recv': b'NOOP ' + b'y' * 4200 + b'\r\n',                 # longer than one recv(4096)
    'long-mail': b'MAIL FROM:<' + b'a' * 4300 + b'@x>\r\n',
    'long-garbage': b'\x01' * 5000 + b'\r\n',
    'long-8bit': b'RCPT TO:<' + b'\xc3\xa9' * 2100 + b'@x>\r\n',
}
HOSTILE_NAMES = sorted(HOSTILE)
HOSTILE_SHORT = [k for k in HOSTILE_NAMES if len(HOSTILE[k]) < 100]

# the stream ends inside a line
OPEN_TAILS = [b'QUIT', b'QUIT\r', b'NOO', b'MAIL FROM:<s9@x>', b'.', b'.\r', b'\x00', b'DATA\r', b' ']

AUDIT_BODIES = dict(SWEEP_BODIES)
AUDIT_BODIES['big-6k'] = b''.join(b'%03d ' % i + bytes([65 + i % 26]) * 44 + b'\r\n' for i in range(120))
AUDIT_BODIES['big-dots'] = stuff(b''.join(b'.%03d' % i + b'.' * 40 + b'\r\n' for i in range(110)))


def audit_designed():
    """Yield (stratum, limit, kinds, layout, units)."""
    E = [['c', b'EHLO c\r\n']]
    Q = [['c', b'QUIT\r\n']]
    # --- limit sweep
    for name in sorted(SWEEP_BODIES):
        wire = len(SWEEP_BODIES[name]) + len(EOD)
        for limit in range(1, wire + 3):
            yield ('limit-sweep', limit, [name], 'sweep-noop-quit',
                   E + txn(0, 's', ['r'], SWEEP_BODIES[name], [b'NOOP']) + Q)
            yield ('limit-sweep', limit, [name], 'sweep-then-txn',
                   E + txn(0, 's', ['r'], SWEEP_BODIES[name]) + txn(1, 's', ['r', 'r'], b'ok\r\n') + Q)
    # --- hostile lines: before the transaction, inside it, directly behind the end-of-data line
    for name in HOSTILE_NAMES:
        h = ['c', HOSTILE[name]]
        for kind in ('cmds', 'empty'):
            t = txn(0, 's', ['r'], kind)
            yield ('hostile', None, [kind], 'hostile:' + name,
                   E + [h] + t[:2] + [h] + t[2:] + [h, ['c', b'NOOP\r\n']] + txn(1, 's', ['r'], 'plain') + Q)
        yield ('hostile', LIMIT, ['over-cmds'], 'hostile:' + name,
               E + txn(0, 's', ['r'], 'over-cmds') + [h, ['c', b'NOOP\r\n']] + Q)
    # --- the stream ends inside a line
    for tail in OPEN_TAILS:
        yield ('open-tail', None, ['cmds'], 'open-tail', E + txn(0, 's', ['r'], 'cmds') + [['c', tail]])
        yield ('open-tail', LIMIT, ['over-cmds'], 'open-tail',
               E + txn(0, 's', ['r'], 'over-cmds', [b'NOOP']) + [['c', tail]])
        yield ('open-tail', None, [], 'open-tail-no-body', E + [['c', b'NOOP\r\n'], ['c', tail]])
    # ... or inside a message (no end-of-data line ever arrives)
    for limit in (None, LIMIT):
        for part in (b'', b'Subject: x\r\n\r\nhalf a li', b'line\r\n', b'line\r\n.', b'line\r\n.\r', b'..',
                     b'MAIL FROM:<evil@x>\r\nQUIT\r\n' * 3 + b'QUIT\r'):
            yield ('open-tail', limit, ['open-body'], 'open-body',
                   E + txn(0, 's', ['r'], 'plain', [b'NOOP']) + txn(1, 's', ['r'], b'')[:-1] + [['b', part]])
    # --- commands before any EHLO
    yield ('hostile', None, ['plain'], 'no-ehlo', [['c', b'MAIL FROM:<s0@x>\r\n'], ['c', b'RCPT TO:<r0@x>\r\n'],
                                                   ['c', b'DATA\r\n'], ['c', b'NOOP\r\n']] + E +
           txn(0, 's', ['r'], 'plain') + Q)
    # --- the handler ends the session with more bytes pipelined behind
    for kind in ('plain', 'empty', 'cmds'):
        rest = txn(1, 's', ['r'], kind) + Q
        yield ('handler-close', None, [kind], 'rcpt-421', E + txn(0, 's', ['r', 'die', 'r'], kind) + rest)
        yield ('handler-close', None, [kind], 'mail-raises', E + txn(0, 'boom', ['r'], kind) + rest)
        yield ('handler-close', None, [kind], 'message-421', E + txn(0, 'bye', ['r'], kind, [b'NOOP']) + rest)
        yield ('handler-close', LIMIT, [kind], 'message-421', E + txn(0, 'bye', ['r'], kind, [b'NOOP']) + rest)
    # --- MAIL SIZE= shapes
    for limit in (None, LIMIT):
        for snd in ('sz', 'szs', 'szbad'):
            for kind in ('half', 'over-by-1'):
                yield ('mail-size', limit, [kind], 'mail-' + snd, E + txn(0, snd, ['r'], kind, [b'NOOP']) + Q)
    # --- bodies larger than one recv()
    for kind in ('big-6k', 'big-dots'):
        for limit in (None, LIMIT, 4500):
            yield ('big-body', limit, [kind], 'big-noop-quit',
                   E + txn(0, 's', ['r'], AUDIT_BODIES[kind], [b'NOOP']) + txn(1, 's', ['r'], 'plain') + Q)


# ---- servers offering STARTTLS, refused STARTTLS commands ---------------------------------------------------

TLS_LINES = {
    'plain': [b'STARTTLS\r\n'],                  # refused by the handler object (454 / 554 / 421)
    'arg': [b'STARTTLS now\r\n'],                # 501
    'lower': [b'starttls\r\n'],
    'mixed-blanks': [b'StartTLS  \t\r\n'],
    'bare-lf': [b'STARTTLS\n'],
    'twice': [b'STARTTLS\r\n', b'STARTTLS\r\n'],
    'arg-then-plain': [b'STARTTLS 1\r\n', b'starttls\r\n'],
}
TLS_VERDICTS = ('454', '554', '421')


def starttls_designed():
    """Yield case dicts (without rs/nrand)."""
    E = [['c', b'EHLO c\r\n']]
    Q = [['c', b'QUIT\r\n']]
    N = [['c', b'NOOP\r\n']]
    for verdict in TLS_VERDICTS:
        for name in sorted(TLS_LINES):
            S = [['c', ln] for ln in TLS_LINES[name]]
            t0, t1 = txn(0, 's', ['r'], 'cmds'), txn(1, 's', ['r'], 'plain')
            layouts = {
                # before EHLO (503), in the command phase, directly behind a message, between transactions
                'tls-around': S + E + S + N + t0 + S + N + t1 + Q,
                # inside a transaction (after MAIL, after RCPT), then behind an empty message
                'tls-inside': E + t0[:1] + S + t0[1:2] + S + txn(0, 's', ['r'], 'empty')[2:] + S + S + N + Q,
                # nothing but the refused command and what is pipelined behind it
                'tls-then-txn': E + S + t1 + Q,
            }
            for layout, units in sorted(layouts.items()):
                yield {'origin': 'starttls', 'limit': None, 'tls': verdict, 'kinds': ['cmds'],
                       'layout': layout + ':' + name, 'units': units}
            yield {'origin': 'starttls', 'limit': LIMIT, 'tls': verdict, 'kinds': ['over-cmds'],
                   'layout': 'tls-behind-too-big:' + name,
                   'units': E + S + txn(0, 's', ['r'], 'over-cmds') + S + N + txn(1, 's', ['r'], 'half') + Q}


# ---- servers with AUTH enabled ---------------------------------------------------------------------------------

B64USER = b'dXNlcg=='       # "user"
AUTH_SHAPES = {             # name -> lines of the exchange (the AUTH command, then the client's responses)
    'initial': [b'AUTH EXTERNAL ' + B64USER],
    'challenge': [b'AUTH EXTERNAL', B64USER],
    'lower-challenge': [b'auth external', B64USER],
    'empty-initial': [b'AUTH EXTERNAL ='],
    'empty-response': [b'AUTH EXTERNAL', b'='],
    'cancel': [b'AUTH EXTERNAL', b'*'],
    'bad-b64-initial': [b'AUTH EXTERNAL !!!notbase64'],
    'bad-b64-response': [b'AUTH EXTERNAL', b'dXNlcg=x='],
    'command-as-response': [b'AUTH EXTERNAL', b'NOOP'],
    'insecure-plain': [b'AUTH PLAIN AGEAYg=='],
    'unknown-mech': [b'AUTH FOO', B64USER],
    'no-arg': [b'AUTH'],
    'twice': [b'AUTH EXTERNAL', B64USER, b'AUTH EXTERNAL', B64USER],
    'cancel-then-ok': [b'AUTH EXTERNAL', b'*', b'AUTH EXTERNAL ' + B64USER],
}


def auth_designed():
    E = [['c', b'EHLO c\r\n']]
    Q = [['c', b'QUIT\r\n']]
    N = [['c', b'NOOP\r\n']]
    for name in sorted(AUTH_SHAPES):
        A = [['c', ln + b'\r\n'] for ln in AUTH_SHAPES[name]]
        t0, t1 = txn(0, 's', ['r'], 'cmds'), txn(1, 's', ['r'], 'plain')
        layouts = {
            'auth-before-txn': E + A + N + t0 + Q,
            'auth-between-txns': E + t1 + A + t0 + N + Q,                 # directly behind a message
            'auth-inside-txn': E + t0[:1] + A + t0[1:] + A + N + Q,       # 503, response lines become commands
            'auth-before-ehlo': A + E + A + N + Q,
        }
        for layout, units in sorted(layouts.items()):
            for limit in ((None, LIMIT) if layout == 'auth-between-txns' else (None,)):
                yield {'origin': 'auth', 'limit': limit, 'auth': True, 'kinds': ['cmds'],
                       'layout': layout + ':' + name, 'units': units}


# ---- command streams that fill the read buffer exactly -------------------------------------------------------

class ProbeSocket(ScriptSocket):
    asked = None

    def recv(self, n, *flags):
        self.asked = n
        return ScriptSocket.recv(self, n, *flags)


_RSZ = []


def read_size():
    """The size the server's IO asks the socket for (observed on a scripted socket)."""
    if not _RSZ:
        from slimta.smtp.io import IO
        ss = ProbeSocket([b'x'])
        IO(ss, address=('h', 1)).raw_recv()
        _RSZ.append(ss.asked)
    return _RSZ[0]


def padded(units, tail, target):
    """units + padding command lines + tail, exactly `target` bytes long."""
    have = sum(len(d) for _, d in units) + sum(len(d) for _, d in tail)
    out, i = list(units), 0
    while target - have > 140:
        ln = (b'MAIL FROM:<pad%d@x> BODY=8BITMIME SIZE=10\r\n' % i, b'RSET\r\n',
              b'NOOP %s\r\n' % (b'p' * 50), b'VRFY user%d\r\n' % i)[i % 4]
        out.append(['c', ln])
        have += len(ln)
        i += 1
    if i % 4 in (1, 2):                      # leave no transaction open behind the padding
        out.append(['c', b'RSET\r\n'])
        have += 6
    out.append(['c', b'NOOP %s\r\n' % (b'f' * (target - have - 7))])
    return out + list(tail)


def full_read_designed():
    rsz = read_size()
    E = [['c', b'EHLO c\r\n']]
    for k in (1, 2):
        for delta in (-1, 0, 1):
            target = k * rsz + delta
            for limit in (None,):
                layouts = {
                    'commands-only': padded(E, [], target),
                    'commands-then-quit': padded(E, [['c', b'QUIT\r\n']], target),
                    'before-data': padded(E, txn(0, 's', ['r', 'r'], 'plain')[:3], target),      # MAIL RCPT RCPT
                    'between-txns': padded(E + txn(0, 's', ['r'], 'cmds'), [['c', b'RSET\r\n']], target),
                    'pad-then-txn': padded(E, txn(0, 's', ['r'], 'plain'), target),
                }
                for layout, units in sorted(layouts.items()):
                    yield {'origin': 'full-read', 'limit': limit, 'kinds': ['plain'],
                           'layout': '%s:k=%d%+d' % (layout, k, delta), 'units': units}


# ---- concurrent sessions ----------------------------------------------------------------------------------

NCONC_RANDOM = {'quick': 120, 'thorough': 4000}


def conc_streams():
    """name -> (limit, units): the sessions that are put side by side."""
    E = [['c', b'EHLO c\r\n']]
    Q = [['c', b'QUIT\r\n']]
    S, SA, SL = ['c', b'STARTTLS\r\n'], ['c', b'STARTTLS now\r\n'], ['c', b'starttls\r\n']
    plain = {
        'cmds-only': (None, E + [['c', b'NOOP\r\n'], ['c', b'RSET\r\n'], ['c', b'VRFY someone\r\n'],
                                ['c', b'MAIL FROM:<s0@x>\r\n'], ['c', b'RSET\r\n'], ['c', b'NOOP\r\n']] + Q),
        'plain-2txn': (None, E + txn(0, 's', ['r'], 'plain') + txn(1, 's', ['r', 'r'], 'dotdot', [b'NOOP']) + Q),
        'cmds-body': (None, E + txn(0, 's', ['r'], 'cmds', [b'NOOP']) + txn(1, 's', ['r'], 'lone-dots') + Q),
        'empty-body': (None, E + txn(0, 's', ['r'], 'empty', [b'NOOP']) + txn(1, 's', ['r'], 'barelf') + Q),
        'long-body': (None, E + txn(0, 's', ['r'], 'over-multi', [b'NOOP']) + Q),
        'lim-under': (LIMIT, E + txn(0, 's', ['r'], 'near-limit', [b'NOOP']) + txn(1, 's', ['r'], 'half') + Q),
        'lim-at': (LIMIT, E + txn(0, 's', ['r'], 'at-limit', [b'NOOP']) + Q),
        'lim-over': (LIMIT, E + txn(0, 's', ['r'], 'over-cmds', [b'NOOP']) + txn(1, 's', ['r'], 'plain') + Q),
        'lim-over-1': (LIMIT, E + txn(0, 's', ['r'], 'over-by-1') + txn(1, 's', ['r'], 'over-dots', [b'NOOP']) + Q),
        'lim-small': (12, E + txn(0, 's', ['r'], SWEEP_BODIES['sw-dots'], [b'NOOP']) +
                      txn(1, 's', ['r'], SWEEP_BODIES['sw-empty']) + Q),
    }
    out = {k: (lim, u, None) for k, (lim, u) in plain.items()}
    # servers offering STARTTLS; every STARTTLS command is refused (argument, before EHLO, handler verdict)
    out['tls-454'] = (None, [S] + E + [S, ['c', b'NOOP\r\n']] + txn(0, 's', ['r'], 'cmds') +
                      [S, ['c', b'NOOP\r\n']] + txn(1, 's', ['r'], 'plain') + Q, '454')
    out['tls-arg-lim'] = (LIMIT, E + [SA, ['c', b'NOOP\r\n']] + txn(0, 's', ['r'], 'over-cmds') +
                          [SA, SL, ['c', b'NOOP\r\n']] + txn(1, 's', ['r'], 'half') + Q, '554')
    out['tls-in-txn'] = (None, E + txn(0, 's', ['r'], 'empty')[:1] + [SL] + txn(0, 's', ['r'], 'empty')[1:] +
                         [S, S, ['c', b'RSET\r\n'], ['c', b'NOOP\r\n']] + Q, '454')
    return out


CONC_SEGS = ('burst', 'per-line', 'per-unit', 'bytewise', 'rand')
CONC_ORDERS = ('random', 'round-robin', 'nested', 'random')


def concurrent_cases(tier, seed):
    names = sorted(conc_streams())
    k = 0
    # designed: every ordered pair of streams (so that each one is once the session that is inside DATA while the
    # other one sends commands), then seeded triples
    for a in names:
        for b in names:
            yield {'origin': 'concurrent', 'sessions': [a, b],
                   'segs': [CONC_SEGS[k % 5], CONC_SEGS[(k // 5 + 2) % 5]], 'order': CONC_ORDERS[k % 4],
                   'rs': 9000 + k}
            k += 1
    rnd = random.Random('c09-conc-%d' % seed)
    for i in range(NCONC_RANDOM[tier]):
        m = rnd.choice([2, 3, 3])
        yield {'origin': 'concurrent', 'sessions': [rnd.choice(names) for _ in range(m)],
               'segs': [rnd.choice(CONC_SEGS) for _ in range(m)], 'order': rnd.choice(CONC_ORDERS),
               'rs': rnd.randrange(1 << 30)}


RAND_LINES = [b'x', b'hello world', b'', b'.', b'..', b'. ', b'.x', b'QUIT', b'RSET', b'NOOP', b'DATA',
              b'MAIL FROM:<evil@x>', b'RCPT TO:<evil@x>', b'Subject: s', b'z' * 20, b'z' * 40, b'w' * 70]


def random_body(rnd):
    n = rnd.choice([0, 1, 1, 2, 3, 4, 6, 9])
    out = []
    for _ in range(n):
        ln = rnd.choice(RAND_LINES)
        out.append(ln + (b'\n' if rnd.random() < 0.1 else b'\r\n'))
    body = b''.join(out)
    return body if rnd.random() < 0.12 else stuff(body)      # sometimes unstuffed (adversarial)


def random_stream(rnd, audit=False):
    """audit=False: well-formed command lines, sessions run to their end (the original random stratum);
    audit=True: additionally hostile lines, open tails, handler-closed sessions, MAIL SIZE= shapes."""
    u = [['c', b'HELO c\r\n' if rnd.random() < 0.06 else b'EHLO c\r\n']]
    kinds = []
    for n in range(rnd.randrange(1, 4)):
        if audit:
            sender = rnd.choice(['s'] * 30 + ['nodata'] * 6 + ['nomail'] * 3 + ['sz', 'sz', 'szs', 'szs', 'szbad',
                                              'bye', 'boom'])
            rcpts = [rnd.choice(['r'] * 30 + ['bad'] * 9 + ['die']) for _ in range(rnd.randrange(1, 4))]
        else:
            sender = rnd.choice(['s'] * 10 + ['nodata', 'nodata', 'nomail', 'sz'])
            rcpts = [rnd.choice(['r', 'r', 'r', 'bad']) for _ in range(rnd.randrange(1, 4))]
        if rnd.random() < (0.5 if audit else 0.6):
            k = rnd.choice(BODY_KINDS)
            kinds.append(k)
        elif audit and rnd.random() < 0.3:
            kinds.append(rnd.choice(sorted(SWEEP_BODIES)))
            k = SWEEP_BODIES[kinds[-1]]
        else:
            k = random_body(rnd)
            kinds.append('random')
        post = [rnd.choice([b'NOOP', b'RSET', b'NOOP', b'VRFY x'])] if rnd.random() < 0.35 else []
        u += txn(n, sender, rcpts, k, post)
    if rnd.random() < 0.8:
        u.append(['c', b'QUIT\r\n'])
    if not audit:
        return u, kinds
    # hostile command lines anywhere but between a DATA command and its body
    if rnd.random() < 0.7:
        for _ in range(rnd.randrange(1, 4)):
            at = rnd.randrange(1, len(u) + 1)
            if at < len(u) and u[at][0] == 'b':
                at += 1
            u.insert(at, ['c', HOSTILE[rnd.choice(HOSTILE_SHORT if rnd.random() < 0.93 else HOSTILE_NAMES)]])
    if rnd.random() < 0.1:
        u.append(['c', rnd.choice(OPEN_TAILS)])
    return u, kinds


def gen_cases(tier, seed, shard, nshards):
    n = 0
    for limit in (None, LIMIT):
        for kind in BODY_KINDS:
            for layout in LAYOUTS:
                if n % nshards == shard:
                    yield {'origin': 'designed', 'limit': limit, 'kinds': [kind], 'layout': layout,
                           'units': designed(kind, layout), 'rs': 1000 + n, 'nrand': NRANDOM_CUTS}
                n += 1
    for stratum, limit, kinds, layout, units in audit_designed():
        if n % nshards == shard:
            yield {'origin': stratum, 'limit': limit, 'kinds': kinds, 'layout': layout, 'units': units,
                   'rs': 5000 + n, 'nrand': NRANDOM_CUTS}
        n += 1
    for c in starttls_designed():
        if n % nshards == shard:
            c.update(rs=7000 + n, nrand=NRANDOM_CUTS)
            yield c
        n += 1
    for c in full_read_designed():
        if n % nshards == shard:
            c.update(rs=6000 + n, nrand=NRANDOM_CUTS)
            yield c
        n += 1
    for c in auth_designed():
        if n % nshards == shard:
            c.update(rs=8000 + n, nrand=NRANDOM_CUTS)
            yield c
        n += 1
    for c in concurrent_cases(tier, seed):
        if n % nshards == shard:
            yield c
        n += 1
    rnd = random.Random('c09-%d-%d' % (seed, shard))
    for i in range(NRANDOM_STREAMS[tier] // nshards):
        audit = i % 3 == 2
        units, kinds = random_stream(rnd, audit)
        limit = rnd.choice([None, LIMIT, LIMIT, 'near'] if audit or i % 3 == 1 else [None, LIMIT, LIMIT])
        if limit == 'near':         # somewhere around the wire size of one of the bodies
            sizes = [len(d) for k, d in units if k == 'b']
            limit = max(1, rnd.choice(sizes) + rnd.choice([-9, -5, -4, -3, -2, -1, 0, 0, 1, 2]))
        tls = None
        if audit and rnd.random() < 0.35:
            tls = rnd.choice(['454', '454', '554', '421'])
            for _ in range(rnd.randrange(1, 4)):
                at = rnd.randrange(0, len(units) + 1)
                if at < len(units) and units[at][0] == 'b':
                    at += 1
                for ln in reversed(TLS_LINES[rnd.choice(sorted(TLS_LINES))]):
                    units.insert(at, ['c', ln])
        auth = None
        if audit and rnd.random() < 0.3:
            auth = True
            for _ in range(rnd.randrange(1, 3)):
                at = rnd.randrange(1, len(units) + 1)
                if at < len(units) and units[at][0] == 'b':
                    at += 1
                for ln in reversed(AUTH_SHAPES[rnd.choice(sorted(AUTH_SHAPES))]):
                    units.insert(at, ['c', ln + b'\r\n'])
        yield {'origin': 'random-audit' if audit else 'random', 'limit': limit, 'tls': tls, 'auth': auth,
               'kinds': kinds,
               'layout': 'random', 'units': units, 'rs': rnd.randrange(1 << 30), 'nrand': NRANDOM_CUTS}


# ---------------------------------------------------------------- system under test + monitors

def _plain(v):
    if isinstance(v, dict):
        return sorted([_plain(k), _plain(x)] for k, x in v.items())
    if isinstance(v, (bytes, str, int, bool)) or v is None:
        return v
    return repr(v)


class Handlers(object):
    """Records every callback the server makes.  Refusals are decided from arguments only."""

    def __init__(self, tls_verdict=None):
        self.trace = []
        self.sender = ''
        self.tls_verdict = tls_verdict

    def AUTH(self, reply, creds):
        self._rec('AUTH', reply, type(creds).__name__, getattr(creds, 'authcid', None),
                  getattr(creds, 'authzid', None))

    def STARTTLS(self, reply, extensions):
        # servers with a TLS context always refuse: a handshake never starts in this check
        self._rec('STARTTLS', reply)
        reply.code = self.tls_verdict or '454'
        reply.message = {'421': '4.7.0 TLS not available, closing', '554': '5.7.0 TLS refused'}.get(
            reply.code, '4.7.0 TLS not available due to temporary reason')

    def _rec(self, name, reply, *args):
        self.trace.append([name, getattr(reply, 'code', None), getattr(reply, 'message', None)] +
                          [_plain(a) for a in args])

    def BANNER_(self, reply):
        self._rec('BANNER_', reply)

    def EHLO(self, reply, ehlo_as):
        self._rec('EHLO', reply, ehlo_as)

    def HELO(self, reply, ehlo_as):
        self._rec('HELO', reply, ehlo_as)

    def MAIL(self, reply, address, params):
        self._rec('MAIL', reply, address, params)
        if address.startswith('nomail'):
            reply.code, reply.message = '550', '5.7.1 sender refused'
        elif address.startswith('boom'):
            raise RuntimeError('handler failure scripted for ' + address)
        else:
            self.sender = address

    def RCPT(self, reply, address, params):
        self._rec('RCPT', reply, address, params)
        if address.startswith('bad'):
            reply.code, reply.message = '550', '5.1.1 no such user'
        elif address.startswith('die'):
            reply.code, reply.message = '421', '4.7.0 too many recipients, closing'

    def DATA(self, reply):
        self._rec('DATA', reply)
        if self.sender.startswith('nodata'):
            reply.code, reply.message = '554', '5.5.0 no data from you'

    def HAVE_DATA(self, reply, data, err):
        self._rec('HAVE_DATA', reply, data, type(err).__name__ if err is not None else None)
        if err is not None:
            reply.code, reply.message = '552', '5.3.4 message too big'
        elif self.sender.startswith('bye'):
            reply.code, reply.message = '421', '4.3.0 closing after this message'

    def RSET(self, reply):
        self._rec('RSET', reply)

    def NOOP(self, reply):
        self._rec('NOOP', reply)

    def QUIT(self, reply):
        self._rec('QUIT', reply)

    def CLOSE(self):
        self.trace.append(['CLOSE'])

    def __getattr__(self, name):
        # any other command word the server dispatches to the handler object (custom commands)
        if name.isupper() and name.isalpha():
            def custom(reply=None, arg=None, server=None, *more):
                self._rec(name, reply, arg)
            return custom
        raise AttributeError(name)


class Run(object):
    __slots__ = ('replies', 'trace', 'end', 'fed', 'recv_calls')


_CTX = []


def tls_context():
    if not _CTX:
        _CTX.append(vtls.server_context())
    return _CTX[0]


def shard_cleanup():
    vtls.cleanup()


def run_server(sock, limit, tls=None, auth=None):
    h = Handlers(tls)
    kw = {}
    if tls:
        kw['context'] = tls_context()
    if auth:
        kw['auth'] = [b'EXTERNAL', b'PLAIN']
    srv = Server(sock, h, address=('client.example', 4321), **kw)
    if limit:
        srv.extensions.add('SIZE', limit)
    try:
        srv.handle()
        end = 'returned'
    except ConnectionLost:
        end = 'connection-lost'
    except Exception as e:       # the server re-raises handler/decoding errors after a 4xx/5xx reply
        end = 'exception:' + type(e).__name__
    r = Run()
    r.replies, r.trace, r.end, r.recv_calls = b''.join(sock.sent), h.trace, end, sock.recv_calls
    return r


def run_reference(units, limit, tls=None, auth=None):
    """Stop-and-wait: the next unit is fed only when the server reads and nothing is pending."""
    st = {'i': 0, 'lines': [], 'fed': [], 'as_lines': 0}

    def on_recv(ss):
        if ss.segments:
            return
        if st['lines']:
            seg = st['lines'].pop(0)
        elif st['i'] < len(units):
            kind, data = units[st['i']]
            st['i'] += 1
            seg = data
            if kind == 'b':
                sent = b''.join(ss.sent)
                last = sent[sent.rfind(b'\n', 0, len(sent) - 1) + 1:]
                if not last.startswith(b'354 '):
                    # DATA was refused: the client's body lines arrive as ordinary lines
                    st['lines'] = lf_lines(data)
                    seg = st['lines'].pop(0) if st['lines'] else b''
                    st['as_lines'] += 1
        else:
            return                      # stream exhausted -> eof
        st['fed'].append(seg)
        ss.feed(seg)

    ss = ScriptSocket([], eof=True, on_recv=on_recv)
    r = run_server(ss, limit, tls, auth)
    r.fed = st['fed']
    return r, st['as_lines'], st['i'] >= len(units) and not st['lines'] and not ss.segments


def run_segments(segs, limit, tls=None, auth=None):
    ss = ScriptSocket(segs, eof=True)
    r = run_server(ss, limit, tls, auth)
    r.fed = None
    return r


def cutsets(stream, units, rnd, nrand, limit=None, allpairs=True):
    """Yield (label, sorted cut tuple); duplicates removed by the caller."""
    n = len(stream)
    yield 'burst', ()
    yield 'bytewise', tuple(range(1, n))
    lf = [i + 1 for i in range(n - 1) if stream[i] == 10]
    yield 'per-line', tuple(lf)
    ub, pos, bodies = [], 0, []
    for kind, data in units:
        if kind == 'b':
            bodies.append((pos, pos + len(data)))
        pos += len(data)
        ub.append(pos)
    yield 'per-unit', tuple(ub[:-1])
    adj = sorted(set(p for i in range(n) if stream[i] in (10, 13) for p in (i, i + 1) if 0 < p < n))
    for p in adj:
        yield 'cut1', (p,)
    for (a, b) in bodies:
        nxt = stream.find(b'\n', b) + 1 or n
        for pair in ((a, b), (a, nxt), (a - 3, b), (a + 1, b), (a, b - 1), (a, b - 3), (a + 1, b + 1),
                     (a - 6, b - 2), (a, b + 2)):
            pair = tuple(sorted(set(p for p in pair if 0 < p < n)))
            if pair:
                yield 'cut2-body', pair
    # audit: recv() boundaries at / next to the byte at which the SIZE limit is crossed, alone and combined with
    # the boundaries of the body; for a short body every pair of cuts from just before it to the end of the
    # line that follows it (at most 5 bytes behind it; for one random session in four)
    for (a, b) in bodies:
        nxt = stream.find(b'\n', b) + 1 or n
        if limit and a + limit <= min(nxt, b + 12) + 2:
            near = [a + limit + d for d in (-1, 0, 1, 2)]
            for p in near:
                if 0 < p < n:
                    yield 'cut-limit', (p,)
            for p in near:
                for q in near + [a, a + 1, b - 3, b - 2, b - 1, b, nxt]:
                    pair = tuple(sorted(set(c for c in (p, q) if 0 < c < n)))
                    if len(pair) == 2:
                        yield 'cut-limit', pair
            for q in (b - 2, b - 1, b):
                tri = tuple(sorted(set(c for c in (a, a + limit, q) if 0 < c < n)))
                if len(tri) == 3:
                    yield 'cut-limit', tri
        if allpairs and b - a <= 18:
            lo, hi = max(1, a - 2), min(n - 1, nxt + 1, b + 5)
            for p in range(lo, hi + 1):
                for q in range(p + 1, hi + 1):
                    yield 'cut2-all-short-body', (p, q)
    for k in range(nrand):
        if k % 2 == 0 and n > 2:
            cnt = rnd.randint(1, min(n - 1, 8))
            yield 'rand', tuple(sorted(rnd.sample(range(1, n), cnt)))
        elif lf:
            pr = rnd.choice([0.2, 0.5, 0.8])
            cs = [p for p in lf if rnd.random() < pr]
            if rnd.random() < 0.5:       # plus a couple of mid-line cuts
                cs += rnd.sample(range(1, n), min(2, n - 1))
            yield 'rand-lines', tuple(sorted(set(cs)))


# ---------------------------------------------------------------- concurrent sessions (audit stratum)

class SwitchSocket(ScriptSocket):
    """A read with no data ready switches to the feeder greenlet (what a gevent socket does with the hub) and
    resumes when the feeder switches back; end of stream is reported as b'' once the feeder has said so."""

    def __init__(self, feeder):
        ScriptSocket.__init__(self, [], eof=False)
        self.feeder = feeder
        self.blocked = False

    def _next(self, n):
        while not self.segments and not self.eof:
            self.blocked = True
            self.feeder.switch()
            self.blocked = False
        return ScriptSocket._next(self, n)


def _inside_data(sock):
    """Blocked in a read and the last reply line written is the 354: the server is reading a message."""
    if not sock.blocked or not sock.sent:
        return False
    sent = b''.join(sock.sent)
    return sent[sent.rfind(b'\n', 0, len(sent) - 1) + 1:].startswith(b'354 ')


def conc_segments(stream, units, how, rnd):
    n = len(stream)
    if how == 'burst':
        cuts = ()
    elif how == 'bytewise':
        cuts = tuple(range(1, n))
    elif how == 'per-line':
        cuts = tuple(i + 1 for i in range(n - 1) if stream[i] == 10)
    elif how == 'per-unit':
        pos, cuts = 0, []
        for _, d in units[:-1]:
            pos += len(d)
            cuts.append(pos)
        cuts = tuple(cuts)
    else:
        cuts = tuple(sorted(rnd.sample(range(1, n), min(n - 1, rnd.randint(3, 14)))))
    return cuts, cut(stream, cuts)


def run_concurrent(case, R):
    import greenlet
    rnd = random.Random(case['rs'])
    cat = conc_streams()
    feeder = greenlet.getcurrent()
    S = []
    for name, how in zip(case['sessions'], case['segs']):
        limit, units, tls = cat[name]
        stream = b''.join(d for _, d in units)
        cuts, segs = conc_segments(stream, units, how, rnd)
        S.append({'name': name, 'limit': limit, 'units': units, 'stream': stream, 'cuts': cuts, 'segs': segs, 'tls': tls,
                  'next': 0, 'sock': SwitchSocket(feeder), 'run': None, 'overlapped_inside_data': False})
    # --- the sessions: real Server objects, each in its own greenlet
    for s in S:
        def body(s=s):
            s['run'] = run_server(s['sock'], s['limit'], s['tls'])
        s['g'] = greenlet.greenlet(body, parent=feeder)
    for s in S:
        s['g'].switch()                 # banner, then blocks in its first read
    # --- the feeder: one segment at a time to a session of its choice
    order, schedule, turn = case['order'], [], 0
    nested_first = rnd.randrange(len(S))
    while True:
        live = [i for i, s in enumerate(S) if not s['g'].dead]
        if not live:
            break
        if order == 'round-robin':
            j = live[turn % len(live)]
        elif order == 'nested':
            # one session is driven until it is inside DATA, then the others run to their end, then it resumes
            f = S[nested_first]
            others = [i for i in live if i != nested_first]
            j = nested_first if (nested_first in live and (not others or not _inside_data(f['sock']))) else others[0]
        else:
            j = rnd.choice(live)
        turn += 1
        s = S[j]
        before = [(_inside_data(t['sock']), t['limit']) for t in S]
        progress = (len(s['sock'].sent), len(s['sock'].segments))
        if s['next'] < len(s['segs']):
            s['sock'].feed(s['segs'][s['next']])
            s['next'] += 1
        else:
            s['sock'].eof = True
        schedule.append(j)
        s['g'].switch()
        if len(s['sock'].sent) != progress[0]:          # session j answered something in this turn
            others_in_data = [(i, lim) for i, (ind, lim) in enumerate(before) if ind and i != j]
            if others_in_data and not before[j][0]:
                for i, lim in others_in_data:
                    R.hit('conc/command-phase-while-other-inside-data-' + ('with-limit' if lim else 'no-limit'))
                    S[i]['overlapped_inside_data'] = True
        if sum(1 for ind, _ in before if ind) >= 2:
            R.hit('conc/two-sessions-inside-data')
        if len(schedule) > 200000:
            R.inconclusive('concurrent feeder did not terminate')
            return
    R.observe('conc/interleaving', (tuple(case['sessions']), tuple(s['cuts'] for s in S), tuple(schedule)))
    R.observe('conc/session-set', tuple(sorted(case['sessions'])))
    R.count('conc/feeder-turns', len(schedule))
    if any(t['limit'] for t in S) and any(not t['limit'] for t in S):
        R.hit('conc/limit-and-no-limit-sessions-side-by-side')
    R.nontrivial(('concurrent', tuple(case['sessions']), tuple(s['cuts'] for s in S), tuple(schedule)))
    # --- oracle, per session: the stop-and-wait reference run of that session alone
    for k, s in enumerate(S):
        R.eval(2)
        ref, as_lines, all_fed = run_reference(s['units'], s['limit'], s['tls'])
        if s['tls']:
            R.hit('conc/session-offering-starttls')
        R.hit('reference-run')
        var = s['run']
        R.hit('conc/session-compared')
        R.hit('replies-compared')
        R.hit('trace-compared')
        if var is not None and var.replies == ref.replies and var.trace == ref.trace:
            continue
        # is it the segmentation (judged by the other strata) or the company?
        R.eval()
        solo = run_segments(s['segs'], s['limit'], s['tls'])
        alone_ok = solo.replies == ref.replies and solo.trace == ref.trace
        d = first_diff(ref.trace, var.trace) if var is not None else 0
        clause = 'callback-trace-differs' if d is not None else 'replies-differ-trace-equal'
        mech = ('concurrent-sessions/%s%s' % (clause, '/session-inside-data' if s['overlapped_inside_data'] else '')
                if alone_ok else 'concurrent-sessions/also-differs-alone/' + clause)
        others = [t['stream'] for i, t in enumerate(S) if i != k]
        got = var.trace if var is not None else []
        foreign = any(isinstance(a, bytes) and len(a) >= 6 and a not in s['stream'] and
                      any(a[:24] in o for o in others) for e in got for a in e)
        R.violation(mech, 'session %d (%s, %s) of %d concurrent sessions %s differs from its own stop-and-wait '
                    'reference%s; the same segmentation alone %s'
                    % (k, s['name'], case['segs'][k], len(S), case['sessions'],
                       ' (callback arguments contain bytes of another session)' if foreign else '',
                       'matches it' if alone_ok else 'differs too'),
                    {'sessions': case['sessions'], 'segmentations': case['segs'], 'order': case['order'],
                     'session': k, 'limit': s['limit'], 'stream': s['stream'], 'segments': s['segs'],
                     'feeding_order_first_200': schedule[:200],
                     'ref_replies': ref.replies, 'got_replies': var.replies if var is not None else None,
                     'trace_differs_at_event': d,
                     'ref_event': ref.trace[d] if d is not None and d < len(ref.trace) else None,
                     'got_event': got[d] if d is not None and d < len(got) else None,
                     'ref_trace': ref.trace, 'got_trace': got,
                     'ref_end': ref.end, 'got_end': var.end if var is not None else None,
                     'same_segmentation_alone_matches_reference': alone_ok,
                     'callbacks_contain_bytes_of_another_session': foreign})


# ---------------------------------------------------------------- oracle helpers

def first_diff(a, b):
    for i in range(min(len(a), len(b))):
        if a[i] != b[i]:
            return i
    return None if len(a) == len(b) else min(len(a), len(b))


def _hd(e):
    return e is not None and e[0] == 'HAVE_DATA'


def _toobig(e):
    return _hd(e) and e[-1] == 'MessageTooBig'


def classify(limit, any_over, has_empty, ref, var, extra_tag=''):
    """Root-cause class of one differing segmentation; decided from the case stratum (limit configured?
    any body over the limit?) and from where the two callback traces first part."""
    d = first_diff(ref.trace, var.trace)
    clause = 'callback-trace-differs' if d is not None else 'replies-differ-trace-equal'
    tag = '+empty-body' if has_empty else ''
    tag += extra_tag
    mech, d = _classify(limit, any_over, tag, clause, ref, var, d)
    # a stream of an audit stratum (hostile lines, open tail, handler-closed session) is its own witness class
    return (mech + extra_tag if mech.startswith('size-limit/') else mech), d


def _classify(limit, any_over, tag, clause, ref, var, d):
    if not limit:
        return 'unclassified/no-size-limit%s/%s' % (tag, clause), d
    er = ref.trace[d] if d is not None and d < len(ref.trace) else None
    ev = var.trace[d] if d is not None and d < len(var.trace) else None
    if _hd(er) and _hd(ev):
        if not _toobig(er) and _toobig(ev):
            return M_ACCOUNT, d           # a body the reference accepted is refused as too big
        if _toobig(er) and not _toobig(ev):
            return M_PREBUF, d            # a body the reference refused as too big is accepted
    common = ref.trace if d is None else ref.trace[:d]
    if d is not None and (any(_toobig(e) for e in common) or _toobig(er) or (any_over and _toobig(ev))):
        return M_NORESYNC, d              # both saw MessageTooBig, the callbacks that follow differ
    if not any_over and any(_toobig(e) for e in var.trace):
        return M_ACCOUNT, d               # no body over the limit in the stream, yet a 552
    return 'unclassified/size-limit-configured%s/%s' % (tag, clause), d


def reply_codes(b):
    return [ln[:4].decode('latin-1') for ln in b.split(b'\r\n') if ln]


# ---------------------------------------------------------------- the check

def run_case(case, R):
    if case.get('origin') == 'concurrent':
        return run_concurrent(case, R)
    limit = case['limit']
    units = [[k, bytes(d)] for k, d in case['units']]
    stream = b''.join(d for _, d in units)
    rnd = random.Random(case['rs'])

    flags = [body_flags(d[:-len(EOD)], limit) for k, d in units if k == 'b']
    any_over = any(f[1] for f in flags)
    has_empty = any(f[0] for f in flags)
    last_body = max([i for i, (k, _) in enumerate(units) if k == 'b'] or [len(units)])
    cmd_after_body = last_body < len(units) - 1
    shape = (limit, case.get('layout'), tuple(case.get('kinds', ())),
             tuple(re.sub(br'[0-9]+', b'#', d.strip()) if k == 'c' else b'BODY' for k, d in units))
    R.observe('stream-shape', shape)
    R.observe('stream', (limit, stream))
    if any(f[0] or f[1] or f[2] for f in flags) and cmd_after_body:
        R.nontrivial((limit, stream))

    # --- reference run (stop-and-wait)
    R.eval()
    tls, auth = case.get('tls'), case.get('auth')
    ref, as_lines, all_fed = run_reference(units, limit, tls, auth)
    R.hit('reference-run')
    if any(_toobig(e) for e in ref.trace):
        R.hit('ref-message-too-big')
    if as_lines:
        R.hit('ref-refused-data-body-fed-as-lines', as_lines)
    if any(_hd(e) and e[3] == b'' for e in ref.trace):
        R.hit('ref-empty-message-delivered')
    if sum(1 for e in ref.trace if _hd(e)) >= 2:
        R.hit('ref-multi-transaction')
    if cmd_after_body and all_fed:
        R.hit('ref-command-after-body')
    R.hit('ref-end/' + ref.end.split(':')[0])
    # --- audit strata: what the reference run really went through
    hostile_lines = set(HOSTILE.values())
    open_body = units[-1][0] == 'b' and not units[-1][1].endswith(b'\n' + EOD) and units[-1][1] != EOD
    open_tail = open_body or (units[-1][0] == 'c' and not units[-1][1].endswith(b'\n'))
    n_hostile = sum(1 for k, d in units if k == 'c' and d in hostile_lines)
    fed = list(ref.fed)
    for i, (k, d) in enumerate(units):
        if k == 'c' and d in hostile_lines and d in fed:
            R.hit('ref-hostile-line-consumed')
            R.observe('hostile-line-consumed', d[:40])
            if i and units[i - 1][0] == 'b' and units[i - 1][1] in fed:
                R.hit('ref-hostile-line-directly-behind-eod')
        if len(d) > 4096 and d in fed:
            R.hit('ref-unit-larger-than-recv-size')
    tls_lines = set(ln for v in TLS_LINES.values() for ln in v)
    n_tls = 0
    if tls:
        if b'220 2.7.0 Go ahead' in ref.replies:
            R.inconclusive('harness: a STARTTLS command was accepted (must always be refused in this check)')
            return
        seen_ehlo = False
        for i, (k, d) in enumerate(units):
            if k == 'c' and d[:4].upper() in (b'EHLO', b'HELO') and d in fed:
                seen_ehlo = True
            if k == 'c' and d in tls_lines and d in fed:
                n_tls += 1
                if len(d.split()) > 1:
                    R.hit('ref-starttls-refused/argument')
                elif not seen_ehlo:
                    R.hit('ref-starttls-refused/before-ehlo')
                if i and units[i - 1][0] == 'b' and units[i - 1][1] in fed:
                    R.hit('ref-starttls-refused-directly-behind-eod')
        nh = sum(1 for e in ref.trace if e[0] == 'STARTTLS')
        if nh:
            R.hit('ref-starttls-refused/handler-verdict', nh)
            R.observe('starttls-handler-verdict', tls)
    if auth:
        codes = reply_codes(ref.replies)
        n334 = sum(1 for c in codes if c.startswith('334'))
        if n334:
            R.hit('ref-auth-challenge-answered', n334)
        if any(e[0] == 'AUTH' for e in ref.trace):
            R.hit('ref-auth-succeeded')
        if any(c[:3] in ('501', '504', '503') for c in codes):
            R.hit('ref-auth-refused')
        R.observe('auth-layout', case.get('layout'))
    if case.get('origin') == 'full-read':
        R.observe('read-size', read_size())
        if len(stream) % read_size() == 0 and all_fed:
            R.hit('ref-stream-is-a-multiple-of-the-read-size')
    if open_tail and all_fed:
        R.hit('ref-open-tail')
        if open_body and units[-1][1] in fed + [b''] and ref.end == 'connection-lost':
            R.hit('ref-stream-ends-inside-message')
    if not all_fed:
        R.hit('ref-session-ended-before-stream-end')
    if b'\r\n421 4.7.0 too many recipients' in ref.replies or b'\r\n421 4.3.0 closing after' in ref.replies:
        R.hit('ref-session-closed-by-handler-421')
    if ref.end == 'exception:RuntimeError':
        R.hit('ref-session-closed-by-handler-exception')
    if limit:
        for k, d in units:
            if k != 'b' or d not in fed:
                continue
            if len(d) == limit:
                R.hit('ref-limit-exactly-at-end-of-eod')
            elif len(d) > limit:
                last, first = d[limit - 1:limit], d[limit:limit + 1]     # last byte within / first byte over
                if limit > len(d) - len(EOD):
                    where = 'in-eod-line'
                elif last == b'\r' and first == b'\n':
                    where = 'between-cr-and-lf'
                elif last == b'\n':
                    where = 'after-line'
                else:
                    where = 'mid-line'
                R.hit('ref-limit-crossed/' + where)
                R.observe('limit-crossing', (where, len(d) - limit if len(d) - limit < 6 else 6, last, first))
    # one tag at most (the most specific audit stratum the stream belongs to), so that one root cause does not
    # fan out into a mechanism per combination
    extra_tag = ([t for t, on in (('+stream-fills-read-buffer', case.get('origin') == 'full-read'), ('+auth-enabled', auth), ('+starttls-refused', n_tls), ('+open-tail', open_tail), ('+hostile-lines', n_hostile),
                                  ('+handler-close', ref.end == 'exception:RuntimeError' or
                                   b'\r\n421 4.' in ref.replies)) if on] + [''])[0]
    R.observe('ref-reply-code-sequence', tuple(reply_codes(ref.replies)))
    R.observe('ref-callback-name-sequence', tuple(e[0] for e in ref.trace))
    if cmd_after_body and any(f[0] or f[1] or f[2] for f in flags) and case['rs'] % 7 == 0:
        R.sample({'limit': limit, 'stream': stream, 'reference_fed': ref.fed, 'replies': ref.replies,
                  'trace': ref.trace, 'end': ref.end})

    # --- every other segmentation of the same bytes
    sid = khash((limit, stream))
    seen = set()
    bad = {}        # mechanism -> [count, labels, best witness]
    ncmp = 0
    allpairs = not str(case.get('origin', '')).startswith('random') or case['rs'] % 4 == 0
    if case.get('origin') == 'full-read':
        # long command streams: the reads that matter are the full-size ones (a burst comes in R-sized reads)
        rsz, n = read_size(), len(stream)
        lf = tuple(i + 1 for i in range(n - 1) if stream[i] == 10)
        gen = [('burst', ()), ('per-line', lf), ('cut-read-size', tuple(range(rsz, n, rsz))),
               ('cut-read-size', (rsz - 1,)), ('cut-read-size', (rsz + 1,)), ('cut-read-size', (1,)),
               ('cut-read-size', (n - 1,)), ('cut-read-size', (n - rsz,) if n > rsz else (n - 2,)),
               ('cut-read-size', tuple([1] + list(range(rsz + 1, n, rsz)))), ('per-line', lf[::2]), ('per-line', lf[::7])]
        gen += [('rand', tuple(sorted(rnd.sample(range(1, n), rnd.randint(1, 6))))) for _ in range(6)]
    else:
        gen = cutsets(stream, units, rnd, case.get('nrand', NRANDOM_CUTS), limit, allpairs)
    for label, cuts in gen:
        if cuts in seen:
            continue
        seen.add(cuts)
        R.observe('stream-x-segmentation', (sid, cuts))
        segs = cut(stream, cuts)
        R.eval()
        var = run_segments(segs, limit, tls, auth)
        ncmp += 1
        R.hit('replies-compared')
        R.hit('trace-compared')
        R.count('segmentations-compared/' + label)
        if var.replies == ref.replies and var.trace == ref.trace:
            continue
        mech, d = classify(limit, any_over, has_empty, ref, var, extra_tag)
        b = bad.setdefault(mech, [0, {}, None])
        b[0] += 1
        b[1][label] = b[1].get(label, 0) + 1
        if b[2] is None or len(segs) < len(b[2]['segments']):
            rd = first_diff(ref.replies, var.replies)
            b[2] = {'limit': limit, 'stream': stream, 'segmentation': label, 'segments': segs,
                    'reference_fed': ref.fed,
                    'replies_differ_at_byte': rd,
                    'ref_replies': ref.replies, 'got_replies': var.replies,
                    'trace_differs_at_event': d,
                    'ref_event': ref.trace[d] if d is not None and d < len(ref.trace) else None,
                    'got_event': var.trace[d] if d is not None and d < len(var.trace) else None,
                    'ref_trace': ref.trace, 'got_trace': var.trace,
                    'ref_end': ref.end, 'got_end': var.end,
                    'body_wire_sizes_incl_eod': [len(dd) for kk, dd in units if kk == 'b'],
                    'any_body_over_limit': any_over}
    R.count('segmentations-compared', ncmp)
    for mech, (cnt, labels, wit) in sorted(bad.items()):
        R.count('segmentations-differing', cnt)
        R.count('segmentations-differing/' + mech, cnt)
        wit['differing_segmentations_of_this_stream'] = cnt
        wit['of_compared'] = ncmp
        wit['differing_by_kind'] = labels
        what = ('%d of %d segmentations differ from the stop-and-wait run (limit=%s, bodies=%s, layout=%s); '
                'e.g. %s: replies %s vs reference %s'
                % (cnt, ncmp, limit, ','.join(case.get('kinds', ())), case.get('layout'),
                   wit['segmentation'], '/'.join(reply_codes(wit['got_replies']))[:120],
                   '/'.join(reply_codes(wit['ref_replies']))[:120]))
        R.violation(mech, what, wit)
