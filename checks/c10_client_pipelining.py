"""C10 -- the (pipelining) SMTP/LMTP client pairs every reply with the command that caused it.

The real slimta.smtp.client.Client / LmtpClient run on a vf.sock.ScriptSocket whose peer is a scripted
reply server (ReplyServer below):

 * every reply has a UNIQUE text (each line carries the marker r<k>x), so the pairing is read off the
   text of the Reply objects the client methods returned;
 * the server parses what the client wrote with its own line splitter (commands vs. message content
   after a 3xx answer to DATA) and makes reply k available only once command k has been flushed to the
   socket; a read when nothing more is owed raises WouldBlock (the real program would hang);
 * after the last scripted reply an unsolicited tail follows; at the end io.recv_buffer + unread bytes
   must be exactly that tail;
 * LMTP: one end-of-data reply per recipient the script answered 2xx, naming that recipient.

Events that refute: a returned Reply holding the answer to another command / damaged text / never
populated after a synchronous command; WouldBlock (reads past the last owed reply, or waits for a reply
whose command it has not flushed); tail consumed or owed replies left unread; LMTP end-of-data replies
paired with the wrong recipients; a command flushed while an earlier reply is still unread although
PIPELINING is not in effect (documented: "populated immediately").

Unencodable addresses: mailfrom()/rcptto() with a non-ASCII address while SMTPUTF8 is not in effect may refuse
by raising UnicodeEncodeError (the statement does not regulate that), but then nothing may have been sent and
no reply may be owed for the call: the script has no reply for it, so every oracle above applies unchanged to
the commands that follow. A run whose refused call left the owed-reply queue longer than it found it and that
then violates any oracle is reported once, as phantom-owed-reply-after-unencodable-address/<smtp|lmtp>/<op>.
With SMTPUTF8 in effect the command must carry the address UTF-8 encoded and pairs like any other.

MAIL parameters: mailfrom(address, data_size=, auth=) is driven with auth in {absent, False, ASCII identity,
identity needing xtext, non-ASCII identity} and data_size in {absent, int}, the greeting advertising AUTH / SIZE
/ SMTPUTF8 or not. A call that raises UnicodeEncodeError (non-ASCII identity, AUTH advertised, no SMTPUTF8) is
judged like an unencodable address (phantom-owed-reply-after-unencodable-mail-parameter/<smtp|lmtp>); a call
that does not raise must put on the wire SIZE=<n> iff a size was given and SIZE is advertised, AUTH=... iff auth
was given and AUTH is advertised (AUTH=<> for False); the xtext form of an identity is recorded, not judged.
"""
import re
import random
import itertools

from vf.sock import ScriptSocket, WouldBlock
from slimta.smtp.client import Client, LmtpClient
from slimta.smtp import BadReply, ConnectionLost

PROPERTY = 'C10'
LEVEL = 'exploration'
LEVEL_TEXT = ('Real Client and LmtpClient driven through generated command sequences against a scripted reply '
              'server on a scripted socket: exhaustive reply-class assignment ({2,3,4,5}xx)^5 over the transaction '
              'MAIL, RCPT, RCPT, DATA, end-of-data|RSET x PIPELINING advertised or not x SMTP/LMTP x content/empty '
              'content x 2 line-count patterns, plus seeded random multi-transaction sequences (0..4 recipients, '
              'custom commands, unsolicited replies, failed greetings, missing RSET, non-ASCII addresses with '
              'SMTPUTF8 advertised or not, MAIL auth=/data_size= arguments with AUTH/SIZE advertised or not), and '
              'two designed strata of 1 280 scripts each (non-ASCII addresses; MAIL parameters); each under whole / bytewise / '
              'per-reply / seeded delivery of the reply stream. Pairing, exact consumption and lock-step judged on '
              'every run. Held = held on the runs reported.')
LEVEL_NOTE = ('Trusted: ScriptSocket, ReplyServer (command/content splitter and release rule, 70 lines), the '
              'marker extraction r<k>x.')
TECHNIQUE = ('runtime monitoring: scripted peer with unique reply texts, reply release gated on flushed commands, '
             'would-block detection, exact-leftover oracle')
RULE = ('case = one command sequence with its reply script (code and 1..3 lines per reply, PIPELINING advertised '
        'or not, SMTP or LMTP); each of 5 deliveries of the reply stream (whole, bytewise, per reply, 2 seeded) is '
        'one evaluation. exh: every class assignment in {2,3,4,5}^5 to MAIL, RCPT, RCPT, DATA and (end-of-data '
        'if DATA got 3xx else RSET) x pipelining x client class x (send_data|send_empty_data) x 2 line-count '
        'patterns; utf8: non-ASCII address in MAIL / first RCPT / second RCPT / both RCPT / MAIL and RCPT x '
        'SMTPUTF8 advertised or not x PIPELINING x client class x MAIL class {2,5} x RCPT classes {2,5}^2 x '
        '(send_data|send_empty_data) x 2 line-count patterns, followed by a plain second transaction; mailp: '
        'auth in {absent, False, ASCII, xtext-needing, non-ASCII} x data_size in {absent, int} x AUTH x SIZE x '
        'SMTPUTF8 x PIPELINING advertised or not x client class x MAIL class {2,5} x 2 line-count patterns, '
        'same continuation; rand (additionally 25% of MAIL with auth=, 30% with data_size=): '
        'seeded sequences of 1..3 transactions in protocol shape with deviations (8% of addresses non-ASCII, '
        'SMTPUTF8 advertised in 45%). non-trivial & '
        'distinct = distinct script with (an error-class reply before the last command and a multi-line reply) or '
        'LMTP with mixed recipient acceptance')
ASSUMPTIONS = ['ScriptSocket hands out exactly the scripted segments',
               'message content is sent only after a 3xx answer to DATA (the caller obeys the protocol); the '
               'script server treats the bytes after such a DATA up to CRLF.CRLF as content',
               'LMTP script model: the accepted-recipient list is cleared by a 2xx LHLO, RSET or MAIL and after '
               'end-of-data; RSET and LHLO are answered 2xx (250 for LHLO) whenever another LMTP transaction '
               'follows',
               'the client learns PIPELINING and SMTPUTF8 only from a 250 EHLO/LHLO reply',
               'a non-ASCII address without SMTPUTF8 in effect is refused by the client (UnicodeEncodeError); a '
               'client that sent something instead makes the run inconclusive, not violated']
REQUIRED_HITS = ['reply-paired', 'tail-compared', 'pipelined-batch', 'lockstep-checked',
                 'lmtp-data-replies-paired', 'unencodable-address-refused', 'utf8-address-sent-as-utf8',
                 'unencodable-mail-parameter-refused', 'mail-parameters-compared']
SHARDS = {'quick': 12, 'thorough': 16}
BUDGET = {'quick': 60, 'thorough': 900}
EXHAUSTIVE = {'quick': False, 'thorough': False}

NRANDOM = {'quick': 30000, 'thorough': 600000}
CLASS_CODE = {2: '250', 3: '354', 4: '451', 5: '550'}
CODES = {2: ['250', '250', '251', '220', '221', '235'], 3: ['354', '354', '334'],
         4: ['450', '451', '452', '421'], 5: ['550', '500', '503', '554', '552']}
CONTENTS = [
    (b'Subject: x\r\n\r\nbody\r\n',),
    (b'.dot first\r\nRCPT TO:<fake@x>\r\n', b'QUIT\r\n.\r\n..\r\nDATA\r\nlast line without newline'),
    (b'NOOP\r\n', b'', b'.\r\n'),
    (b'one line, no newline',),
]
TAIL = b'421 4.4.2 unsolicited tail\r\n'
MODES = ['whole', 'byte', 'reply', 'rand', 'rand']
MARK = re.compile(r'r(\d+)x')
UTF8_SENDERS = ['sénder%d@x.test', 'ユーザー%d@x.test']
UTF8_RCPTS = ['rçpt%d@x.test', 'r%d@bücher.test', '\U0001F600%d@x.test']
AUTH_IDS = ['user@x.test', 'us er+=<x>@x.test', '\xfcser@b\xfccher.test']     # plain, needs xtext, non-ASCII
SYNC_OPS = ('banner', 'ehlo', 'lhlo', 'helo', 'data', 'rset', 'quit', 'custom', 'get_reply')


# ------------------------------------------------------------------ generators
def op(name, code, nl=1, arg=None, adv=False, codes=None, utf8=False, ext=(), auth=None, size=None):
    d = {'op': name, 'code': code, 'nl': nl}
    if arg is not None:
        d['arg'] = arg
    if name in ('ehlo', 'lhlo'):
        d['adv'] = adv
        if utf8:
            d['utf8'] = True
        for x in ext:            # further keywords of the 250 greeting: 'AUTH', 'SIZE'
            d[x.lower() + '_adv'] = True
    if auth is not None:         # mailfrom(auth=...): False or an identity; key absent = argument not given
        d['auth'] = auth
    if size is not None:
        d['size'] = size
    if codes is not None:
        d['codes'] = codes
    return d


def gen_exhaustive(seed):
    for lmtp in (False, True):
        for adv in (True, False):
            for pat in (0, 1):
                for cl in itertools.product((2, 3, 4, 5), repeat=5):
                    for empty in ((False, True) if cl[3] == 3 else (False,)):
                        nls = [1 + (i + pat) % 3 for i in range(9)]
                        ops = [op('banner', '220', nls[0]),
                               op('lhlo' if lmtp else 'ehlo', '250', nls[1], arg='me.test', adv=adv),
                               op('mail', CLASS_CODE[cl[0]], nls[2], arg='s@x.test'),
                               op('rcpt', CLASS_CODE[cl[1]], nls[3], arg='r0@x.test'),
                               op('rcpt', CLASS_CODE[cl[2]], nls[4], arg='r1@x.test'),
                               op('data', CLASS_CODE[cl[3]], nls[5])]
                        if cl[3] == 3:
                            codes = [CLASS_CODE[cl[4]], CLASS_CODE[2 + (cl[4] + 1) % 4]]
                            ops.append(op('send_empty_data' if empty else 'send_data', codes[0], nls[6],
                                          arg=(pat + cl[0]) % len(CONTENTS), codes=codes))
                        else:
                            ops.append(op('rset', CLASS_CODE[cl[4]], nls[6]))
                        ops.append(op('quit', '221', nls[7]))
                        yield {'kind': 'exh', 'lmtp': lmtp, 'ops': ops, 'rs': seed}


def gen_utf8(seed):
    """Designed stratum: which of MAIL / RCPT / RCPT carries a non-ASCII address x SMTPUTF8 advertised or not."""
    for lmtp in (False, True):
        for adv in (True, False):
            for utf8 in (False, True):
                for who in ((1, 0, 0), (0, 1, 0), (0, 0, 1), (0, 1, 1), (1, 1, 0)):
                    for mc, c0, c1 in itertools.product((2, 5), repeat=3):
                        for empty in (False, True):
                            for pat in (0, 1):
                                nls = [1 + (i + pat) % 3 for i in range(13)]
                                addr = [(UTF8_SENDERS[pat] if who[0] else 's%d@x.test') % 0,
                                        (UTF8_RCPTS[pat] if who[1] else 'r%d@x.test') % 0,
                                        (UTF8_RCPTS[pat + 1] if who[2] else 'r%d@x.test') % 1]
                                codes = [CLASS_CODE[2 + (c0 + pat) % 4], CLASS_CODE[2]]
                                ops = [op('banner', '220', nls[0]),
                                       op('lhlo' if lmtp else 'ehlo', '250', nls[1], arg='me.test', adv=adv, utf8=utf8),
                                       op('mail', CLASS_CODE[mc], nls[2], arg=addr[0]),
                                       op('rcpt', CLASS_CODE[c0], nls[3], arg=addr[1]),
                                       op('rcpt', CLASS_CODE[c1], nls[4], arg=addr[2]),
                                       op('data', '354', nls[5]),
                                       op('send_empty_data' if empty else 'send_data', codes[0], nls[6],
                                          arg=pat, codes=codes),
                                       op('mail', '250', nls[7], arg='s2@x.test'),
                                       op('rcpt', '250', nls[8], arg='r2@x.test'),
                                       op('data', '354', nls[9]),
                                       op('send_data', '250', nls[10], arg=0, codes=['250']),
                                       op('quit', '221', nls[11])]
                                yield {'kind': 'utf8', 'lmtp': lmtp, 'ops': ops, 'rs': seed}


def gen_mailparams(seed):
    """Designed stratum: the keyword arguments of mailfrom() x what the greeting advertises."""
    for lmtp in (False, True):
        for adv, utf8, a_adv, s_adv in itertools.product((True, False), repeat=4):
            ext = (('AUTH',) if a_adv else ()) + (('SIZE',) if s_adv else ())
            for auth in (None, False) + tuple(AUTH_IDS):
                for size in (None, 12345):
                    for mc in (2, 5):
                        for pat in (0, 1):
                            nls = [1 + (i + pat) % 3 for i in range(13)]
                            ops = [op('banner', '220', nls[0]),
                                   op('lhlo' if lmtp else 'ehlo', '250', nls[1], arg='me.test', adv=adv, utf8=utf8,
                                      ext=ext),
                                   op('mail', CLASS_CODE[mc], nls[2], arg='s0@x.test', auth=auth, size=size),
                                   op('rcpt', '250', nls[3], arg='r0@x.test'),
                                   op('data', '354', nls[5]),
                                   op('send_data', '250', nls[6], arg=pat, codes=['250']),
                                   op('mail', '250', nls[7], arg='s2@x.test', size=7),
                                   op('rcpt', '250', nls[8], arg='r2@x.test'),
                                   op('data', '354', nls[9]),
                                   op('send_empty_data', '250', nls[10], arg=0, codes=['250']),
                                   op('quit', '221', nls[11])]
                            yield {'kind': 'mailp', 'lmtp': lmtp, 'ops': ops, 'rs': seed}


def gen_random(rnd):
    lmtp = rnd.random() < 0.45
    adv = rnd.random() < 0.6
    utf8 = rnd.random() < 0.45

    def ext():
        return tuple(x for x in ('AUTH', 'SIZE') if rnd.random() < 0.5)

    def mailkw():
        return {'auth': rnd.choice([False] + AUTH_IDS) if rnd.random() < 0.25 else None,
                'size': rnd.choice((0, 512, 10 ** 9)) if rnd.random() < 0.3 else None}

    def sender(t):
        return (rnd.choice(UTF8_SENDERS) if rnd.random() < 0.08 else 's%d@x.test') % t

    def rcpt(n):
        return (rnd.choice(UTF8_RCPTS) if rnd.random() < 0.08 else 'r%d@x.test') % n

    def cls(weights):
        return rnd.choice(CODES[rnd.choices((2, 3, 4, 5), weights)[0]])

    def nl():
        return rnd.choice((1, 1, 2, 3))
    ops = [op('banner', cls((90, 0, 5, 5)), nl())]
    hello_code = rnd.choices(['250', rnd.choice(CODES[2]), cls((0, 0, 50, 50))], (85, 5, 10))[0]
    if lmtp:
        hello_code = '250'
    ops.append(op('lhlo' if lmtp else 'ehlo', hello_code, nl(), arg='me.test', adv=adv, utf8=utf8, ext=ext()))
    if not lmtp and hello_code[0] != '2':
        ops.append(op('helo', cls((90, 0, 5, 5)), nl(), arg='me.test'))
    nr = 0
    for t in range(rnd.choice((1, 1, 2, 3))):
        if rnd.random() < 0.2:
            ops.append(op('custom', cls((70, 10, 10, 10)), nl(), arg=rnd.choice(['NOOP', 'VRFY x', 'HELP'])))
        if rnd.random() < 0.06:
            ops.append(op('get_reply', cls((30, 0, 60, 10)), nl()))
        if not lmtp and rnd.random() < 0.05:
            ops.append(op('ehlo', '250', nl(), arg='again.test', adv=rnd.random() < 0.5,
                          utf8=rnd.random() < 0.5, ext=ext()))
        ops.append(op('mail', cls((70, 4, 13, 13)), nl(), arg=sender(t), **mailkw()))
        for i in range(rnd.choice((0, 1, 1, 2, 2, 3, 4))):
            ops.append(op('rcpt', cls((55, 5, 20, 20)), nl(), arg=rcpt(nr)))
            nr += 1
            if rnd.random() < 0.05:
                ops.append(op('custom', cls((70, 10, 10, 10)), nl(), arg='NOOP'))
        dcode = cls((8, 62, 15, 15))
        ops.append(op('data', dcode, nl()))
        if dcode[0] == '3':
            codes = [cls((50, 6, 22, 22)) for _ in range(5)]
            ops.append(op('send_empty_data' if rnd.random() < 0.25 else 'send_data', codes[0], nl(),
                          arg=rnd.randrange(len(CONTENTS)), codes=codes))
            if rnd.random() < 0.15:
                ops.append(op('rset', '250' if lmtp else cls((70, 10, 10, 10)), nl()))
        elif rnd.random() < 0.8:
            ops.append(op('rset', '250' if lmtp else cls((70, 10, 10, 10)), nl()))
        # else: deviation -- the caller starts the next transaction without RSET
    ops.append(op('quit', cls((80, 0, 10, 10)), nl()))
    return {'kind': 'rand', 'lmtp': lmtp, 'ops': ops, 'rs': rnd.randrange(1 << 30)}


def gen_cases(tier, seed, shard, nshards):
    n = 0
    for case in itertools.chain(gen_utf8(seed), gen_mailparams(seed), gen_exhaustive(seed)):
        if n % nshards == shard:
            yield case
        n += 1
    rnd = random.Random('c10-%d-%d' % (seed, shard))
    for i in range(NRANDOM[tier] // nshards):
        yield gen_random(rnd)


# ------------------------------------------------------------------ the plan: script + expectations
class Entry(object):
    __slots__ = ('k', 'need', 'code', 'nl', 'op', 'addr', 'wire', 'hello', 'adv', 'utf8', 'ext')


def make_wire(e):
    if e.hello and e.code == '250':
        lines = ['r%dx hello' % e.k] + (['PIPELINING'] if e.adv else []) + \
                ['X-EXT%d r%dx' % (j, e.k) for j in range(e.nl - 1)] + ['8BITMIME'] + \
                (['SMTPUTF8'] if e.utf8 else []) + e.ext
    else:
        who = ' for=<%s>' % e.addr if e.addr else ''
        lines = ['r%dx %s%s l%d' % (e.k, e.op, who, j) for j in range(e.nl)]
    return ''.join('%s%s%s\r\n' % (e.code, '-' if j < len(lines) - 1 else ' ', ln)
                   for j, ln in enumerate(lines)).encode('utf-8')


def build_plan(case):
    """Static reading of the case: script entries in order, for every op the script indexes it must return,
    per command unit whether the client must have read everything before (no pipelining in effect / content)."""
    lmtp = case['lmtp']
    entries, per_op, verbs, must_sync, content_units, data3, piped = [], [], {}, {}, set(), set(), {}
    units, accepted, adv_eff, flags = 0, [], False, set()
    # non-ASCII addresses: ops the client is expected to refuse (no command, no reply), units whose command line
    # must carry the address UTF-8 encoded
    utf8_eff, refused, utf8_units, op_unit = False, {}, {}, []
    # MAIL parameters: what the greeting in effect allows; per MAIL unit the parameters that must be on the wire
    auth_eff, size_eff, mail_units, utf8_at = False, False, {}, []
    # classification aid only (never part of a verdict): recipients answered 2xx since the last LHLO-250 / RSET /
    # end-of-data, i.e. including those of a transaction the server dropped when it accepted a new MAIL
    unreset, stale_ops = [], {}

    def add(o, code, need, addr=None, hello=False):
        e = Entry()
        e.k, e.need, e.code, e.nl, e.op, e.addr = len(entries), need, code, o['nl'], o['op'], addr
        e.hello, e.adv, e.utf8 = hello, bool(o.get('adv')), bool(o.get('utf8'))
        e.ext = (['AUTH PLAIN LOGIN'] if o.get('auth_adv') else []) + (['SIZE 10485760'] if o.get('size_adv') else [])
        e.wire = make_wire(e)
        entries.append(e)
        return e.k

    for o in case['ops']:
        name, code = o['op'], o['code']
        utf8_at.append(utf8_eff)
        if name in ('banner', 'get_reply'):
            per_op.append([add(o, code, units)])
            op_unit.append(None)
            continue
        if name in ('mail', 'rcpt') and not o['arg'].isascii():
            if not utf8_eff:
                refused[len(per_op)] = 'address'
                per_op.append([])
                op_unit.append(None)
                flags.add('unencodable-address-%s' % name)
                continue
            utf8_units[units + 1] = o['arg'].encode('utf-8')
            flags.add('utf8-address-%s' % name)
        if name == 'mail':
            auth = o.get('auth')
            if isinstance(auth, str) and not auth.isascii() and auth_eff and not utf8_eff:
                refused[len(per_op)] = 'mail-parameter'
                per_op.append([])
                op_unit.append(None)
                flags.add('unencodable-mail-auth-parameter')
                continue
            want = {}
            if 'size' in o and size_eff:
                want[b'SIZE'] = str(o['size']).encode('ascii')
            if auth is not None and auth_eff:
                want[b'AUTH'] = b'<>' if auth is False else auth
            mail_units[units + 1] = want
            if 'size' in o or auth is not None:
                flags.add('mail-with-size-or-auth-argument')
        units += 1
        op_unit.append(units)
        must_sync[units] = not adv_eff
        piped[units] = adv_eff
        if name in ('send_data', 'send_empty_data'):
            content_units.add(units)
            must_sync[units] = True
            if lmtp:
                if unreset != accepted:
                    stale_ops[len(per_op)] = list(unreset)
                unreset = []
                ks = [add(o, o['codes'][j % len(o['codes'])], units, addr=a) for j, a in enumerate(accepted)]
                if len(set(o['codes'][j % len(o['codes'])][0] for j in range(len(accepted)))) > 1:
                    flags.add('lmtp-mixed-data-replies')
                per_op.append(ks)
                accepted = []
            else:
                per_op.append([add(o, code, units)])
            continue
        verbs[units] = {'ehlo': b'EHLO', 'lhlo': b'LHLO', 'helo': b'HELO', 'mail': b'MAIL', 'rcpt': b'RCPT',
                        'data': b'DATA', 'rset': b'RSET', 'quit': b'QUIT'}.get(name) or \
            o['arg'].split()[0].encode('ascii')
        per_op.append([add(o, code, units, hello=name in ('ehlo', 'lhlo'))])
        if name in ('ehlo', 'lhlo') and code == '250':
            adv_eff = bool(o['adv'])
            utf8_eff = bool(o.get('utf8'))
            auth_eff, size_eff = bool(o.get('auth_adv')), bool(o.get('size_adv'))
            accepted, unreset = [], []
        elif name == 'rcpt':
            if code[0] == '2':
                accepted.append(o['arg'])
                unreset.append(o['arg'])
            else:
                flags.add('rcpt-refused')
        elif name == 'mail' and code[0] == '2':
            if accepted:
                flags.add('mail-accepted-without-rset-while-recipients-pending')
            accepted = []
        elif name == 'rset' and code[0] == '2':
            accepted, unreset = [], []
        elif name == 'data' and code[0] == '3':
            data3.add(units)
            if lmtp and accepted and 'rcpt-refused' in flags:
                flags.add('lmtp-mixed-acceptance')
    return {'entries': entries, 'per_op': per_op, 'verbs': verbs, 'must_sync': must_sync,
            'content_units': content_units, 'data3': data3, 'flags': flags, 'piped': piped,
            'stale_ops': stale_ops, 'refused': refused, 'utf8_units': utf8_units, 'op_unit': op_unit,
            'mail_units': mail_units, 'utf8_at': utf8_at}


# ------------------------------------------------------------------ scripted peer
class ReplyServer(object):
    """The other end of the ScriptSocket. Splits what the client wrote into command lines and content
    blocks (own parser), releases reply k once the unit it answers has arrived, delivers the released bytes
    in the case's mode."""

    def __init__(self, plan, mode, rnd):
        self.plan, self.mode, self.rnd = plan, mode, rnd
        self.entries = plan['entries']
        self.units = 0
        self.released = 0
        self.tail_given = False
        self.pending = []            # released wire chunks not yet handed to the socket
        self.buf = b''
        self.in_data = False
        self.seen = []               # verbs / b'<content>' per unit
        self.lines = {}              # unit -> raw command line
        self.batches = []            # units completed per sendall
        self.early = []              # units that arrived while earlier replies were still unread
        self.sync_checked = 0

    def need_before(self, unit):
        # bytes of all replies that answer earlier units: what the client must have been handed before
        # unit may arrive when no pipelining is in effect
        return sum(len(e.wire) for e in self.entries if e.need < unit)

    def on_send(self, ss, data):
        self.buf += data
        done = 0
        while True:
            i = self.buf.find(b'\r\n')
            if i < 0:
                break
            line, self.buf = self.buf[:i], self.buf[i + 2:]
            if self.in_data:
                if line != b'.':
                    continue
                self.in_data = False
                self.units += 1
                self.seen.append(b'<content>')
            else:
                self.units += 1
                verb = line.split(b' ')[0].upper()
                self.seen.append(verb)
                self.lines[self.units] = line
                if verb == b'DATA' and self.units in self.plan['data3']:
                    self.in_data = True
            done += 1
            if self.plan['must_sync'].get(self.units):
                self.sync_checked += 1
                if ss.consumed < self.need_before(self.units):
                    self.early.append((self.units, self.seen[-1]))
        self.batches.append(done)

    def release(self):
        while self.released < len(self.entries) and self.entries[self.released].need <= self.units:
            self.pending.append(self.entries[self.released].wire)
            self.released += 1
        if self.released == len(self.entries) and not self.tail_given:
            self.tail_given = True
            self.pending.append(TAIL)

    def on_recv(self, ss):
        self.release()
        if ss.segments or not self.pending:
            return
        if self.mode == 'whole':
            ss.feed(b''.join(self.pending))
            self.pending = []
        elif self.mode == 'reply':
            ss.feed(self.pending.pop(0))
        else:
            flat = b''.join(self.pending)
            n = 1 if self.mode == 'byte' else self.rnd.randint(1, len(flat))
            ss.feed(flat[:n])
            self.pending = [flat[n:]] if flat[n:] else []


# ------------------------------------------------------------------ driving the real client
def call(client, o):
    """Invoke the client method for op o. Returns list of (address|None, Reply)."""
    name = o['op']
    if name == 'banner':
        return [(None, client.get_banner())]
    if name == 'ehlo':
        return [(None, client.ehlo(o['arg']))]
    if name == 'lhlo':
        return [(None, client.lhlo(o['arg']))]
    if name == 'helo':
        return [(None, client.helo(o['arg']))]
    if name == 'mail':
        kw = {}
        if 'size' in o:
            kw['data_size'] = o['size']
        if 'auth' in o:
            kw['auth'] = o['auth']
        return [(None, client.mailfrom(o['arg'], **kw))]
    if name == 'rcpt':
        return [(None, client.rcptto(o['arg']))]
    if name == 'data':
        return [(None, client.data())]
    if name == 'rset':
        return [(None, client.rset())]
    if name == 'quit':
        return [(None, client.quit())]
    if name == 'get_reply':
        return [(None, client.get_reply())]
    if name == 'custom':
        parts = o['arg'].encode('ascii').split(b' ', 1)
        return [(None, client.custom_command(parts[0], parts[1] if len(parts) > 1 else None))]
    if name in ('send_data', 'send_empty_data'):
        ret = client.send_empty_data() if name == 'send_empty_data' else client.send_data(*CONTENTS[o['arg']])
        if isinstance(ret, list):
            return [(a, r) for a, r in ret]
        return [(None, ret)]
    raise ValueError(name)


def run_once(case, plan, mode, rs, R):
    """One evaluation. Returns list of (mechanism, what, detail)."""
    lmtp = case['lmtp']
    who = 'lmtp' if lmtp else 'smtp'
    entries = plan['entries']
    rnd = random.Random(rs)
    srv = ReplyServer(plan, mode, rnd)
    ss = ScriptSocket(on_recv=srv.on_recv, on_send=srv.on_send)
    client = (LmtpClient if lmtp else Client)(ss, ('peer.test', 25))
    out = []
    returned = []            # (op index, op name, expected k, address, Reply)
    aborted = None
    STALE = 'lmtp-stale-recipients-after-mail-without-rset'
    phantom = None           # (op index, op name) of a refused call that left a reply owed

    def viol(mech, what, **kw):
        kw.update({'mode': mode, 'rs': rs, 'commands_seen_by_server': list(srv.seen),
                   'sendall_batches': list(srv.batches)})
        out.append((mech, what, kw))

    for i, o in enumerate(case['ops']):
        name = o['op']
        before = (len(client.reply_queue), client.io.send_buffer.getvalue(), len(ss.sent))
        try:
            got = call(client, o)
        except UnicodeEncodeError as ex:
            if name not in ('mail', 'rcpt') or (o['arg'].isascii() and str(o.get('auth', '')).isascii()):
                raise
            if i not in plan['refused']:
                aborted = (i, name, 'refused-although-encodable')
                if plan['utf8_at'][i]:
                    viol('utf8-address-refused-although-smtputf8-in-effect/%s/%s' % (who, name),
                         '%s(%r, auth=%r) raised %r although the last 250 greeting advertised SMTPUTF8'
                         % (name, o['arg'], o.get('auth'), ex), op_index=i)
                else:
                    viol('mail-parameter-refused-although-auth-not-advertised/%s' % who,
                         'mail(%r, auth=%r) raised %r although AUTH= is not to be sent' % (o['arg'], o['auth'], ex),
                         op_index=i)
                break
            R.hit('unencodable-%s-refused' % plan['refused'][i])
            after = (len(client.reply_queue), client.io.send_buffer.getvalue(), len(ss.sent))
            if after[1:] != before[1:]:
                viol('bytes-sent-for-refused-address/%s/%s' % (who, name),
                     '%s(%r) raised but wrote %r' % (name, o['arg'], after[1][len(before[1]):] or ss.sent[-1]),
                     op_index=i)
            if after[0] != before[0] and phantom is None:
                phantom = (i, name, plan['refused'][i])     # signature only; the verdict comes from what follows
            continue
        except WouldBlock:
            srv.release()
            unflushed = client.io.send_buffer.getvalue()
            why = ('would-block-awaits-reply-before-command-flushed' if unflushed
                   else 'would-block-reads-past-last-owed-reply')
            aborted = (i, name, why)
            mech = '%s/%s/%s' % (why, who, name)
            if i in plan['stale_ops'] and not unflushed:
                mech = STALE
            viol(mech,
                 '%s in %s (op %d); %d of %d script replies released, %d bytes handed out'
                 % (why, name, i, srv.released, len(entries), ss.consumed),
                 op_index=i, unflushed=unflushed,
                 populated=[(n, r.code, r.message) for _, n, _, _, r in returned if r.code is not None])
            break
        except (BadReply, ConnectionLost) as ex:
            aborted = (i, name, type(ex).__name__)
            viol('client-raises-%s/%s/%s' % (type(ex).__name__, who, name), 'client raised %r in %s' % (ex, name),
                 op_index=i)
            break
        if i in plan['refused']:
            # the client found a way to send the address without SMTPUTF8: outside what the script planned for
            R.inconclusive('non-ASCII address sent without SMTPUTF8 (script assumes refusal)')
            return [], (i, name, 'unplanned-command')
        ks = plan['per_op'][i]
        if lmtp and name in ('send_data', 'send_empty_data'):
            R.hit('lmtp-recipients-compared')
            want = [entries[k].addr for k in ks]
            if [a for a, _ in got] != want:
                # from here on client and script disagree about how many replies are owed: everything later
                # in this run would be a knock-on effect, so the run ends here
                aborted = (i, name, 'lmtp-recipients-differ')
                mech = 'lmtp-recipients-differ/%s' % name
                if [a for a, _ in got] == plan['stale_ops'].get(i):
                    mech = STALE
                viol(mech,
                     'LMTP %s returned recipients %r, the script accepted %r' % (name, [a for a, _ in got], want),
                     op_index=i)
                break
        for j, (addr, r) in enumerate(got):
            returned.append((i, name, ks[j] if j < len(ks) else None, addr, r))
        # population rules
        unit_sync = not lmtp_or_smtp_pipelining(plan, i)
        if name in SYNC_OPS or unit_sync:
            missing = [(n, k) for _, n, k, _, r in returned if r.code is None]
            if missing:
                kind = ('unpopulated-after-synchronous-command' if name in SYNC_OPS
                        else 'not-populated-on-return-without-pipelining')
                viol('%s/%s/%s' % (kind, who, name), '%s: after %s these replies are still empty: %r'
                     % (kind, name, missing), op_index=i)
    # pairing: every populated reply (all of them after a complete run) must hold its own script entry
    for i, name, k, addr, r in returned:
        if r.code is None:
            continue
        marks = [int(m) for m in MARK.findall(r.message or '')]
        if k is None:
            viol('unclassified/reply-without-script-entry/%s' % name, 'extra reply object %r' % r, op_index=i)
            continue
        e = entries[k]
        R.hit('reply-paired')
        if e.addr is not None:
            R.hit('lmtp-data-replies-paired')
        want_marks = [k] if (e.hello and e.code == '250') else [k] * e.nl
        if set(marks) - {k} or (not marks and r.code != e.code):
            viol('mispaired/%s/%s' % (who, name),
                 'reply object of %s (script entry %d, %s) holds %s %r' % (name, k, e.code, r.code, r.message),
                 op_index=i, expected_wire=e.wire, holds_entries=sorted(set(marks)))
        elif r.code != e.code or marks != want_marks:
            viol('reply-content-differs/%s/%s' % (who, name),
                 'reply object of %s holds %s %r, script sent %r' % (name, r.code, r.message, e.wire),
                 op_index=i, expected_wire=e.wire)
        elif e.addr is not None and addr != e.addr:
            viol('lmtp-data-reply-for-other-recipient/%s' % name,
                 'end-of-data reply naming %s returned for %s' % (e.addr, addr), op_index=i)
    if srv.sync_checked:
        R.hit('lockstep-checked', srv.sync_checked)
    for unit, verb in srv.early[:1]:
        kind = 'content-sent-before-data-reply-read' if unit in plan['content_units'] \
            else 'command-sent-before-previous-reply-read-without-pipelining'
        viol('%s/%s/%s' % (kind, who, verb.decode('latin-1')), '%s: unit %d (%r) arrived with %d bytes handed out, '
             '%d owed before it' % (kind, unit, verb, ss.consumed, srv.need_before(unit)))
    if any(b > 1 for b in srv.batches):
        R.hit('pipelined-batch')
    if aborted is None:
        srv.release()
        left = client.io.recv_buffer + ss.unread() + b''.join(srv.pending)
        R.hit('tail-compared')
        if left != TAIL:
            if left.endswith(TAIL):
                mech = 'owed-replies-left-unread'
            elif TAIL.endswith(left):
                mech = 'unsolicited-tail-consumed'
            else:
                mech = 'unclassified/leftover-differs'
            viol('%s/%s' % (mech, who), '%s: leftover %r, expected %r' % (mech, left[:80], TAIL))
        if srv.released != len(entries):
            viol('unclassified/script-not-exhausted/%s' % who, 'only %d of %d replies were ever released'
                 % (srv.released, len(entries)))
        if client.reply_queue:
            viol('reply-queue-not-drained/%s' % who, '%d reply objects still queued at the end'
                 % len(client.reply_queue))
        plan_seen = [plan['verbs'].get(u + 1, b'<content>') for u in range(srv.units)]
        if srv.seen != plan_seen and phantom is None and not out:
            R.inconclusive('command stream differs from plan')
    for unit, raw in plan['utf8_units'].items():
        if unit in srv.lines:
            if b'<' + raw + b'>' in srv.lines[unit]:
                R.hit('utf8-address-sent-as-utf8')
            else:
                viol('utf8-address-not-sent-as-utf8/%s/%s' % (who, srv.seen[unit - 1].decode('latin-1')),
                     'command %r does not carry %r' % (srv.lines[unit], raw))
    for unit, want in plan['mail_units'].items():
        if unit not in srv.lines:
            continue
        line = srv.lines[unit]
        got = dict((t.split(b'=', 1) + [b''])[:2] for t in line.split(b'>', 1)[-1].split())
        got = {k.upper(): v for k, v in got.items()}
        R.hit('mail-parameters-compared')
        for key in (b'SIZE', b'AUTH'):
            kn = key.decode().lower()
            if key in got and key not in want:
                viol('mail-parameter-sent-although-not-applicable/%s/%s' % (who, kn),
                     '%r carries %s= although it was not given or %s is not advertised' % (line, kn.upper(), kn.upper()))
            elif key in want and key not in got:
                viol('mail-parameter-missing/%s/%s' % (who, kn), '%r lacks %s=' % (line, kn.upper()))
        if set(got) - {b'SIZE', b'AUTH'}:
            viol('unclassified/unknown-mail-parameter/%s' % who, '%r' % line)
        if b'SIZE' in want and got.get(b'SIZE', want[b'SIZE']) != want[b'SIZE']:
            viol('mail-parameter-value-differs/%s/size' % who, '%r, size given %r' % (line, want[b'SIZE']))
        if b'AUTH' in want and b'AUTH' in got:
            if want[b'AUTH'] == b'<>':
                if got[b'AUTH'] != b'<>':
                    viol('mail-parameter-value-differs/%s/auth-null' % who, '%r for auth=False' % line)
            else:       # the xtext form is recorded, not judged
                R.observe('mail-auth-xtext-form', (want[b'AUTH'], got[b'AUTH']))
                R.count('recorded/xtext(%s)=%s' % (ascii(want[b'AUTH']), got[b'AUTH'].decode('latin-1')))
    if phantom is not None:
        # a refused call left a reply owed; what the oracles saw from that call on is one defect
        late = [v for v in out if v[2].get('op_index', len(case['ops'])) >= phantom[0]]
        if late:
            out = [v for v in out if v not in late]
            mech, what, kw = late[0]
            kw = dict(kw, refused_op_index=phantom[0], refused_address=case['ops'][phantom[0]]['arg'],
                      consequences=sorted(set(v[0] for v in late)))
            if phantom[2] == 'address':
                mech = 'phantom-owed-reply-after-unencodable-address/%s/%s' \
                    % (who, {'mail': 'mailfrom', 'rcpt': 'rcptto'}[phantom[1]])
            else:
                mech = 'phantom-owed-reply-after-unencodable-mail-parameter/%s' % who
                kw['refused_auth'] = case['ops'][phantom[0]].get('auth')
            out.append((mech, '%s(%r%s) raised UnicodeEncodeError but left a reply owed; then: %s'
                        % (phantom[1], case['ops'][phantom[0]]['arg'],
                           ', auth=%r' % kw['refused_auth'] if 'refused_auth' in kw else '', what), kw))
    R.observe('flush-shape', tuple(srv.batches))
    return out, aborted


def lmtp_or_smtp_pipelining(plan, i):
    """True when, by the script, PIPELINING is in effect for the command of op i."""
    unit = plan['op_unit'][i]
    return unit is not None and plan['piped'].get(unit, False)


def script_shape(case, plan):
    return tuple((o['op'], o['code'][0], o['nl'], plan['refused'].get(i), plan['op_unit'][i] in plan['utf8_units'],
                  tuple(sorted(plan['mail_units'].get(plan['op_unit'][i], ()))))
                 for i, o in enumerate(case['ops'])) + \
        (case['lmtp'], tuple((bool(o.get('adv')), bool(o.get('utf8'))) for o in case['ops'] if 'adv' in o))


def is_nontrivial(case, plan):
    ents = plan['entries']
    err_before_last = any(e.code[0] in '45' for e in ents[:-1])
    multi = any(e.nl > 1 for e in ents)
    return (err_before_last and multi) or 'lmtp-mixed-acceptance' in plan['flags']


def run_case(case, R):
    plan = build_plan(case)
    shape = script_shape(case, plan)
    if is_nontrivial(case, plan):
        R.nontrivial(shape)
    R.observe('script-shape', shape)
    for f in plan['flags']:
        R.count('scripts-with-' + f)
    rnd = random.Random(case['rs'])
    ok = True
    for mode in MODES:
        rs = rnd.randrange(1 << 30)
        R.eval()
        viols, aborted = run_once(case, plan, mode, rs, R)
        for mech, what, detail in viols:
            ok = False
            detail['script'] = [e.wire for e in plan['entries']]
            R.violation(mech, what, detail)
    if ok and case['kind'] == 'rand' and len(case['ops']) > 9:
        R.sample({'lmtp': case['lmtp'], 'ops': [(o['op'], o['code'], o['nl']) for o in case['ops']],
                  'script': [e.wire for e in plan['entries']][:12]})
