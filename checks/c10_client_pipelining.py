"""C10 -- the (pipelining) SMTP/LMTP client pairs every reply with the command that caused it.

The real slimta.smtp.client.Client / LmtpClient run on a vf.sock.ScriptSocket whose peer is a scripted
reply server (ReplyServer below):

 * every reply has a UNIQUE text (each line carries the marker r<k>x), so the pairing is read off the
   text of the Reply objects the client methods returned;
 * the server parses what the client wrote with its own line splitter (commands vs. message content
   after a 3xx answer to DATA) and makes reply k available only once command k has been flushed to the
   socket; a read when nothing more is owed raises WouldBlock (the real program would hang);
 * after the last scripted reply an unsolicited tail follows; at the end io.recv_buffer + unread bytes
   must be exactly that tail;
 * LMTP: one end-of-data reply per recipient the script answered 2xx, naming that recipient.

Events that refute: a returned Reply holding the answer to another command / damaged text / never
populated after a synchronous command; WouldBlock (reads past the last owed reply, or waits for a reply
whose command it has not flushed); tail consumed or owed replies left unread; LMTP end-of-data replies
paired with the wrong recipients; a command flushed while an earlier reply is still unread although
PIPELINING is not in effect (documented: "populated immediately").

Unencodable addresses: mailfrom()/rcptto() with a non-ASCII address while SMTPUTF8 is not in effect may refuse
by raising UnicodeEncodeError (the statement does not regulate that), but then nothing may have been sent and
no reply may be owed for the call: the script has no reply for it, so every oracle above applies unchanged to
the commands that follow. A run whose refused call left the owed-reply queue longer than it found it and that
then violates any oracle is reported once, as phantom-owed-reply-after-unencodable-address/<smtp|lmtp>/<op>.
With SMTPUTF8 in effect the command must carry the address UTF-8 encoded and pairs like any other.

MAIL parameters: mailfrom(address, data_size=, auth=) is driven with auth in {absent, False, ASCII identity,
identity needing xtext, non-ASCII identity} and data_size in {absent, int}, the greeting advertising AUTH / SIZE
/ SMTPUTF8 or not. A call that raises UnicodeEncodeError (non-ASCII identity, AUTH advertised, no SMTPUTF8) is
judged like an unencodable address (phantom-owed-reply-after-unencodable-mail-parameter/<smtp|lmtp>); a call
that does not raise must put on the wire SIZE=<n> iff a size was given and SIZE is advertised, AUTH=... iff auth
was given and AUTH is advertised (AUTH=<> for False); the xtext form of an identity is recorded, not judged.

Coverage audit (every public command method, Reply attributes, failed calls):
 * starttls() (fake TLS context handing the scripted socket back; wrapped iff its own reply is 220), auth()
   (PLAIN / LOGIN / CRAM-MD5 / default mechanism, complete and server-aborted exchanges: the 334 challenges are
   script entries consumed inside the call, the returned Reply must be the final one; without AUTH advertised no
   command and an error reply), ehlo/helo/lhlo with bytes and str names, the greeting of the other protocol
   (NotImplementedError, no traces), repeated LHLO, no greeting at all, _flush_pipeline() as the relay calls it,
   get_reply(command), null sender, transactions abandoned before DATA, 1xx codes, server enhanced status codes.
 * every populated Reply is compared in full: code, whole text (all lines, in order; with or without the default
   X.0.0 status the Reply class prepends) and its `command` attribute; no Reply object is returned twice.
 * unencodable greeting name (str, not ASCII): like an unencodable address -- refusing is fine, leaving a
   reply owed is reported as phantom-owed-reply-after-unencodable-hello-name/<smtp|lmtp>/<ehlo|helo|lhlo>.
 * failed calls followed by continued use. badreply: the reply to one command is malformed (garbage line,
   impossible code, undecodable text, garbage second line): the call that meets it raises BadReply; every other
   reply object must still pair, the leftover must be exact (mechanisms prefixed after-bad-reply/). eof: the
   server closes at a byte offset: ConnectionLost there and in the clean-up calls; every reply delivered
   completely before must be in its object, no object may hold a truncated one (after-connection-lost/).
   timeout: the caller's gevent.Timeout fires in one read, the reply comes later; the statement does not say
   what is owed after an abandoned read, so the pairing seen afterwards is RECORDED (recorded/after-timeout/*)
   and only reading past the last reply is judged (after-timeout/would-block-...).
 * cuts: the designed script under every single cut of the whole reply stream and every pair of cuts within
   +-3 bytes of each line end (between whole and bytewise delivery).
 * conc: 2..3 Client / LmtpClient objects, each in its own greenlet over its own SwitchSocket (a read that finds
   nothing ready switches to the scheduler greenlet, as a gevent socket switches to the hub), different command
   and reply scripts; the feeder gives one conversation at a time its next piece (per flush / per reply / per
   reply line / seeded) and lets it run to its next empty read. Every interleaving of the turns of two short
   conversations (4 pairs of classes x PIPELINING), seeded interleavings of random scripts and of per-line
   delivery. Oracle: each conversation's returned replies (code, message, command, when populated), what every
   call saw on return, extension set, LMTP recipient pairing, bytes written, owed queue and leftover equal those
   of the same conversation run alone; no Reply object with a script entry is returned to two clients
   (concurrent-clients-interfere/<what>/<classes>, reply-object-shared-between-clients/<classes>).
"""
import re
import random
import itertools

import base64
import errno
import zlib

from gevent import Timeout as GTimeout
from greenlet import greenlet, getcurrent

from vf.sock import ScriptSocket, WouldBlock
from slimta.smtp.client import Client, LmtpClient
from slimta.smtp import BadReply, ConnectionLost

import pysasl

# pysasl re-scans the installed distributions for its mechanisms on every SASLAuth.named() (10 ms per auth()):
# the scan result cannot change during a run, so the harness memoises it (nothing of slimta is touched)
_entry_points, _ep_cache = pysasl.entry_points, {}


def _cached_entry_points(**kw):
    key = tuple(sorted(kw.items()))
    if key not in _ep_cache:
        _ep_cache[key] = tuple(_entry_points(**kw))
    return _ep_cache[key]


pysasl.entry_points = _cached_entry_points

PROPERTY = 'C10'
LEVEL = 'exploration'
LEVEL_TEXT = ('Real Client and LmtpClient driven through generated command sequences against a scripted reply '
              'server on a scripted socket: exhaustive reply-class assignment ({2,3,4,5}xx)^5 over the transaction '
              'MAIL, RCPT, RCPT, DATA, end-of-data|RSET x PIPELINING advertised or not x SMTP/LMTP x content/empty '
              'content x 2 line-count patterns, plus seeded random multi-transaction sequences (0..4 recipients, '
              'custom commands, unsolicited replies, failed greetings, missing RSET, non-ASCII addresses with '
              'SMTPUTF8 advertised or not, MAIL auth=/data_size= arguments with AUTH/SIZE advertised or not), and '
              'two designed strata of 1 280 scripts each (non-ASCII addresses; MAIL parameters); each under whole / bytewise / '
              'per-reply / seeded delivery of the reply stream. Random sequences also contain starttls(), auth() '
              '(PLAIN/LOGIN/CRAM-MD5, complete or aborted), bytes/str/unencodable greeting names, repeated greetings, '
              '_flush_pipeline(), get_reply(command), abandoned transactions. Every eighth random script and a designed '
              'family carry one fault (a malformed reply to one command x 4 forms x every command of the designed '
              'script; end of stream at offsets around every reply boundary; a caller Timeout in one read) and '
              'continue using the client; the designed script also runs under every single cut and boundary pair of '
              'cuts; 2..3 clients run concurrently in greenlets (every interleaving of two short conversations, '
              'seeded beyond) must each behave as alone. Pairing (code, full text, command attribute, object identity), exact consumption and lock-step '
              'judged on every fault-free run; after a fault as described in the module docstring. '
              'Held = held on the runs reported.')
LEVEL_NOTE = ('Trusted: ScriptSocket, ReplyServer (command/content splitter and release rule, 100 lines), the '
              'marker extraction r<k>x, FakeTlsContext (returns the same socket), the memoised pysasl mechanism scan. '
              'After a caller Timeout only would-block is judged, the pairing is recorded.')
TECHNIQUE = ('runtime monitoring: scripted peer with unique reply texts, reply release gated on flushed commands, '
             'would-block detection, exact-leftover oracle')
RULE = ('case = one command sequence with its reply script (code and 1..3 lines per reply, PIPELINING advertised '
        'or not, SMTP or LMTP); each of 5 deliveries of the reply stream (whole, bytewise, per reply, 2 seeded) is '
        'one evaluation. exh: every class assignment in {2,3,4,5}^5 to MAIL, RCPT, RCPT, DATA and (end-of-data '
        'if DATA got 3xx else RSET) x pipelining x client class x (send_data|send_empty_data) x 2 line-count '
        'patterns; utf8: non-ASCII address in MAIL / first RCPT / second RCPT / both RCPT / MAIL and RCPT x '
        'SMTPUTF8 advertised or not x PIPELINING x client class x MAIL class {2,5} x RCPT classes {2,5}^2 x '
        '(send_data|send_empty_data) x 2 line-count patterns, followed by a plain second transaction; mailp: '
        'auth in {absent, False, ASCII, xtext-needing, non-ASCII} x data_size in {absent, int} x AUTH x SIZE x '
        'SMTPUTF8 x PIPELINING advertised or not x client class x MAIL class {2,5} x 2 line-count patterns, '
        'same continuation; rand (additionally 25% of MAIL with auth=, 30% with data_size=): '
        'seeded sequences of 1..3 transactions in protocol shape with deviations (8% of addresses non-ASCII, '
        'SMTPUTF8 advertised in 45%). non-trivial & '
        'distinct = distinct script with (an error-class reply before the last command and a multi-line reply) or '
        'LMTP with mixed recipient acceptance. faults: badreply = designed script x every command but the '
        'greeting x {garbage, code, utf8, midgarbage} x PIPELINING x client class, eof/timeout = designed script '
        'x offsets {start, +1, +4, middle, end-2, end-1} of every reply; cuts = designed script x (every single '
        'cut + pairs around line ends), 50 deliveries per case; conc = one reference evaluation (each '
        'conversation alone) + one evaluation per interleaving of the turns of 2..3 concurrent conversations')
ASSUMPTIONS = ['ScriptSocket hands out exactly the scripted segments',
               'message content is sent only after a 3xx answer to DATA (the caller obeys the protocol); the '
               'script server treats the bytes after such a DATA up to CRLF.CRLF as content',
               'LMTP script model: the accepted-recipient list is cleared by a 250 LHLO, a 2xx RSET or MAIL and '
               'after end-of-data; RSET is answered with any code class, and the MAIL that follows an RSET not '
               'answered 2xx is accepted (that acceptance is what starts the new transaction on the server)',
               'the client learns PIPELINING and SMTPUTF8 only from a 250 EHLO/LHLO reply',
               'a non-ASCII address without SMTPUTF8 in effect is refused by the client (UnicodeEncodeError); a '
               'client that sent something instead makes the run inconclusive, not violated',
               'a malformed reply counts as the (one) reply to its command; in the transaction that met it and the '
               'next one the scripts answer DATA with 5xx and reset (a caller whose call failed cannot know the '
               'server is in content mode)',
               'after the end of stream the caller only makes clean-up calls (rset/custom/quit)',
               'auth() whose initial pipeline drain met the scripted fault is simply called again',
               'AUTH is issued only when the last 250 greeting advertised AUTH; otherwise auth() sends nothing',
               'STARTTLS is answered 220 only between transactions and is then followed by a new greeting']
REQUIRED_HITS = ['reply-paired', 'tail-compared', 'pipelined-batch', 'lockstep-checked',
                 'lmtp-data-replies-paired', 'unencodable-address-refused', 'utf8-address-sent-as-utf8',
                 'unencodable-mail-parameter-refused', 'mail-parameters-compared',
                 'reply-text-compared', 'command-attribute-compared', 'starttls-paired', 'starttls-decision-compared',
                 'auth-exchange-paired', 'unencodable-hello-name-refused', 'bad-reply-continued',
                 'connection-lost-continued', 'timeout-continued', 'cut-delivery',
                 'concurrent-interleavings-enumerated', 'concurrent-conversations-compared']
SHARDS = {'quick': 12, 'thorough': 16}
BUDGET = {'quick': 60, 'thorough': 900}
EXHAUSTIVE = {'quick': False, 'thorough': False}

NRANDOM = {'quick': 30000, 'thorough': 600000}
CLASS_CODE = {2: '250', 3: '354', 4: '451', 5: '550'}
CODES = {2: ['250', '250', '251', '220', '221', '235'], 3: ['354', '354', '334'],
         4: ['450', '451', '452', '421'], 5: ['550', '500', '503', '554', '552']}
CONTENTS = [
    (b'Subject: x\r\n\r\nbody\r\n',),
    (b'.dot first\r\nRCPT TO:<fake@x>\r\n', b'QUIT\r\n.\r\n..\r\nDATA\r\nlast line without newline'),
    (b'NOOP\r\n', b'', b'.\r\n'),
    (b'one line, no newline',),
    (),
    (b'',),
]
TAIL = b'421 4.4.2 unsolicited tail\r\n'
MODES = ['whole', 'byte', 'reply', 'rand', 'rand']
MARK = re.compile(r'r(\d+)x')
UTF8_SENDERS = ['sénder%d@x.test', 'ユーザー%d@x.test']
UTF8_RCPTS = ['rçpt%d@x.test', 'r%d@bücher.test', '\U0001F600%d@x.test']
AUTH_IDS = ['user@x.test', 'us er+=<x>@x.test', '\xfcser@b\xfccher.test']     # plain, needs xtext, non-ASCII
SYNC_OPS = ('banner', 'ehlo', 'lhlo', 'helo', 'data', 'rset', 'quit', 'custom', 'get_reply', 'starttls', 'auth',
            'flush')
HELLO_NAMES_UTF8 = ['b\xfccher.test', '\u30e1\u30fc\u30eb.test']
AUTH_STEPS = {'PLAIN': 0, 'LOGIN': 2, 'CRAM-MD5': 1}      # 334 challenges of a complete exchange
AUTH_FINAL = ['235', '235', '535', '454', '504', '535']
BAD_FORMS = ('garbage', 'code', 'utf8', 'midgarbage')
# what Reply.command must say for each client method (observe_at: "(command, code, text) of every Reply object")
CMD_ATTR = {'banner': b'[BANNER]', 'ehlo': b'EHLO', 'lhlo': b'LHLO', 'helo': b'HELO', 'mail': b'MAIL',
            'rcpt': b'RCPT', 'data': b'DATA', 'rset': b'RSET', 'quit': b'QUIT', 'send_data': b'[SEND_DATA]',
            'send_empty_data': b'[SEND_DATA]', 'starttls': b'STARTTLS', 'auth': b'AUTH', 'get_reply': b'[TIMEOUT]'}


# ------------------------------------------------------------------ generators
def op(name, code, nl=1, arg=None, adv=False, codes=None, utf8=False, ext=(), auth=None, size=None, **extra):
    d = {'op': name, 'code': code, 'nl': nl}
    d.update((k, v) for k, v in extra.items() if v is not None and v is not False)
    if arg is not None:
        d['arg'] = arg
    if name in ('ehlo', 'lhlo'):
        d['adv'] = adv
        if utf8:
            d['utf8'] = True
        for x in ext:            # further keywords of the 250 greeting: 'AUTH', 'SIZE'
            d[x.lower() + '_adv'] = True
    if auth is not None:         # mailfrom(auth=...): False or an identity; key absent = argument not given
        d['auth'] = auth
    if size is not None:
        d['size'] = size
    if codes is not None:
        d['codes'] = codes
    return d


def gen_exhaustive(seed):
    for lmtp in (False, True):
        for adv in (True, False):
            for pat in (0, 1):
                for cl in itertools.product((2, 3, 4, 5), repeat=5):
                    for empty in ((False, True) if cl[3] == 3 else (False,)):
                        nls = [1 + (i + pat) % 3 for i in range(9)]
                        ops = [op('banner', '220', nls[0]),
                               op('lhlo' if lmtp else 'ehlo', '250', nls[1], arg='me.test', adv=adv),
                               op('mail', CLASS_CODE[cl[0]], nls[2], arg='s@x.test'),
                               op('rcpt', CLASS_CODE[cl[1]], nls[3], arg='r0@x.test'),
                               op('rcpt', CLASS_CODE[cl[2]], nls[4], arg='r1@x.test'),
                               op('data', CLASS_CODE[cl[3]], nls[5])]
                        if cl[3] == 3:
                            codes = [CLASS_CODE[cl[4]], CLASS_CODE[2 + (cl[4] + 1) % 4]]
                            ops.append(op('send_empty_data' if empty else 'send_data', codes[0], nls[6],
                                          arg=(pat + cl[0]) % len(CONTENTS), codes=codes))
                        else:
                            ops.append(op('rset', CLASS_CODE[cl[4]], nls[6]))
                        ops.append(op('quit', '221', nls[7]))
                        yield {'kind': 'exh', 'lmtp': lmtp, 'ops': ops, 'rs': seed}


def gen_utf8(seed):
    """Designed stratum: which of MAIL / RCPT / RCPT carries a non-ASCII address x SMTPUTF8 advertised or not."""
    for lmtp in (False, True):
        for adv in (True, False):
            for utf8 in (False, True):
                for who in ((1, 0, 0), (0, 1, 0), (0, 0, 1), (0, 1, 1), (1, 1, 0)):
                    for mc, c0, c1 in itertools.product((2, 5), repeat=3):
                        for empty in (False, True):
                            for pat in (0, 1):
                                nls = [1 + (i + pat) % 3 for i in range(13)]
                                addr = [(UTF8_SENDERS[pat] if who[0] else 's%d@x.test') % 0,
                                        (UTF8_RCPTS[pat] if who[1] else 'r%d@x.test') % 0,
                                        (UTF8_RCPTS[pat + 1] if who[2] else 'r%d@x.test') % 1]
                                codes = [CLASS_CODE[2 + (c0 + pat) % 4], CLASS_CODE[2]]
                                ops = [op('banner', '220', nls[0]),
                                       op('lhlo' if lmtp else 'ehlo', '250', nls[1], arg='me.test', adv=adv, utf8=utf8),
                                       op('mail', CLASS_CODE[mc], nls[2], arg=addr[0]),
                                       op('rcpt', CLASS_CODE[c0], nls[3], arg=addr[1]),
                                       op('rcpt', CLASS_CODE[c1], nls[4], arg=addr[2]),
                                       op('data', '354', nls[5]),
                                       op('send_empty_data' if empty else 'send_data', codes[0], nls[6],
                                          arg=pat, codes=codes),
                                       op('mail', '250', nls[7], arg='s2@x.test'),
                                       op('rcpt', '250', nls[8], arg='r2@x.test'),
                                       op('data', '354', nls[9]),
                                       op('send_data', '250', nls[10], arg=0, codes=['250']),
                                       op('quit', '221', nls[11])]
                                yield {'kind': 'utf8', 'lmtp': lmtp, 'ops': ops, 'rs': seed}


def gen_mailparams(seed):
    """Designed stratum: the keyword arguments of mailfrom() x what the greeting advertises."""
    for lmtp in (False, True):
        for adv, utf8, a_adv, s_adv in itertools.product((True, False), repeat=4):
            ext = (('AUTH',) if a_adv else ()) + (('SIZE',) if s_adv else ())
            for auth in (None, False) + tuple(AUTH_IDS):
                for size in (None, 12345):
                    for mc in (2, 5):
                        for pat in (0, 1):
                            nls = [1 + (i + pat) % 3 for i in range(13)]
                            ops = [op('banner', '220', nls[0]),
                                   op('lhlo' if lmtp else 'ehlo', '250', nls[1], arg='me.test', adv=adv, utf8=utf8,
                                      ext=ext),
                                   op('mail', CLASS_CODE[mc], nls[2], arg='s0@x.test', auth=auth, size=size),
                                   op('rcpt', '250', nls[3], arg='r0@x.test'),
                                   op('data', '354', nls[5]),
                                   op('send_data', '250', nls[6], arg=pat, codes=['250']),
                                   op('mail', '250', nls[7], arg='s2@x.test', size=7),
                                   op('rcpt', '250', nls[8], arg='r2@x.test'),
                                   op('data', '354', nls[9]),
                                   op('send_empty_data', '250', nls[10], arg=0, codes=['250']),
                                   op('quit', '221', nls[11])]
                            yield {'kind': 'mailp', 'lmtp': lmtp, 'ops': ops, 'rs': seed}


def gen_random(rnd, plain_data=False):
    """plain_data: no DATA is answered 3xx (fault strata in which the caller cannot know where it stands)."""
    lmtp = rnd.random() < 0.45
    adv = rnd.random() < 0.6
    utf8 = rnd.random() < 0.45
    esc = rnd.random() < 0.3             # this server puts enhanced status codes on its replies
    hello_op = 'lhlo' if lmtp else 'ehlo'

    def ext():
        return tuple(x for x in ('AUTH', 'SIZE') if rnd.random() < 0.5)

    def mailkw():
        return {'auth': rnd.choice([False] + AUTH_IDS) if rnd.random() < 0.25 else None,
                'size': rnd.choice((0, 512, 10 ** 9)) if rnd.random() < 0.3 else None}

    def sender(t):
        if rnd.random() < 0.04:
            return ''                    # null reverse-path
        return (rnd.choice(UTF8_SENDERS) if rnd.random() < 0.08 else 's%d@x.test') % t

    tx_addrs = []                        # recipients named so far in the current transaction

    def rcpt(n):
        if tx_addrs and rnd.random() < 0.15:
            # the same recipient named again (one owed end-of-data reply per RCPT answered 2xx, RFC 2033),
            # sometimes differing in case only
            a = rnd.choice(tx_addrs)
            if rnd.random() < 0.3:
                a = a.upper() if a != a.upper() and rnd.random() < 0.5 else a.split('@')[0].upper() + '@' + a.split('@')[1]
        else:
            a = (rnd.choice(UTF8_RCPTS) if rnd.random() < 0.08 else 'r%d@x.test') % n
        tx_addrs.append(a)
        return a

    def cls(weights):
        if rnd.random() < 0.01:
            return '150'                 # a preliminary code: neither acceptance nor error
        return rnd.choice(CODES[rnd.choices((2, 3, 4, 5), weights)[0]])

    def nl():
        return rnd.choice((1, 1, 2, 3))

    def e():
        return esc and rnd.random() < 0.7

    def hello(name, code, arg='me.test', **kw):
        out = []
        if rnd.random() < 0.04:          # the caller first tries a name that cannot be encoded
            out.append(op(name, '250', 1, arg=rnd.choice(HELLO_NAMES_UTF8)))
        if rnd.random() < 0.02:          # ... or the greeting of the other protocol
            out.append(op('wrong_hello', '250', 1, arg=arg))
        out.append(op(name, code, nl(), arg=arg, bytes=rnd.random() < 0.3, esc=e(), **kw))
        return out

    def interlude(in_tx):
        """What a caller may put between (or, deviating, inside) transactions."""
        r = rnd.random()
        if r < 0.5:
            return [op('custom', cls((70, 10, 10, 10)), nl(), arg=rnd.choice(['NOOP', 'VRFY x', 'HELP', 'noop']),
                       esc=e())]
        if r < 0.7:
            # a server that answers 220 forgets the transaction: inside one the scripts only refuse STARTTLS
            code = rnd.choice(['503', '454', '501']) if in_tx or rnd.random() < 0.3 else '220'
            out = [op('starttls', code, nl(), esc=e())]
            if code == '220' or rnd.random() < 0.3:
                out += hello(hello_op, '250', arg='tls.test', adv=rnd.random() < 0.6, utf8=rnd.random() < 0.5,
                             ext=ext())
            return out if not in_tx else out[:1]
        if r < 0.9:
            mech = rnd.choice((None, 'PLAIN', 'LOGIN', 'CRAM-MD5'))
            steps = AUTH_STEPS[mech or 'PLAIN']
            return [op('auth', rnd.choice(AUTH_FINAL), nl(), mech=mech, esc=e(), authz=rnd.random() < 0.3,
                       chal=steps if rnd.random() < 0.8 else rnd.randint(0, steps))]
        if rnd.random() < 0.5:
            return [op('flush', '250', 1)]
        return [op('get_reply', cls((30, 0, 60, 10)), nl(), esc=e(), label=rnd.choice((None, 'IDLE')))]

    state = {'mail_ok': False}

    def rset_op():
        # any code class (also for LMTP). After an LMTP RSET that was not answered 2xx the script's server state
        # is only defined again once it accepts a MAIL (which starts a new transaction): that MAIL gets 250
        code = cls((70, 10, 10, 10))
        if lmtp and code[0] != '2':
            state['mail_ok'] = True
        return op('rset', code, nl(), esc=e())

    ops = [op('encrypt', '220', 1)] if rnd.random() < 0.04 else []
    ops.append(op('banner', cls((90, 0, 5, 5)), nl(), esc=e()))
    hello_code = rnd.choices(['250', rnd.choice(CODES[2]), cls((0, 0, 50, 50))], (85, 5, 10))[0]
    if lmtp:
        hello_code = '250'
    if rnd.random() >= 0.03:             # else: the caller skips the greeting altogether
        ops += hello(hello_op, hello_code, adv=adv, utf8=utf8, ext=ext())
        if not lmtp and hello_code[0] != '2':
            ops += hello('helo', cls((90, 0, 5, 5)))
    nr = 0
    for t in range(rnd.choice((1, 1, 2, 3))):
        if rnd.random() < 0.3:
            ops += interlude(False)
        if rnd.random() < 0.06:
            # the greeting repeated mid-session, answered with any code class
            ops += hello(hello_op, '250' if rnd.random() < 0.6 else cls((30, 10, 30, 30)), arg='again.test',
                         adv=rnd.random() < 0.5, utf8=rnd.random() < 0.5, ext=ext())
        ops.append(op('mail', '250' if state['mail_ok'] else cls((70, 4, 13, 13)), nl(), arg=sender(t), esc=e(),
                      **mailkw()))
        state['mail_ok'] = False
        del tx_addrs[:]
        for i in range(rnd.choice((0, 1, 1, 2, 2, 3, 4))):
            ops.append(op('rcpt', cls((55, 5, 20, 20)), nl(), arg=rcpt(nr), esc=e()))
            nr += 1
            if rnd.random() < 0.07:
                ops += interlude(True)
        if rnd.random() < 0.06:          # the caller abandons the transaction before DATA
            ops.append(rset_op())
            continue
        dcode = cls((8, 62, 15, 15))
        if plain_data and dcode[0] == '3':
            dcode = '554'
        ops.append(op('data', dcode, nl(), esc=e()))
        if dcode[0] == '3':
            codes = [cls((50, 6, 22, 22)) for _ in range(5)]
            ops.append(op('send_empty_data' if rnd.random() < 0.25 else 'send_data', codes[0], nl(),
                          arg=rnd.randrange(len(CONTENTS)), codes=codes, esc=e()))
            if rnd.random() < 0.15:
                ops.append(op('flush', '250', 1))
            if rnd.random() < 0.15:
                ops.append(rset_op())
        elif rnd.random() < 0.8:
            ops.append(rset_op())
        # else: deviation -- the caller starts the next transaction without RSET
    ops.append(op('quit', cls((80, 0, 10, 10)), nl(), esc=e()))
    return {'kind': 'rand', 'lmtp': lmtp, 'ops': ops, 'rs': rnd.randrange(1 << 30)}


def refuse_data(ops, start, lmtp=False):
    """From op `start` to the end of the transaction after its own no DATA is answered 3xx and no content is
    sent: a caller whose call failed cannot know that the server went into content mode (under PIPELINING the
    failure may only surface in the next transaction's DATA), so the scripts do not go there. LMTP: the client
    forgets recipients on RSET only (known finding when it is omitted), so these transactions are always reset."""
    i, mails = start, 0
    while i < len(ops):
        if i > start and ops[i]['op'] == 'mail':
            mails += 1
            if mails == 2:
                break
        if ops[i]['op'] == 'data':
            if ops[i]['code'][0] == '3':
                ops[i]['code'] = '554'
            if lmtp and ops[i + 1]['op'] not in ('rset', 'send_data', 'send_empty_data'):
                ops.insert(i + 1, op('rset', '250', 1))
        elif ops[i]['op'] in ('send_data', 'send_empty_data') and i > start:
            ops[i] = op('rset', '250', ops[i]['nl'])
        i += 1


def bad_eligible(case):
    out = []
    for i, o in enumerate(case['ops']):
        if o['op'] in ('mail', 'rcpt', 'data', 'custom', 'quit', 'get_reply', 'starttls', 'send_data',
                       'send_empty_data') or (o['op'] == 'rset' and not case['lmtp']):
            if o['op'] in ('mail', 'rcpt') and not o['arg'].isascii():
                continue
            out.append(i)
    return out


def with_bad_reply(case, i, form):
    o = case['ops'][i]
    if o['op'] not in ('send_data', 'send_empty_data'):
        o['code'] = '550'        # for the script's state the command was not accepted
    refuse_data(case['ops'], i, case['lmtp'])
    case['fault'] = {'type': 'badreply', 'op': i, 'form': form}
    case['kind'] = 'badreply'
    return case


def designed_script(lmtp, adv, pat, plain_data=False):
    nls = [1 + (i + pat) % 3 for i in range(16)]
    ops = [op('banner', '220', nls[0]),
           op('lhlo' if lmtp else 'ehlo', '250', nls[1], arg='me.test', adv=adv, ext=('AUTH',)),
           op('custom', '250', nls[2], arg='NOOP'),
           op('mail', '250', nls[3], arg='s0@x.test'),
           op('rcpt', '250', nls[4], arg='r0@x.test'),
           op('rcpt', '550', nls[5], arg='r1@x.test', esc=True),
           op('data', '554', nls[6]),
           op('rset', '250', nls[7]),
           op('get_reply', '250', nls[8]),
           op('mail', '250', nls[9], arg='s1@x.test'),
           op('rcpt', '251', nls[10], arg='r2@x.test'),
           op('data', '554' if plain_data else '354', nls[11]),
           op('rset', '250', nls[12]) if plain_data else
           op('send_data', '250', nls[12], arg=pat, codes=['250']),
           op('quit', '221', nls[13])]
    return {'kind': 'designed', 'lmtp': lmtp, 'ops': ops, 'rs': 7 + pat}


def gen_faults_designed(seed):
    for lmtp in (False, True):
        for adv in (True, False):
            base = designed_script(lmtp, adv, 0)
            for i in bad_eligible(base):
                for form in BAD_FORMS:
                    yield with_bad_reply(designed_script(lmtp, adv, len(form) % 2), i, form)
            for plain, kind in ((False, 'eof'), (True, 'timeout')):
                base = designed_script(lmtp, adv, 1, plain)
                ents = build_plan(base)['entries']
                offs = sorted(set(x for e in ents for x in (e.start, e.start + 1, e.start + 4,
                                                            (e.start + e.end) // 2, e.end - 2, e.end - 1)))
                for off in offs:
                    case = designed_script(lmtp, adv, 1, plain)
                    case['fault'] = {'type': kind, 'off': off}
                    if kind == 'eof' and off % 2:
                        case['fault']['reset'] = True
                    case['kind'] = kind
                    yield case


def gen_cuts(seed):
    """Every single cut of the whole reply stream and every pair of cuts around each line end, for the designed
    script: the deliveries in between whole and bytewise."""
    for lmtp in (False, True):
        for adv in (True, False):
            base = designed_script(lmtp, adv, 1)
            plan = build_plan(base)
            total = plan['total'] + len(TAIL)
            sets = [[c] for c in range(1, total)]
            ends = sorted(set(e.start + m.end() for e in plan['entries'] for m in re.finditer(b'\n', e.wire)))
            for x in ends:
                for a in range(max(1, x - 2), x + 3):
                    for b in range(a + 1, min(total, x + 4)):
                        sets.append([a, b])
            for j in range(0, len(sets), 50):
                case = designed_script(lmtp, adv, 1)
                case['kind'] = 'cuts'
                case['modes'] = sets[j:j + 50]
                yield case


def gen_random_fault(rnd):
    kind = rnd.choice(('badreply', 'badreply', 'eof', 'timeout'))
    case = gen_random(rnd, plain_data=(kind == 'timeout'))
    if kind == 'badreply':
        el = bad_eligible(case)
        return with_bad_reply(case, rnd.choice(el), rnd.choice(BAD_FORMS))
    total = build_plan(case)['total']
    case['fault'] = {'type': kind, 'off': rnd.randrange(total + (1 if kind == 'eof' else 0))}
    if kind == 'eof' and rnd.random() < 0.4:
        case['fault']['reset'] = True
    case['kind'] = kind
    return case


def short_script(lmtp, adv, variant):
    """A short conversation for the exhaustive interleavings of two concurrent clients."""
    v = variant
    ops = [op('banner', '220', 1 + v % 2),
           op('lhlo' if lmtp else 'ehlo', '250', 1, arg='c%d.test' % v, adv=adv, utf8=bool(v % 2),
              ext=('AUTH',) if v % 3 == 0 else ('SIZE',)),
           op('mail', '250' if v != 2 else '251', 1 + v % 3, arg='s%d@x.test' % v),
           op('rcpt', '250', 1, arg='a%d@x.test' % v),
           op('rcpt', '550' if v % 2 else '250', 2, arg='b%d@x.test' % v)]
    if v == 3:      # without content: refused DATA, reset
        ops += [op('data', '554', 1), op('rset', '250', 1)]
    else:
        ops += [op('data', '354', 1),
                op('send_empty_data' if v == 1 else 'send_data', '250', 1, arg=v % 2, codes=['250', '452'])]
    ops.append(op('quit', '221', 1))
    return {'kind': 'short', 'lmtp': lmtp, 'ops': ops, 'rs': 11 + v}


CONC_PAIRS = [((False, True, 0), (True, True, 1)), ((False, True, 2), (False, True, 1)),
              ((True, True, 0), (True, True, 2)), ((False, False, 3), (True, True, 0))]
CONC_CHUNKS = 12


def gen_concurrent_designed(seed):
    """Two short conversations under EVERY interleaving of their turns (a turn = the conversation runs until its
    next read finds nothing ready), the released replies handed over per flush ('whole')."""
    for a, b in CONC_PAIRS:
        for k in range(CONC_CHUNKS):
            yield {'kind': 'conc', 'convs': [short_script(*a), short_script(*b)], 'cmodes': ['whole', 'whole'],
                   'all': [k, CONC_CHUNKS], 'rs': seed}
        # the same pair with every read ending after one reply line (a client waits in the middle of a multi-line
        # reply while the other one runs): seeded interleavings
        for k in range(4):
            yield {'kind': 'conc', 'convs': [short_script(*a), short_script(*b)], 'cmodes': ['line', 'line'],
                   'nsched': 40, 'rs': seed * 100 + k}


def gen_lmtp_rset(seed):
    """LMTP: a transaction with accepted recipients abandoned by RSET, the RSET answered with every code the
    scripts know (2xx other than 250, 1xx, 3xx, 4xx, 5xx), then a further accepted transaction to end-of-data."""
    codes = sorted(set(c for v in CODES.values() for c in v) | {'150'})
    for code in codes:
        for adv in (True, False):
            for empty in (False, True):
                nls = [1 + (i + empty) % 3 for i in range(12)]
                ops = [op('banner', '220', nls[0]),
                       op('lhlo', '250', nls[1], arg='me.test', adv=adv),
                       op('mail', '250', nls[2], arg='s0@x.test'),
                       op('rcpt', '250', nls[3], arg='old0@x.test'),
                       op('rcpt', '251', nls[4], arg='old1@x.test'),
                       op('data', '554', nls[5]),
                       op('rset', code, nls[6]),
                       op('mail', '250', nls[7], arg='s1@x.test'),
                       op('rcpt', '250', nls[8], arg='new0@x.test'),
                       op('data', '354', nls[9]),
                       op('send_empty_data' if empty else 'send_data', '250', nls[10], arg=1, codes=['250', '452']),
                       op('quit', '221', nls[11])]
                yield {'kind': 'lmtprset', 'lmtp': True, 'ops': ops, 'rs': seed}


DUP_PATTERNS = [
    [('a@x.test', '250'), ('a@x.test', '250')],
    [('a@x.test', '250'), ('a@x.test', '251'), ('a@x.test', '250')],
    [('a@x.test', '250'), ('a@x.test', '550')],
    [('a@x.test', '550'), ('a@x.test', '250')],
    [('a@x.test', '452'), ('a@x.test', '250'), ('a@x.test', '250')],
    [('a@x.test', '250'), ('A@x.test', '250')],
    [('a@x.test', '250'), ('a@X.TEST', '250'), ('A@X.TEST', '550')],
    [('a@x.test', '250'), ('b@x.test', '250'), ('a@x.test', '250')],
    [('b@x.test', '550'), ('a@x.test', '250'), ('b@x.test', '250'), ('a@x.test', '250')],
]


def gen_lmtp_duplicates(seed):
    """LMTP: the same recipient named in several RCPTs of one transaction (accepted each time / accepted and
    refused in either order / differing in case only): one end-of-data reply per RCPT answered 2xx, in RCPT
    order; then a second transaction that repeats a recipient of the first."""
    for pi, pat in enumerate(DUP_PATTERNS):
        for adv in (True, False):
            for empty in (False, True):
                for lmtp in (True, False):
                    nls = [1 + (i + pi) % 3 for i in range(20)]
                    ops = [op('banner', '220', nls[0]),
                           op('lhlo' if lmtp else 'ehlo', '250', nls[1], arg='me.test', adv=adv),
                           op('mail', '250', nls[2], arg='s0@x.test')]
                    ops += [op('rcpt', c, nls[3 + j], arg=a) for j, (a, c) in enumerate(pat)]
                    ops += [op('data', '354', nls[8]),
                            op('send_empty_data' if empty else 'send_data', '250', nls[9], arg=pi % 4,
                               codes=['250', '452', '550', '251']),
                            op('mail', '250', nls[10], arg='s1@x.test'),
                            op('rcpt', '250', nls[11], arg=pat[0][0]),
                            op('rcpt', '250', nls[12], arg='c@x.test'),
                            op('data', '354', nls[13]),
                            op('send_data' if empty else 'send_empty_data', '250', nls[14], arg=1,
                               codes=['251', '250']),
                            op('quit', '221', nls[15])]
                    yield {'kind': 'lmtpdup', 'lmtp': lmtp, 'ops': ops, 'rs': seed}


def gen_concurrent_random(rnd):
    n = rnd.choice((2, 2, 3))
    return {'kind': 'conc', 'convs': [gen_random(rnd) for _ in range(n)],
            'cmodes': [rnd.choice(('whole', 'reply', 'line', 'line', 'rand')) for _ in range(n)],
            'nsched': 4, 'rs': rnd.randrange(1 << 30)}


def gen_cases(tier, seed, shard, nshards):
    n = 0
    for case in itertools.chain(gen_lmtp_rset(seed), gen_lmtp_duplicates(seed), gen_faults_designed(seed),
                                gen_cuts(seed),
                                gen_concurrent_designed(seed),
                                gen_utf8(seed), gen_mailparams(seed), gen_exhaustive(seed)):
        if n % nshards == shard:
            yield case
        n += 1
    rnd = random.Random('c10-%d-%d' % (seed, shard))
    for i in range(NRANDOM[tier] // nshards):
        if i % 16 == 3:
            yield gen_concurrent_random(rnd)
        else:
            yield gen_random_fault(rnd) if i % 8 == 7 else gen_random(rnd)


# ------------------------------------------------------------------ the plan: script + expectations
class Entry(object):
    __slots__ = ('k', 'need', 'code', 'nl', 'op', 'addr', 'wire', 'hello', 'adv', 'utf8', 'ext', 'esc', 'text',
                 'hidden', 'bad', 'opi', 'start', 'end', 'cmd')


def make_wire(e):
    if e.hidden:                 # a 334 challenge inside auth(): the text must be base64
        lines = [base64.b64encode(b'<r%dx.challenge@peer.test>' % e.k).decode('ascii')]
    elif e.hello and e.code == '250':
        lines = ['r%dx hello' % e.k] + (['PIPELINING'] if e.adv else []) + \
                ['X-EXT%d r%dx' % (j, e.k) for j in range(e.nl - 1)] + ['8BITMIME'] + \
                (['SMTPUTF8'] if e.utf8 else []) + e.ext
    else:
        who = ' for=<%s>' % e.addr if e.addr else ''
        esc = '%s.%d.%d ' % (e.code[0], 1 + e.k % 7, e.k % 10) if e.esc and e.code[0] in '245' else ''
        lines = ['%sr%dx %s%s l%d' % (esc, e.k, e.op, who, j) for j in range(e.nl)]
    e.text = lines[0] if (e.hello and e.code == '250') else '\r\n'.join(lines)
    if e.bad == 'garbage':       # one malformed reply where the reply to this command belongs
        return ('r%dx garbage instead of a reply\r\n' % e.k).encode('ascii')
    if e.bad == 'code':
        return ('650 r%dx impossible code\r\n' % e.k).encode('ascii')
    if e.bad == 'utf8':
        return ('%s r%dx undecodable ' % (e.code, e.k)).encode('ascii') + b'\xff\xfe\r\n'
    if e.bad == 'midgarbage':
        return ('%s-r%dx first line\r\nr%dx garbage second line\r\n' % (e.code, e.k, e.k)).encode('ascii')
    return ''.join('%s%s%s\r\n' % (e.code, '-' if j < len(lines) - 1 else ' ', ln)
                   for j, ln in enumerate(lines)).encode('utf-8')


def build_plan(case):
    """Static reading of the case: script entries in order, for every op the script indexes it must return,
    per command unit whether the client must have read everything before (no pipelining in effect / content)."""
    lmtp = case['lmtp']
    fault = case.get('fault') or {}
    entries, per_op, verbs, must_sync, content_units, data3, piped = [], [], {}, {}, set(), set(), {}
    units, accepted, adv_eff, flags = 0, [], False, set()
    # non-ASCII addresses: ops the client is expected to refuse (no command, no reply), units whose command line
    # must carry the address UTF-8 encoded
    utf8_eff, refused, utf8_units, op_unit = False, {}, {}, []
    # MAIL parameters: what the greeting in effect allows; per MAIL unit the parameters that must be on the wire
    auth_eff, size_eff, mail_units, utf8_at = False, False, {}, []
    # classification aid only (never part of a verdict): recipients answered 2xx since the last LHLO-250 / RSET /
    # end-of-data, i.e. including those of a transaction the server dropped when it accepted a new MAIL
    unreset, stale_ops = [], {}
    no_command = {}              # op index -> why the call must not put anything on the wire

    def add(o, code, need, addr=None, hello=False, hidden=False):
        e = Entry()
        e.k, e.need, e.code, e.nl, e.op, e.addr = len(entries), need, code, (1 if hidden else o['nl']), o['op'], addr
        e.hello, e.adv, e.utf8, e.esc, e.hidden = hello, bool(o.get('adv')), bool(o.get('utf8')), bool(o.get('esc')), hidden
        e.ext = (['AUTH PLAIN LOGIN CRAM-MD5'] if o.get('auth_adv') else []) + \
            (['SIZE 10485760'] if o.get('size_adv') else [])
        e.opi = len(per_op)
        e.bad = None
        if fault.get('type') == 'badreply' and fault['op'] == e.opi and not hidden and \
                not any(x.opi == e.opi for x in entries):
            e.bad = fault['form']
        e.cmd = CMD_ATTR.get(o['op'])
        if o['op'] == 'custom':
            e.cmd = o['arg'].split()[0].upper().encode('ascii')
        elif o['op'] == 'get_reply' and o.get('label'):
            e.cmd = o['label'].encode('ascii')
        e.wire = make_wire(e)
        e.start = entries[-1].end if entries else 0
        e.end = e.start + len(e.wire)
        entries.append(e)
        return e.k

    for o in case['ops']:
        name, code = o['op'], o['code']
        utf8_at.append(utf8_eff)
        if name in ('banner', 'get_reply'):
            per_op.append([add(o, code, units)])
            op_unit.append(None)
            continue
        if name in ('flush', 'wrong_hello', 'encrypt'):
            no_command[len(per_op)] = name
            per_op.append([])
            op_unit.append(None)
            continue
        if name in ('ehlo', 'helo', 'lhlo') and not o['arg'].isascii():
            refused[len(per_op)] = 'hello-name'
            per_op.append([])
            op_unit.append(None)
            flags.add('unencodable-hello-name')
            continue
        if name == 'auth':
            if not auth_eff:
                no_command[len(per_op)] = 'auth-not-advertised'
                per_op.append([])
                op_unit.append(None)
                flags.add('auth-without-advertisement')
                continue
            ks = []
            for j in range(o['chal'] + 1):          # lock-step exchange: AUTH line, then one line per challenge
                units += 1
                verbs[units] = b'AUTH' if j == 0 else None
                must_sync[units] = True
                piped[units] = False
                ks.append(add(o, '334' if j < o['chal'] else code, units, hidden=j < o['chal']))
            op_unit.append(units)
            per_op.append(ks)
            flags.add('auth-exchange-%d-challenges' % o['chal'])
            continue
        if name in ('mail', 'rcpt') and not o['arg'].isascii():
            if not utf8_eff:
                refused[len(per_op)] = 'address'
                per_op.append([])
                op_unit.append(None)
                flags.add('unencodable-address-%s' % name)
                continue
            utf8_units[units + 1] = o['arg'].encode('utf-8')
            flags.add('utf8-address-%s' % name)
        if name == 'mail':
            auth = o.get('auth')
            if isinstance(auth, str) and not auth.isascii() and auth_eff and not utf8_eff:
                refused[len(per_op)] = 'mail-parameter'
                per_op.append([])
                op_unit.append(None)
                flags.add('unencodable-mail-auth-parameter')
                continue
            want = {}
            if 'size' in o and size_eff:
                want[b'SIZE'] = str(o['size']).encode('ascii')
            if auth is not None and auth_eff:
                want[b'AUTH'] = b'<>' if auth is False else auth
            mail_units[units + 1] = want
            if 'size' in o or auth is not None:
                flags.add('mail-with-size-or-auth-argument')
        units += 1
        op_unit.append(units)
        must_sync[units] = not adv_eff
        piped[units] = adv_eff
        if name in ('send_data', 'send_empty_data'):
            content_units.add(units)
            must_sync[units] = True
            if lmtp:
                if unreset != accepted:
                    stale_ops[len(per_op)] = list(unreset)
                unreset = []
                ks = [add(o, o['codes'][j % len(o['codes'])], units, addr=a) for j, a in enumerate(accepted)]
                if len(set(o['codes'][j % len(o['codes'])][0] for j in range(len(accepted)))) > 1:
                    flags.add('lmtp-mixed-data-replies')
                per_op.append(ks)
                accepted = []
            else:
                per_op.append([add(o, code, units)])
            continue
        verbs[units] = {'ehlo': b'EHLO', 'lhlo': b'LHLO', 'helo': b'HELO', 'mail': b'MAIL', 'rcpt': b'RCPT',
                        'data': b'DATA', 'rset': b'RSET', 'quit': b'QUIT', 'starttls': b'STARTTLS'}.get(name) or \
            o['arg'].split()[0].upper().encode('ascii')
        per_op.append([add(o, code, units, hello=name in ('ehlo', 'lhlo'))])
        if name in ('ehlo', 'lhlo') and code == '250':
            adv_eff = bool(o['adv'])
            utf8_eff = bool(o.get('utf8'))
            auth_eff, size_eff = bool(o.get('auth_adv')), bool(o.get('size_adv'))
            accepted, unreset = [], []
        elif name == 'rcpt':
            if code[0] == '2':
                if lmtp and o['arg'].lower() in [a.lower() for a in accepted]:
                    flags.add('lmtp-recipient-accepted-more-than-once')
                accepted.append(o['arg'])
                unreset.append(o['arg'])
            else:
                flags.add('rcpt-refused')
        elif name == 'mail' and code[0] == '2':
            if accepted:
                flags.add('mail-accepted-without-rset-while-recipients-pending')
            accepted = []
        elif name == 'rset':
            unreset = []             # classification aid: not the 'MAIL without RSET' situation any more
            if code[0] == '2':
                accepted = []
            else:
                flags.add('rset-refused' if code[0] in '45' else 'rset-answered-1xx-3xx')
        elif name == 'data' and code[0] == '3':
            data3.add(units)
            if lmtp and accepted and 'rcpt-refused' in flags:
                flags.add('lmtp-mixed-acceptance')
        elif name == 'starttls':
            flags.add('starttls-%s' % ('accepted' if code == '220' else 'refused'))
            if code == '220':        # RFC 3207 4.2: the clear-text greeting no longer counts (the scripts greet again)
                adv_eff = utf8_eff = auth_eff = size_eff = False
    return {'entries': entries, 'per_op': per_op, 'verbs': verbs, 'must_sync': must_sync,
            'content_units': content_units, 'data3': data3, 'flags': flags, 'piped': piped,
            'stale_ops': stale_ops, 'refused': refused, 'utf8_units': utf8_units, 'op_unit': op_unit,
            'mail_units': mail_units, 'utf8_at': utf8_at, 'no_command': no_command, 'fault': fault,
            'total': entries[-1].end if entries else 0}


# ------------------------------------------------------------------ scripted peer
class ReplyServer(object):
    """The other end of the ScriptSocket. Splits what the client wrote into command lines and content
    blocks (own parser), releases reply k once the unit it answers has arrived, delivers the released bytes
    in the case's mode."""

    def __init__(self, plan, mode, rnd):
        self.plan, self.mode, self.rnd = plan, mode, rnd
        self.entries = plan['entries']
        self.units = 0
        self.released = 0
        self.tail_given = False
        self.pending = []            # released wire chunks not yet handed to the socket
        self.buf = b''
        self.in_data = False
        self.seen = []               # verbs / b'<content>' per unit
        self.lines = {}              # unit -> raw command line
        self.batches = []            # units completed per sendall
        self.early = []              # units that arrived while earlier replies were still unread
        self.sync_checked = 0
        self.fault = plan.get('fault') or {}
        self.fed = 0                 # bytes of the reply stream handed to the socket so far
        self.fired = None            # 'timeout' | 'eof' once the fault has taken place
        self.fired_units = None

    def need_before(self, unit):
        # bytes of all replies that answer earlier units: what the client must have been handed before
        # unit may arrive when no pipelining is in effect
        return sum(len(e.wire) for e in self.entries if e.need < unit)

    def on_send(self, ss, data):
        if self.fired == 'eof' and self.fault.get('reset'):
            raise OSError(errno.ECONNRESET, 'Connection reset by peer')
        self.buf += data
        done = 0
        while True:
            i = self.buf.find(b'\r\n')
            if i < 0:
                break
            line, self.buf = self.buf[:i], self.buf[i + 2:]
            if self.in_data:
                if line != b'.':
                    continue
                self.in_data = False
                self.units += 1
                self.seen.append(b'<content>')
            else:
                self.units += 1
                verb = line.split(b' ')[0].upper()
                self.seen.append(verb)
                self.lines[self.units] = line
                if verb == b'DATA' and self.units in self.plan['data3']:
                    self.in_data = True
            done += 1
            if self.plan['must_sync'].get(self.units):
                self.sync_checked += 1
                if ss.consumed < self.need_before(self.units):
                    self.early.append((self.units, self.seen[-1]))
        self.batches.append(done)

    def release(self):
        while self.released < len(self.entries) and self.entries[self.released].need <= self.units:
            self.pending.append(self.entries[self.released].wire)
            self.released += 1
        if self.released == len(self.entries) and not self.tail_given:
            self.tail_given = True
            self.pending.append(TAIL)

    def on_recv(self, ss):
        self.release()
        f = self.fault
        if f.get('type') == 'timeout' and self.fired is None and not ss.segments and self.fed >= f['off']:
            # the caller's Timeout fires while the client is blocked in this read; the reply comes later
            self.fired, self.fired_units = 'timeout', self.units
            raise GTimeout()
        if ss.segments:
            return
        if f.get('type') == 'eof' and self.fed >= f['off']:
            # the server has gone: everything up to the offset was delivered, this read finds the end of stream
            if self.fired is None:
                self.fired, self.fired_units = 'eof', self.units
            if f.get('reset'):       # the connection is reset rather than closed
                raise OSError(errno.ECONNRESET, 'Connection reset by peer')
            ss.eof = True
            return
        if not self.pending:
            return
        limit = sum(len(c) for c in self.pending)
        if f.get('type') == 'eof':
            limit = min(limit, f['off'] - self.fed)
        if self.mode == 'reply':
            chunk = self.pending.pop(0)[:limit]
        else:
            flat = b''.join(self.pending)
            if self.mode == 'whole':
                n = len(flat)
            elif self.mode == 'byte':
                n = 1
            elif self.mode == 'line':                       # one reply line per read
                n = flat.find(b'\n') + 1 or len(flat)
            elif isinstance(self.mode, (list, tuple)):      # cuts at global offsets of the reply stream
                nxt = [c for c in self.mode if c > self.fed]
                n = (nxt[0] - self.fed) if nxt else len(flat)
            else:
                n = self.rnd.randint(1, len(flat))
            n = min(n, limit)
            chunk = flat[:n]
            self.pending = [flat[n:]] if flat[n:] else []
        self.fed += len(chunk)
        ss.feed(chunk)


# ------------------------------------------------------------------ driving the real client
class FakeTlsContext(object):
    """Stands in for the ssl context of starttls(): 'wraps' by handing the scripted socket back."""

    def __init__(self):
        self.wrapped = 0

    def wrap_socket(self, sock, server_hostname=None, **kw):
        self.wrapped += 1
        return sock

    def session_stats(self):
        return {}


def call(client, o, ctx=None):
    """Invoke the client method for op o. Returns list of (address|None, Reply)."""
    name = o['op']
    arg = o.get('arg')
    if name in ('ehlo', 'lhlo', 'helo') and o.get('bytes'):
        arg = arg.encode('ascii')
    if name == 'banner':
        return [(None, client.get_banner())]
    if name == 'ehlo':
        return [(None, client.ehlo(arg))]
    if name == 'lhlo':
        return [(None, client.lhlo(arg))]
    if name == 'helo':
        return [(None, client.helo(arg))]
    if name == 'wrong_hello':        # the greeting of the other protocol: documented NotImplementedError
        if isinstance(client, LmtpClient):
            return [(None, (client.ehlo if len(arg) % 2 else client.helo)(arg))]
        return [(None, client.lhlo(arg))]
    if name == 'mail':
        kw = {}
        if 'size' in o:
            kw['data_size'] = o['size']
        if 'auth' in o:
            kw['auth'] = o['auth']
        return [(None, client.mailfrom(arg, **kw))]
    if name == 'rcpt':
        return [(None, client.rcptto(arg))]
    if name == 'data':
        return [(None, client.data())]
    if name == 'rset':
        return [(None, client.rset())]
    if name == 'quit':
        return [(None, client.quit())]
    if name == 'starttls':
        return [(None, client.starttls(ctx))]
    if name == 'auth':
        mech = o.get('mech')
        return [(None, client.auth('user@x.test', 'secret', 'admin@x.test' if o.get('authz') else None,
                                   mech.encode('ascii') if mech else None))]
    if name == 'encrypt':            # a server that expects TLS at once (the relay's tls_immediately)
        client.encrypt(ctx)
        return []
    if name == 'flush':              # what the library's own relay does after send_data()
        client._flush_pipeline()
        return []
    if name == 'get_reply':
        if o.get('label'):
            return [(None, client.get_reply(o['label'].encode('ascii')))]
        return [(None, client.get_reply())]
    if name == 'custom':
        parts = arg.encode('ascii').split(b' ', 1)
        return [(None, client.custom_command(parts[0], parts[1] if len(parts) > 1 else None))]
    if name in ('send_data', 'send_empty_data'):
        ret = client.send_empty_data() if name == 'send_empty_data' else client.send_data(*CONTENTS[arg])
        if isinstance(ret, list):
            return [(a, r) for a, r in ret]
        return [(None, ret)]
    raise ValueError(name)


def run_once(case, plan, mode, rs, R):
    """One evaluation. Returns list of (mechanism, what, detail)."""
    lmtp = case['lmtp']
    who = 'lmtp' if lmtp else 'smtp'
    entries = plan['entries']
    fault = plan['fault']
    ftype = fault.get('type')
    rnd = random.Random(rs)
    srv = ReplyServer(plan, mode, rnd)
    ss = ScriptSocket(on_recv=srv.on_recv, on_send=srv.on_send)
    client = (LmtpClient if lmtp else Client)(ss, ('peer.test', 25))
    ctx = FakeTlsContext()
    out = []
    returned = []            # (op index, op name, expected k, address, Reply)
    aborted = None
    STALE = 'lmtp-stale-recipients-after-mail-without-rset'
    phantom = None           # (op index, op name) of a refused call that left a reply owed
    bad_open = [e for e in entries if e.bad]     # malformed replies not yet reported by a BadReply
    bad_raised = []          # (op index, entry) per BadReply that answered for a scripted malformed reply
    lost_at = None           # op index of the first ConnectionLost after the scripted end of the stream
    timed_out_at = None      # op index whose call was interrupted by the scripted Timeout
    tls_expected = 0
    after_lost = 0

    def viol(mech, what, **kw):
        kw.update({'mode': mode, 'rs': rs, 'commands_seen_by_server': list(srv.seen),
                   'sendall_batches': list(srv.batches)})
        if ftype:
            kw['fault'] = dict(fault)
        out.append((mech, what, kw))

    for i, o in enumerate(case['ops']):
        name = o['op']
        if lost_at is not None and i < len(case['ops']) - 1 and \
                (after_lost >= 2 or name not in ('rset', 'custom', 'quit', 'get_reply', 'flush')):
            continue         # after the connection is gone: at most two clean-up calls and the final QUIT
        if lost_at is not None:
            after_lost += 1
        before = (len(client.reply_queue), client.io.send_buffer.getvalue(), len(ss.sent))
        try:
            try:
                got = call(client, o, ctx)
            except (BadReply, GTimeout) as ex:
                # auth() drains the pipeline before it sends anything: when that drain meets the scripted fault
                # the AUTH exchange has not begun, and the caller of this script simply calls auth() again
                if name != 'auth' or i in plan['no_command'] or srv.units > before_units(plan, i):
                    raise
                if isinstance(ex, BadReply):
                    cand = [e for e in bad_open if e.need <= srv.units and e.opi != i]
                    if not cand:
                        raise
                    bad_open.remove(cand[0])
                    bad_raised.append((i, cand[0]))
                    R.hit('bad-reply-continued')
                    R.count('bad-reply-%s-surfaced-in-auth-drain' % cand[0].op)
                else:
                    if srv.fired != 'timeout' or timed_out_at is not None:
                        raise
                    timed_out_at = i
                    R.hit('timeout-continued')
                got = call(client, o, ctx)
        except UnicodeEncodeError as ex:
            hello = name in ('ehlo', 'helo', 'lhlo')
            if not hello and (name not in ('mail', 'rcpt') or
                              (o['arg'].isascii() and str(o.get('auth', '')).isascii())):
                raise
            if i not in plan['refused']:
                aborted = (i, name, 'refused-although-encodable')
                if plan['utf8_at'][i]:
                    viol('utf8-address-refused-although-smtputf8-in-effect/%s/%s' % (who, name),
                         '%s(%r, auth=%r) raised %r although the last 250 greeting advertised SMTPUTF8'
                         % (name, o['arg'], o.get('auth'), ex), op_index=i)
                else:
                    viol('mail-parameter-refused-although-auth-not-advertised/%s' % who,
                         'mail(%r, auth=%r) raised %r although AUTH= is not to be sent' % (o['arg'], o['auth'], ex),
                         op_index=i)
                break
            R.hit('unencodable-%s-refused' % plan['refused'][i])
            after = (len(client.reply_queue), client.io.send_buffer.getvalue(), len(ss.sent))
            if after[1:] != before[1:]:
                viol('bytes-sent-for-refused-%s/%s/%s' % ('hello-name' if hello else 'address', who, name),
                     '%s(%r) raised but wrote %r' % (name, o['arg'], after[1][len(before[1]):] or ss.sent[-1]),
                     op_index=i)
            if after[0] != before[0] and phantom is None:
                phantom = (i, name, plan['refused'][i])     # signature only; the verdict comes from what follows
            continue
        except NotImplementedError:
            if name != 'wrong_hello':
                raise
            R.hit('other-protocol-greeting-refused')
            after = (len(client.reply_queue), client.io.send_buffer.getvalue(), len(ss.sent))
            if after != before:
                viol('not-implemented-greeting-left-traces/%s' % who,
                     'NotImplementedError but reply queue %d -> %d, wrote %r'
                     % (before[0], after[0], after[1][len(before[1]):]), op_index=i)
            continue
        except WouldBlock:
            srv.release()
            unflushed = client.io.send_buffer.getvalue()
            why = ('would-block-awaits-reply-before-command-flushed' if unflushed
                   else 'would-block-reads-past-last-owed-reply')
            aborted = (i, name, why)
            mech = '%s/%s/%s' % (why, who, name)
            if i in plan['stale_ops'] and not unflushed:
                mech = STALE
            viol(mech,
                 '%s in %s (op %d); %d of %d script replies released, %d bytes handed out'
                 % (why, name, i, srv.released, len(entries), ss.consumed),
                 op_index=i, unflushed=unflushed,
                 populated=[(n, r.code, r.message) for _, n, _, _, r in returned if r.code is not None])
            break
        except GTimeout:
            if srv.fired != 'timeout' or timed_out_at is not None:
                raise
            timed_out_at = i
            R.hit('timeout-continued')
            continue
        except BadReply as ex:
            # the scripted malformed reply that is next in the stream answers for this exception
            cand = [e for e in bad_open if e.need <= srv.units]
            if cand and MARK.findall((ex.data or b'').decode('latin-1')) and \
                    int(MARK.findall(ex.data.decode('latin-1'))[0]) == cand[0].k:
                bad_open.remove(cand[0])
                bad_raised.append((i, cand[0]))
                R.hit('bad-reply-continued')
                R.count('bad-reply-%s-surfaced-in-%s' % (cand[0].op, name))
                if name in ('ehlo', 'lhlo', 'helo') and cand[0].opi != i:
                    # the greeting's own reply is still queued and its extensions will never be parsed: from
                    # here on the script no longer knows what the client believes; what was returned so far
                    # is judged, the run ends
                    aborted = (i, name, 'greeting-interrupted')
                    R.count('recorded/after-bad-reply/greeting-interrupted-run-ended')
                    break
                if lmtp and name == 'rset' and cand[0].opi != i:
                    # LmtpClient.rset() forgets the recipients only after its drain returned: RSET is on the wire
                    # but the client still lists them. Malformed replies are outside the statement; recorded
                    aborted = (i, name, 'lmtp-rset-interrupted')
                    R.count('recorded/after-bad-reply/lmtp-rset-interrupted-recipients-kept-run-ended')
                    break
                continue
            aborted = (i, name, 'BadReply')
            viol('%sclient-raises-BadReply/%s/%s' % ('after-connection-lost/' if srv.fired == 'eof' else '', who, name),
                 'client raised %r in %s' % (ex, name), op_index=i)
            break
        except ConnectionLost as ex:
            if srv.fired == 'eof':
                if lost_at is None:
                    lost_at = i
                R.hit('connection-lost-continued')
                continue
            aborted = (i, name, 'ConnectionLost')
            viol('client-raises-ConnectionLost/%s/%s' % (who, name), 'client raised %r in %s' % (ex, name),
                 op_index=i)
            break
        except Exception as ex:
            if not (bad_raised or lost_at is not None or timed_out_at is not None):
                raise
            aborted = (i, name, type(ex).__name__)
            viol('unclassified/%s-in-later-call/%s/%s' % (type(ex).__name__, who, name),
                 '%s raised %r' % (name, ex), op_index=i)
            break
        if i in plan['refused'] and timed_out_at is not None:
            R.count('recorded/after-timeout/extensions-of-interrupted-greeting-not-learnt')
            return [], (i, name, 'unplanned-command')
        if i in plan['refused'] and phantom is not None:
            # knock-on of the phantom reply: a greeting after it was paired with the wrong reply, so the client
            # never learnt what that greeting advertised
            aborted = (i, name, 'unplanned-command')
            viol('unplanned-command/%s/%s' % (who, name), '%s(%r) was sent although the script has SMTPUTF8 off'
                 % (name, o['arg']), op_index=i)
            break
        if i in plan['refused']:
            # the client found a way to send the address without SMTPUTF8: outside what the script planned for
            R.inconclusive('non-ASCII address sent without SMTPUTF8 (script assumes refusal)')
            return [], (i, name, 'unplanned-command')
        if i in plan['no_command']:
            why = plan['no_command'][i]
            after = (len(client.reply_queue), client.io.send_buffer.getvalue(), len(ss.sent))
            if why == 'wrong_hello':
                viol('other-protocol-greeting-not-refused/%s' % who, '%s returned %r' % (name, got), op_index=i)
                aborted = (i, name, 'unplanned-command')
                break
            if why == 'auth-not-advertised':
                wrote = b''.join(ss.sent[before[2]:]) + after[1]
                if any(ln.upper().startswith(b'AUTH') for ln in wrote.split(b'\r\n')):
                    if timed_out_at is not None:
                        R.count('recorded/after-timeout/extensions-of-interrupted-greeting-not-learnt')
                        return [], (i, name, 'unplanned-command')
                    if phantom is not None:
                        aborted = (i, name, 'unplanned-command')
                        viol('unplanned-command/%s/auth' % who, 'AUTH sent although the script has it off',
                             op_index=i)
                        break
                    R.inconclusive('AUTH sent although not advertised (script assumes no command)')
                    return [], (i, name, 'unplanned-command')
                R.hit('auth-not-advertised-no-command')
                if got[0][1].code is None or got[0][1].code[0] not in '45':
                    viol('auth-without-advertisement-reports-success/%s' % who, 'auth() returned %r' % got[0][1],
                         op_index=i)
                got = []
        ks = plan['per_op'][i]
        if name == 'auth' and ks:
            ks = ks[-1:]         # the challenges are consumed inside the call
        if name == 'encrypt':
            tls_expected += 1
        if name == 'starttls':
            tls_expected += 1 if entries[ks[0]].code == '220' else 0
            R.hit('starttls-decision-compared')
            if ctx.wrapped != tls_expected and timed_out_at is None:
                viol('starttls-decision-differs-from-its-reply/%s' % who,
                     'STARTTLS was answered %s, socket wrapped %d times, expected %d'
                     % (entries[ks[0]].code, ctx.wrapped, tls_expected), op_index=i)
                tls_expected = ctx.wrapped
        if lmtp and name in ('send_data', 'send_empty_data'):
            R.hit('lmtp-recipients-compared')
            want = [entries[k].addr for k in ks]
            if [a for a, _ in got] != want:
                # from here on client and script disagree about how many replies are owed: everything later
                # in this run would be a knock-on effect, so the run ends here
                aborted = (i, name, 'lmtp-recipients-differ')
                mech = 'lmtp-recipients-differ/%s' % name
                if [a for a, _ in got] == plan['stale_ops'].get(i):
                    mech = STALE
                viol(mech,
                     'LMTP %s returned recipients %r, the script accepted %r' % (name, [a for a, _ in got], want),
                     op_index=i)
                break
        for j, (addr, r) in enumerate(got):
            returned.append((i, name, ks[j] if j < len(ks) else None, addr, r))
        # population rules
        unit_sync = not lmtp_or_smtp_pipelining(plan, i)
        if (name in SYNC_OPS or unit_sync) and timed_out_at is None and lost_at is None:
            missing = [(n, k) for _, n, k, _, r in returned
                       if r.code is None and not (k is not None and entries[k].bad)]
            if missing:
                kind = ('unpopulated-after-synchronous-command' if name in SYNC_OPS
                        else 'not-populated-on-return-without-pipelining')
                viol('%s/%s/%s' % (kind, who, name), '%s: after %s these replies are still empty: %r'
                     % (kind, name, missing), op_index=i)
    if bad_raised and aborted is None and client.reply_queue and bad_raised[-1][0] == len(case['ops']) - 1:
        # the last call reported the malformed answer to an earlier command: its own reply is still owed
        try:
            client._flush_pipeline()
        except WouldBlock:
            aborted = (len(case['ops']), 'flush', 'would-block')
            viol('would-block-reads-past-last-owed-reply/%s/final-flush' % who,
                 'flush after the last call blocks with %d replies queued' % (len(client.reply_queue) + 1))
    # identity: one Reply object per command
    seen_ids = {}
    for i, name, k, addr, r in returned:
        if id(r) in seen_ids and seen_ids[id(r)] != i:
            viol('same-reply-object-returned-twice/%s/%s' % (who, name),
                 'ops %d and %d returned the same Reply object' % (seen_ids[id(r)], i), op_index=i)
        seen_ids[id(r)] = i
    # pairing: every populated reply (all of them after a complete run) must hold its own script entry
    for i, name, k, addr, r in returned:
        if r.code is None:
            continue
        marks = [int(m) for m in MARK.findall(r.message or '')]
        if k is None:
            viol('unclassified/reply-without-script-entry/%s' % name, 'extra reply object %r' % r, op_index=i)
            continue
        e = entries[k]
        R.hit('reply-paired')
        if e.addr is not None:
            R.hit('lmtp-data-replies-paired')
        if name == 'auth':
            R.hit('auth-exchange-paired')
        elif name == 'starttls':
            R.hit('starttls-paired')
        want_marks = [k] if (e.hello and e.code == '250') else [k] * e.nl
        if e.bad or set(marks) - {k} or (not marks and r.code != e.code):
            viol('mispaired/%s/%s' % (who, name),
                 'reply object of %s (script entry %d, %s%s) holds %s %r'
                 % (name, k, e.code, ', malformed' if e.bad else '', r.code, r.message),
                 op_index=i, expected_wire=e.wire, holds_entries=sorted(set(marks)))
            continue
        R.hit('reply-text-compared')
        if r.code != e.code or marks != want_marks or \
                r.message not in (e.text, '%s.0.0 %s' % (e.code[0], e.text)):
            viol('reply-content-differs/%s/%s' % (who, name),
                 'reply object of %s holds %s %r, script sent %r' % (name, r.code, r.message, e.wire),
                 op_index=i, expected_wire=e.wire)
        elif e.addr is not None and addr != e.addr:
            viol('lmtp-data-reply-for-other-recipient/%s' % name,
                 'end-of-data reply naming %s returned for %s' % (e.addr, addr), op_index=i)
        R.hit('command-attribute-compared')
        if r.command != e.cmd:
            viol('reply-command-attribute-differs/%s/%s' % (who, name),
                 'the Reply returned by %s says command=%r, expected %r' % (name, r.command, e.cmd), op_index=i)
    if lost_at is not None:
        # every reply the server delivered completely before it went away was read in order by the call that
        # then raised: its object must hold it (checked above); none may be left empty
        for i, name, k, addr, r in returned:
            if k is not None and r.code is None and entries[k].end <= fault['off'] and \
                    entries[k].need <= srv.fired_units and i <= lost_at:
                viol('delivered-reply-not-populated-before-connection-lost/%s/%s' % (who, name),
                     'script entry %d ended at offset %d, connection ended at %d' % (k, entries[k].end, fault['off']),
                     op_index=i)
    if srv.sync_checked:
        R.hit('lockstep-checked', srv.sync_checked)
    if timed_out_at is None and lost_at is None and not bad_raised:
        # (after a failed call replies are still owed while the next command goes out: nothing to judge)
        for unit, verb in srv.early[:1]:
            kind = 'content-sent-before-data-reply-read' if unit in plan['content_units'] \
                else 'command-sent-before-previous-reply-read-without-pipelining'
            viol('%s/%s/%s' % (kind, who, verb.decode('latin-1')), '%s: unit %d (%r) arrived with %d bytes handed '
                 'out, %d owed before it' % (kind, unit, verb, ss.consumed, srv.need_before(unit)))
    if any(b > 1 for b in srv.batches):
        R.hit('pipelined-batch')
    if isinstance(mode, (list, tuple)):
        R.hit('cut-delivery')
    if aborted is None and lost_at is None:
        srv.release()
        left = client.io.recv_buffer + ss.unread() + b''.join(srv.pending)
        R.hit('tail-compared')
        if left != TAIL:
            if left.endswith(TAIL):
                mech = 'owed-replies-left-unread'
            elif TAIL.endswith(left):
                mech = 'unsolicited-tail-consumed'
            else:
                mech = 'unclassified/leftover-differs'
            viol('%s/%s' % (mech, who), '%s: leftover %r, expected %r' % (mech, left[:80], TAIL))
        if srv.released != len(entries):
            viol('unclassified/script-not-exhausted/%s' % who, 'only %d of %d replies were ever released'
                 % (srv.released, len(entries)))
        if client.reply_queue:
            viol('reply-queue-not-drained/%s' % who, '%d reply objects still queued at the end'
                 % len(client.reply_queue))
        plan_seen = [plan['verbs'].get(u + 1, b'<content>') for u in range(srv.units)]
        if (len(srv.seen) != len(plan_seen) or any(p is not None and p != q for p, q in zip(plan_seen, srv.seen))) \
                and phantom is None and not out:
            R.inconclusive('command stream differs from plan')
    aligned = lost_at is None and timed_out_at is None     # else: units after the fault are not the plan's
    for unit, raw in plan['utf8_units'].items():
        if unit in srv.lines and (aligned or unit <= srv.fired_units):
            if b'<' + raw + b'>' in srv.lines[unit]:
                R.hit('utf8-address-sent-as-utf8')
            else:
                viol('utf8-address-not-sent-as-utf8/%s/%s' % (who, srv.seen[unit - 1].decode('latin-1')),
                     'command %r does not carry %r' % (srv.lines[unit], raw))
    for unit, want in plan['mail_units'].items():
        if unit not in srv.lines or not (aligned or unit <= srv.fired_units):
            continue
        line = srv.lines[unit]
        got = dict((t.split(b'=', 1) + [b''])[:2] for t in line.split(b'>', 1)[-1].split())
        got = {k.upper(): v for k, v in got.items()}
        R.hit('mail-parameters-compared')
        for key in (b'SIZE', b'AUTH'):
            kn = key.decode().lower()
            if key in got and key not in want:
                viol('mail-parameter-sent-although-not-applicable/%s/%s' % (who, kn),
                     '%r carries %s= although it was not given or %s is not advertised' % (line, kn.upper(), kn.upper()))
            elif key in want and key not in got:
                viol('mail-parameter-missing/%s/%s' % (who, kn), '%r lacks %s=' % (line, kn.upper()))
        if set(got) - {b'SIZE', b'AUTH'}:
            viol('unclassified/unknown-mail-parameter/%s' % who, '%r' % line)
        if b'SIZE' in want and got.get(b'SIZE', want[b'SIZE']) != want[b'SIZE']:
            viol('mail-parameter-value-differs/%s/size' % who, '%r, size given %r' % (line, want[b'SIZE']))
        if b'AUTH' in want and b'AUTH' in got:
            if want[b'AUTH'] == b'<>':
                if got[b'AUTH'] != b'<>':
                    viol('mail-parameter-value-differs/%s/auth-null' % who, '%r for auth=False' % line)
            else:       # the xtext form is recorded, not judged
                R.observe('mail-auth-xtext-form', (want[b'AUTH'], got[b'AUTH']))
                R.count('recorded/xtext(%s)=%s' % (ascii(want[b'AUTH']), got[b'AUTH'].decode('latin-1')))
    if phantom is not None:
        # a refused call left a reply owed; what the oracles saw from that call on is one defect
        late = [v for v in out if v[2].get('op_index', len(case['ops'])) >= phantom[0]]
        if late:
            out = [v for v in out if v not in late]
            mech, what, kw = late[0]
            kw = dict(kw, refused_op_index=phantom[0], refused_address=case['ops'][phantom[0]]['arg'],
                      consequences=sorted(set(v[0] for v in late)))
            if phantom[2] == 'address':
                mech = 'phantom-owed-reply-after-unencodable-address/%s/%s' \
                    % (who, {'mail': 'mailfrom', 'rcpt': 'rcptto'}[phantom[1]])
            elif phantom[2] == 'hello-name':
                mech = 'phantom-owed-reply-after-unencodable-hello-name/%s/%s' % (who, phantom[1])
            else:
                mech = 'phantom-owed-reply-after-unencodable-mail-parameter/%s' % who
                kw['refused_auth'] = case['ops'][phantom[0]].get('auth')
            out.append((mech, '%s(%r%s) raised UnicodeEncodeError but left a reply owed; then: %s'
                        % (phantom[1], case['ops'][phantom[0]]['arg'],
                           ', auth=%r' % kw['refused_auth'] if 'refused_auth' in kw else '', what), kw))
    # faults: what is seen after a scripted fault is attributed to the handling of that fault
    def own_name(m):             # root causes that have nothing to do with the fault keep their name
        return m == STALE or m.startswith('phantom-owed-reply')

    if timed_out_at is not None:
        # the statement does not say what a client owes after the caller abandoned a read: the pairing seen
        # afterwards is recorded; only reading past what is owed is judged
        kept = []
        for mech, what, kw in out:
            if mech.startswith('would-block'):
                kept.append(('after-timeout/' + mech, what, kw))
            else:
                R.count('recorded/after-timeout/' + mech.split('/')[0 if not mech.startswith('unclassified') else 1])
        if len(kept) == len(out):
            R.count('recorded/after-timeout/pairing-intact')
        out = kept
    elif bad_raised:
        first = bad_raised[0][0]
        stale_at = [i for i, _ in bad_raised if i in plan['stale_ops']]
        if stale_at:
            # the BadReply cut short a send_*data() whose recipient list would have shown the known stale-recipient
            # disagreement: what follows is that finding's knock-on
            out = [(STALE if kw.get('op_index', len(case['ops'])) >= stale_at[0] else m, w, kw) for m, w, kw in out]
        out = [(('after-bad-reply/' + m) if kw.get('op_index', len(case['ops'])) >= first and not own_name(m)
                else m, w, kw) for m, w, kw in out]
    elif lost_at is not None:
        out = [(('after-connection-lost/' + m) if kw.get('op_index', len(case['ops'])) >= lost_at and not own_name(m)
                else m, w, kw) for m, w, kw in out]
    R.observe('flush-shape', tuple(srv.batches))
    return out, aborted


# ------------------------------------------------------------------ concurrent clients
class SwitchSocket(ScriptSocket):
    """A read that finds nothing ready really switches to the scheduler greenlet (as a gevent socket switches to
    the hub); when the scheduler gives this conversation its next turn the feeder has handed over one piece."""

    def _next(self, n):
        if not self.segments:
            self.scheduler.switch('blocked')
            self.on_recv(self)               # this turn's piece (nothing if no reply is owed)
            if not self.segments:
                raise WouldBlock()
        self.recv_calls += 1
        seg = self.segments[0]
        if len(seg) <= n:
            self.segments.pop(0)
            out = seg
        else:
            out = seg[:n]
            self.segments[0] = seg[n:]
        self.consumed += len(out)
        return out


class Conversation(object):
    """One client, its scripted socket and server, driven through its ops inside its own greenlet."""

    def __init__(self, case, plan, mode, rs, scheduler):
        self.case, self.plan = case, plan
        self.srv = ReplyServer(plan, mode, random.Random(rs))
        self.ss = SwitchSocket(on_recv=self.srv.on_recv, on_send=self.srv.on_send)
        self.ss.scheduler = scheduler
        self.client = (LmtpClient if case['lmtp'] else Client)(self.ss, ('peer%d.test' % (rs % 7), 25))
        self.ctx = FakeTlsContext()
        self.objs = []           # (op index, slot, address, Reply) of every reply object a call returned
        self.trace = []          # per op: what the caller saw when the call returned
        self.turns = 0
        self.done = False
        self.g = greenlet(self.run, parent=scheduler)

    def run(self):
        for i, o in enumerate(self.case['ops']):
            try:
                got = call(self.client, o, self.ctx)
            except WouldBlock:
                self.trace.append((i, o['op'], 'would-block'))
                break                        # the real program hangs here
            except (UnicodeEncodeError, NotImplementedError, BadReply, ConnectionLost) as ex:
                self.trace.append((i, o['op'], type(ex).__name__))
                continue
            except Exception as ex:          # nothing a caller expects: this conversation ends here
                self.trace.append((i, o['op'], 'crash:' + type(ex).__name__))
                break
            for j, (addr, r) in enumerate(got):
                self.objs.append((i, j, addr, r))
            self.trace.append((i, o['op'], tuple((addr, r.code, r.message, r.command) for addr, r in got),
                               sum(1 for _, _, _, r in self.objs if r.code is not None)))
        self.done = True
        return 'done'

    def turn(self):
        self.turns += 1
        self.g.switch()

    def snapshot(self):
        c = self.client
        self.srv.release()
        return {'trace': self.trace,
                'replies': [(i, j, addr, r.code, r.message, r.command) for i, j, addr, r in self.objs],
                'extensions': sorted((k, v) for k, v in c.extensions.extensions.items()),
                'lmtp-recipients': [(i, addr, r.code, r.message) for i, j, addr, r in self.objs if addr is not None],
                'leftover': c.io.recv_buffer + self.ss.unread() + b''.join(self.srv.pending),
                'owed': (len(c.reply_queue), [a for a, _ in getattr(c, 'rcpttos', [])]),
                'wire': list(self.ss.sent), 'turns': self.turns, 'tls': self.ctx.wrapped}


def run_conversations(convs, plans, modes, seeds, schedule):
    """schedule None: one after the other, each alone (the reference). Else a sequence of conversation indexes,
    one per turn. Returns (snapshots, problem)."""
    sched = getcurrent()
    cs = [Conversation(c, p, m, rs, sched) for c, p, m, rs in zip(convs, plans, modes, seeds)]
    problem = None
    if schedule is None:
        for c in cs:
            while not c.done and c.turns < 100000:
                c.turn()
    else:
        for j in schedule:
            if cs[j].done:
                problem = 'conversation %d finished in fewer turns than alone' % j
                break
            cs[j].turn()
        if problem is None and not all(c.done for c in cs):
            problem = 'conversations %r need more turns than alone' % [j for j, c in enumerate(cs) if not c.done]
    for c in cs:                 # a conversation left blocked is dropped
        if not c.done:
            c.g.throw(greenlet.GreenletExit) if c.g else None
    shared = None
    seen = {}
    for j, c in enumerate(cs):
        for i, slot, addr, r in c.objs:
            if id(r) in seen and seen[id(r)][0] != j and c.plan['per_op'][i]:
                shared = 'op %d of conversation %d and op %d of conversation %d returned the same Reply object' \
                    % (seen[id(r)][1], seen[id(r)][0], i, j)
            seen[id(r)] = (j, i)
    return [c.snapshot() for c in cs], problem, shared


def run_concurrent(case, R):
    convs = case['convs']
    plans = [build_plan(c) for c in convs]
    modes = case['cmodes']
    rnd = random.Random(case['rs'])
    seeds = [rnd.randrange(1 << 30) for _ in convs]
    names = '+'.join(sorted(set('lmtp' if c['lmtp'] else 'smtp' for c in convs), reverse=True))
    R.eval()
    ref, problem, _ = run_conversations(convs, plans, modes, seeds, None)
    if problem or any(r['turns'] >= 100000 for r in ref):
        R.inconclusive('reference conversation does not end')
        return
    turns = [r['turns'] for r in ref]
    if 'all' in case:
        k, nk = case['all']
        total = turns[0] + turns[1]
        scheds = []
        for n, pos in enumerate(itertools.combinations(range(total), turns[0])):
            if n % nk == k:
                ps = set(pos)
                scheds.append([0 if t in ps else 1 for t in range(total)])
        R.hit('concurrent-interleavings-enumerated', len(scheds))
    else:
        base = [j for j, t in enumerate(turns) for _ in range(t)]
        scheds = []
        for _ in range(case['nsched']):
            sc = list(base)
            rnd.shuffle(sc)
            scheds.append(sc)
    shape = tuple(script_shape(c, p) for c, p in zip(convs, plans))
    if any(is_nontrivial(c, p) for c, p in zip(convs, plans)):
        R.nontrivial(('conc', shape, tuple(modes)))
    for sc in scheds:
        R.eval()
        got, problem, shared = run_conversations(convs, plans, modes, seeds, sc)
        R.hit('concurrent-conversations-compared', len(convs))
        R.observe('interleaving', (khash_shape(shape), tuple(modes), tuple(sc)))
        switches = sum(1 for a, b in zip(sc, sc[1:]) if a != b)
        R.count('interleavings-with-%s-switches' % ('0' if switches == 0 else '1-3' if switches < 4 else '4+'))
        witness = {'schedule': sc, 'modes': modes, 'turns_alone': turns}
        if shared:
            R.violation('reply-object-shared-between-clients/%s' % names, shared, witness)
        if problem:
            R.violation('concurrent-clients-interfere/turns/%s' % names, problem, witness)
        for j, (a, b) in enumerate(zip(ref, got)):
            for key in ('replies', 'trace', 'extensions', 'lmtp-recipients', 'leftover', 'owed', 'wire', 'tls'):
                if a[key] != b[key]:
                    R.violation('concurrent-clients-interfere/%s/%s' % (key, names),
                                'conversation %d (%s): %s differs from the same conversation alone: %r, alone %r'
                                % (j, 'lmtp' if convs[j]['lmtp'] else 'smtp', key, short_of(b[key]), short_of(a[key])),
                                dict(witness, conversation=j))
                    break


def khash_shape(shape):
    return zlib.crc32(repr(shape).encode('utf-8'))


def short_of(x):
    s = repr(x)
    return s if len(s) < 400 else s[:400] + '...'


def before_units(plan, i):
    """Command units the script expects on the wire before op i puts its own there."""
    return max([u for u in plan['op_unit'][:i] if u is not None] or [0])


def lmtp_or_smtp_pipelining(plan, i):
    """True when, by the script, PIPELINING is in effect for the command of op i."""
    unit = plan['op_unit'][i]
    return unit is not None and plan['piped'].get(unit, False)


def script_shape(case, plan):
    f = case.get('fault') or {}
    return tuple((o['op'], o['code'][0], o['nl'], plan['refused'].get(i), plan['op_unit'][i] in plan['utf8_units'],
                  tuple(sorted(plan['mail_units'].get(plan['op_unit'][i], ()))), o.get('mech'), o.get('chal'),
                  bool(o.get('bytes')), plan['no_command'].get(i))
                 for i, o in enumerate(case['ops'])) + \
        (case['lmtp'], tuple((bool(o.get('adv')), bool(o.get('utf8'))) for o in case['ops'] if 'adv' in o),
         f.get('type'), f.get('op'), f.get('form'))


def is_nontrivial(case, plan):
    ents = plan['entries']
    err_before_last = any(e.code[0] in '45' for e in ents[:-1])
    multi = any(e.nl > 1 for e in ents)
    return (err_before_last and multi) or 'lmtp-mixed-acceptance' in plan['flags']


def run_case(case, R):
    if case['kind'] == 'conc':
        return run_concurrent(case, R)
    plan = build_plan(case)
    shape = script_shape(case, plan)
    if is_nontrivial(case, plan):
        R.nontrivial(shape)
    R.observe('script-shape', shape)
    for f in plan['flags']:
        R.count('scripts-with-' + f)
    rnd = random.Random(case['rs'])
    ok = True
    for mode in case.get('modes') or MODES:
        rs = rnd.randrange(1 << 30)
        R.eval()
        viols, aborted = run_once(case, plan, mode, rs, R)
        for mech, what, detail in viols:
            ok = False
            detail['script'] = [e.wire for e in plan['entries']]
            R.violation(mech, what, detail)
    if ok and case['kind'] == 'rand' and len(case['ops']) > 9:
        R.sample({'lmtp': case['lmtp'], 'ops': [(o['op'], o['code'], o['nl']) for o in case['ops']],
                  'script': [e.wire for e in plan['entries']][:12]})
